# Per-property configuration of ./check: which Lean module holds the property theorems, which harness
# components tie the model to /repo and search for failing inputs, and what the evidence should say.
PROPS = {
    "C01": dict(
        level="other",
        module="GM.Props.C01",
        claim="Partial, by design. Kernel-checked: for every goldmark component inside the Lean model - the renderer and all node renderers, kind "
              "dispatch, the AST mutators and Walk, the buffered write path with failing writers, heading-id probing, Reader/BlockReader and their "
              "helper loops, the inline driver loop for contract-abiding parsers, line recognisers - the model's explicit panic and fuel-exhaustion "
              "outcomes are unreachable on EVERY input under the guard the code runs them with (theorems collected from the owning packages); "
              "parser/attribute.go with the heading glue (ParseAttributes from every reader offset, parseLastLineAttributes, ATX Open/Close with "
              "WithAttribute/WithAutoHeadingID: attribute_parser_total, attribute_last_line_total, attribute_heading_total); "
              "the util transformers are total definitions with justified recursion. The WHOLE BLOCK PHASE (parseBlocks/openBlocks/closeBlocks with the "
              "ten default block parsers) returns a tree for EVERY byte string: no Go run-time panic, no fuel exhaustion, the BlockParser contract "
              "kept at every goto retry (block_phase_no_panic, block_phase_never_errs, block_phase_contract_kept); the WHOLE INLINE PHASE of a "
              "block is total for every source (inline_phase_total). The COMPOSITION for the default CommonMark configuration "
              "(GM.Convert.convertCore: block phase with the link reference paragraph transformer of parser/link_ref.go, inline phase of every non-raw "
              "block, HTML renderer, options Unsafe/XHTML/HardWraps) never ends in fuel exhaustion on any byte string (convert_never_loops, "
              "convert_outcome; block_phase_with_transformers_terminates for any admissible transformer list; link_reference_scanner_total / "
              "link_reference_scan_total: parseLinkReferenceDefinition and the transformer's scan are total on well-formed padding-free lines, "
              "link_reference_scan_never_loops for any paddings) - unconditional because its two hypotheses (well-formed lines at the transformer, "
              "padding-free well-formed lines at the inline phase) are CHECKED at run time with distinct outcomes, which component `convert` shows never "
              "fire. Searched, not proved: no-panic of the composition with the paragraph transformer (GM.Props.Convert.NoPanic is stated, not "
              "proved), extensions and options, by Convert and Parse+Render over exhaustive short strings and mutated corpora under the "
              "configuration lattice with panic recovery and a per-input watchdog. A theorem cannot reach stack depth or running time.",
        note="Trusted: Lean kernel (+ propext, Classical.choice, Quot.sound); the correspondence checks that tie each model to its Go code (they are "
             "run by the owning properties' checks; component `convert` ties the composed model to goldmark.Convert on whole documents, HTML byte for "
             "byte under 8 renderer option sets); the watchdog bound (200x the median of same-size inputs, floor 2 s). Paragraph transformers, "
             "extension block/inline parsers and the hand-over between the phases are not yet inside the proved model.",
        technique="Lean 4 no-panic / termination theorems over the models of the components + exhaustive and random search with watchdog on the whole pipeline",
        components=["total", "blocks", "inlines", "attribute", "convert"],
        explanation="Proved per modelled component for all inputs (see theorem list); searched: every string of length <= 3 over a 22-symbol and <= 4 "
                    "over an 11-symbol Markdown-significant alphabet under 4 extreme configurations, mutated/generated/adversarial/long/deep documents under "
                    "the full lattice, both API paths, panic recovery, watchdog. Component convert: whole documents (all strings <= 4 over a 16-symbol "
                    "document alphabet, link-reference sub-alphabets and definition contexts, spec.json, corpora, generated and composed definition documents) "
                    "through 8 real goldmark instances vs convertCore; oracle clauses convert-panic / convert-error / convert-slow.",
        assumptions=["the per-component correspondences hold (checked by the owning properties)", "a hang is a run exceeding the watchdog bound"],
    ),
    "C19": dict(
        level="proof",
        module="GM.Props.C19",
        claim="Kernel-checked theorems, for every byte string, about a Lean model of util's escaping/normalisation functions whose tables are "
              "regenerated from /repo on each run; the model is tied to the Go code by exhaustive small-scope and random differential runs, and the "
              "laws are additionally evaluated on the real functions' outputs. A proof is the right level because the property quantifies over all byte strings.",
        note="Trusted: Lean kernel (+ propext, Classical.choice, Quot.sound), the gmgen translator, the correspondence harness, models of "
             "url.QueryEscape/strconv.ParseUint/unicode/utf8 (validated differentially). Proved in Lean for all byte strings: the EscapeHTML laws, "
             "all five URLEscape laws (both modes), valid-UTF-8 preservation of the three resolvers with out-of-range numbers -> U+FFFD, and "
             "ToLinkReference's normal form, idempotence, whitespace and case (ASCII + table-driven Unicode) insensitivity. Two provisos found: "
             "(1) URLEscape copies bytes 0x80-0xC1/0xF8-0xFF that cannot start a UTF-8 sequence unchanged, so 'pure ASCII' needs valid input (as the "
             "property says) and 'control byte' means <=0x20 and 0x7f; (2) interior \\v/\\f in a link label are not collapsed (only trimmed at the "
             "ends): the whitespace law holds for runs of space/tab/LF/CR (refuting witness proved). BytesFilter: filter_is_set (Contains <=> membership in the spec's plain key list) and extend_isolated are proved for ALL programs by a heap "
             "invariant over run ops (slots well-formed, views = spec set per hash bucket, prefix masks cover every member, no two slots share an array). "
             "Also proved: pctDecode(URLEscape v) = pctDecode v for valid UTF-8. See notes/status_C19.md.",
        technique="Lean 4 theorems over a hand-written model + regenerated tables; differential correspondence check against the Go implementation",
        components=["util", "filter"],
        explanation="Theorems over all byte strings about the Lean model of util's transformers (GM.Model.Util), whose byte-class, "
                    "entity and case-folding tables are regenerated from /repo on every run; the model is tied to the Go functions by "
                    "exhaustive small-scope + random differential runs (component util) and BytesFilter op sequences (component filter); "
                    "the C19 laws are also evaluated directly on the implementation's outputs.",
        assumptions=["url.QueryEscape, strconv.ParseUint and unicode/utf8 are modelled from their documentation and validated differentially"],
    ),
    "C20": dict(
        level="proof",
        module="GM.Props.C20",
        claim="Kernel-checked theorems over a Lean model of goldmark's registries (util.PrioritizedSlice, the parser's and renderer's configuration "
              "slices, the three carriers of goldmark.New, the sync.Once table builds, the consultation loops of openBlocks/parseBlock/transformParagraph, "
              "the renderer's kind table and ast.Walk), quantified over every registration order, every carrier mix and EVERY sorting function that "
              "returns a sorted permutation (sort.Slice is unstable). The model is tied to the Go code by exhaustive small-scope and random differential "
              "runs of logging probe components; the property's clauses are also checked directly on the implementation's invocation logs.",
        note="Trusted: Lean kernel (+ propext, Classical.choice, Quot.sound), the correspondence harness, that sort.Slice returns a sorted permutation "
             "(the SortContract hypothesis). The built-in parsers' own accept/decline decisions are environment input (scripted in the model-compared ops, "
             "real behind logging proxies in the oracle-only ops). Not modelled: RequireParagraph retry, container blocks (HasChildren), close-blockers, "
             "SetOptioner option propagation, renderer errors.",
        technique="Lean 4 theorems over a hand-written model; differential correspondence check (invocation logs) against the Go implementation; log oracle",
        components=["registry"],
        explanation="Theorems sorted_unique / trigger_table / free_after_triggered / first_accept_wins / transformers_ascending / renderer_min_wins / "
                    "missing_kind_skipped / ties_harmless over GM.Model.Registry for all registration lists, carriers and admissible sorts. Component "
                    "registry registers scripted, logging probe block parsers, inline parsers, paragraph/AST transformers and node renderers (custom and "
                    "built-in kinds) through NewParser/NewRenderer options, WithParserOptions/WithRendererOptions and Extenders, in all orders of <=4 probes "
                    "with priorities placed between the shipped defaults (read from the real objects at run time), and compares the invocation logs with the "
                    "model; a Go oracle independent of the model checks ascending consultation, first-accept, transformer order, lowest-value renderer and "
                    "skipping of function-less kinds (including a kind created after the renderer was first used) on scripted and on real-pipeline runs.",
        assumptions=["sort.Slice with the priority comparison returns a sorted permutation of its input (any tie order)",
                     "the decisions of parsers (accept/decline) are inputs of the registry model, not predicted by it"],
    ),
    "C06": dict(
        level="other",
        module="GM.Props.C06",
        claim="Partial, by design. Kernel-checked: (i) for the instance state machine (options pending, configuration frozen by a Once at first use, "
              "per-call document state) a call after ANY history returns what a fresh instance returns, and Convert = Parse;Render; (ii) the obligations "
              "over the write facts REGENERATED from /repo on every run: every write to long-lived goldmark state is in a Once closure, a configuration "
              "method or a package initialiser, and no method on the Parse/Render path writes through a long-lived receiver (a parser, transformer or node "
              "renderer that starts caching anything breaks this obligation). Searched, not proved: histories of Convert/Parse/Render on shared instances "
              "versus fresh ones, re-rendering of the same tree, tree unchanged by rendering. A theorem alone cannot reach the unmodelled parsers, hence 'other'.",
        note="Trusted: Lean kernel (+ propext, Classical.choice, Quot.sound); the syntactic fact extractor gmgen (writes through interfaces, reflection or an "
             "alias of the receiver escape it); the block/inline parsers are not modelled - their statelessness rests on the facts and on the search.",
        technique="Lean 4 theorems over an instance state machine + kernel-checked obligations over write facts regenerated from the source; history search against fresh instances",
        components=["history"],
        explanation="Proved for all histories in the instance model; facts re-extracted from /repo and re-checked by the kernel on every run; "
                    "searched: adversarially ordered histories on shared Markdown/Parser/Renderer objects compared call by call with fresh instances, "
                    "k-fold re-rendering, tree dump before/after rendering.",
        assumptions=["the fact extractor sees every write to long-lived state (syntactic; see DESIGN.md)", "per-call state lives in Context/Reader objects created per call"],
    ),
    "C07": dict(
        level="other",
        module="GM.Props.C07",
        claim="Partial, by design. Kernel-checked: in the small-step interleaving model of the lazy-initialisation protocol (N callers racing on once.Do, "
              "then reading the built table; sync.Once's documented contract as the synchronisation rule) NO reachable state of ANY schedule has two callers "
              "about to access the shared table with one of them writing, and every returned result equals the sequential one; plus the obligations over "
              "the REGENERATED write facts (shared state written only under a Once, before first use, or at package initialisation; the three lazily built "
              "tables really are built under a Once). Searched, not proved: the real code under the Go race detector with contended first use.",
        note="Trusted: Lean kernel; sync.Once's contract; the syntactic fact extractor; the race detector only sees executed paths. The Go memory model "
             "itself is outside the model.",
        technique="Lean 4 invariant proof over all interleavings of the Once protocol + kernel-checked obligations over regenerated write facts; race-detector search with concurrent first use",
        components=[{"name": "concurrent", "race": True, "nomodel": True}],
        explanation="Proved for all schedules and any number of callers in the protocol model; facts re-extracted and re-checked on every run; searched: "
                    "8 goroutines released together on one fresh shared instance per configuration (Convert and Parse+Render), outputs compared with "
                    "sequential ones, binary built with -race, several GOMAXPROCS values.",
        assumptions=["sync.Once behaves as documented", "the fact extractor sees every write to long-lived state"],
    ),
    "C12": dict(
        level="other",
        module="GM.Props.C12",
        claim="Partial, by design. (1) Kernel-checked theorems over a heap of Go slices WITH capacity (append stores in place when it fits): no sequence of "
              "CopyOnWriteBuffer operations and no Segment.Value call stores into any array that existed before (in particular the source), old arrays stay "
              "bit-identical, and the result aliases the input only while nothing was written; the pre-repair Segment.Value is a refuting witness. "
              "(2) Kernel-checked obligation over a write-site inventory REGENERATED from the tree under test on every run (gmgen type-checks goldmark and "
              "records every byte-slice write primitive: index store, copy, append, clear, a []byte handed to a writing library call such as "
              "bytes.NewBuffer / utf8.EncodeRune / strconv.Append*, or to a goldmark function that writes through that parameter - 33 sites today): every "
              "destination is memory the writing function owns (freshly allocated; the copy-on-write buffer behind its `if !copied` guard; a parameter of an "
              "unexported function all of whose call sites are checked) or is on a reviewed one-entry allow-list. A new append / NewBuffer / index store / "
              "copy whose destination derives from a parameter, a call result (PeekLine, Segment.Value, util.Trim*, ...), a field or a global breaks the "
              "obligation and the check names the site. (3) Searched, not proved: the whole pipeline converting twice from a PROT_READ mapping whose spare "
              "capacity is read-only as well, so a direct store and an in-place append onto any sub-slice both fault; util / text / id-generator functions "
              "on read-only inputs.",
        note="Trusted: Lean kernel; the slice/heap model of Go's append; the write-site extractor (go/types based, its origin analysis is intra-procedural "
             "with result and written-parameter summaries of statically resolved goldmark callees; its lists of writing and of read-only library callees); "
             "the harness's read-only mapping (self-tested on every run: a store and an append must fault). A slice parked in a struct field or reached "
             "through an interface is never classified as owned, so a write to it is flagged; what escapes is listed in notes/status_C12.md.",
        technique="Lean 4 theorems over a slice-with-capacity heap model of CopyOnWriteBuffer and Segment.Value; kernel-checked obligation over a regenerated, "
                  "type-based inventory of every byte-slice write site with origin classes; read-only-memory search over the whole pipeline",
        components=["rosource"],
        diagnose=[("GM.Spec.SliceWrites", "GM.Spec.sliceWritesReport GM.Gen.sliceWrites")],
        explanation="Proved for all operation sequences / all segments in the heap model; the write-site inventory is re-extracted from /repo and the obligation "
                    "'every write destination is owned or reviewed' re-checked by the kernel on every run; searched: every document (corpus, mutants, generated, "
                    "and families directed at the write sites: duplicate / pre-normalised / explicit heading ids, attribute blocks with escapes and class/id "
                    "merges, extension constructs, no final newline) converted twice (Convert, Parse+Render, Node.Text, segment values) from read-only memory "
                    "under corner and lattice configurations, outputs compared; util / text / id-generator functions on read-only inputs, bytes compared afterwards.",
        assumptions=["Go's append writes in place iff len+n <= cap", "a fault on the read-only mapping is reported by the runtime as a recoverable panic (SetPanicOnFault); self-tested each run",
                     "the write-site extractor sees every byte-slice write primitive of the non-test, non-verif-tagged Go files and never classifies caller memory as fresh (limits in notes/status_C12.md)",
                     "library functions on the extractor's read-only list (bytes.Equal/HasPrefix/Index*/Replace/ToLower/Repeat/Split, utf8.DecodeRune, regexp Match/Find*, io.Writer.Write, fmt.*printf) do not modify the slices they are given"],
    ),
    "C10": dict(
        level="proof",
        module="GM.Props.C10",
        claim="Kernel-checked theorems, for every AST, every extension set and every option set (table alignment method pinned != Default, "
              "East-Asian line breaks off), about the Lean model of the HTML renderer that mirrors the scattered option conditionals and the "
              "per-renderer html.Config copies: the output is flatMap emit of one option-independent piece list (render_factor); XHTML only "
              "rewrites void-element ends, HardWraps only prefixes soft breaks with a br element, Unsafe only changes raw-HTML pieces and "
              "dangerous destinations. A proof is the right level because the property quantifies over all inputs and configurations.",
        note="Trusted: Lean kernel (+ propext, Classical.choice, Quot.sound), the gmgen translator (attribute filters), the correspondence "
             "harness and the AST dumper, the parser as producer of trees (the theorems hold for every tree, parser-shaped or not).",
        technique="Lean 4 theorems over a hand-written renderer model; differential correspondence (component render); metamorphic oracle on "
                  "the real library over the 8 option combinations (component options)",
        components=["render", "options"],
        tie=["render"],
        explanation="Theorems over all trees about GM.Model.Render via the option-independent IR of GM.Model.RenderIR. The model is tied to "
                    "renderer/html/html.go, renderer/renderer.go and the extension renderers by component render (real parser trees and random "
                    "API-built trees under many option combinations, bytes compared); component options evaluates the property itself on the "
                    "real library: each document is converted under the 8 combinations of XHTML/HardWraps/Unsafe and the 12 single-option "
                    "pairs are compared modulo the licensed differences, with counts taken from the real AST.",
        assumptions=["table alignment method pinned (Attribute in the oracle, any non-Default method in the theorems) and East-Asian line-break "
                     "suppression off, as in the property text",
                     "the theorems speak about trees; that the parser output does not depend on renderer options is checked by the oracle "
                     "(8 independent Convert calls), not proved"],
    ),
    "C17": dict(
        level="proof",
        module="GM.Props.C17",
        claim="Kernel-checked theorems, for every source, every paragraph (list of line segments) and every alignment list, about a Lean model "
              "of the table extension's Transform / parseRow / parseDelimiter and of the thead/tbody/tr/th/td emission of its render functions: "
              "body rows have exactly one cell per column (padding and truncation), written cells carry their column's alignment, a header whose "
              "cell count differs from the delimiter row yields no table, one header row first, and the rendered tag skeleton matches an "
              "independently written grammar of a rectangular table. The model is tied to the Go code by exhaustive small-scope and random "
              "differential runs of the public ParagraphTransformer and the real HTML renderer; the property is additionally checked directly on "
              "the real HTML and AST of random pipe/dash/colon documents. A proof is the right level because the property quantifies over all rows of any length.",
        note="Trusted: Lean kernel (+ propext, Classical.choice, Quot.sound), the correspondence harness, the hand-written matchers for the four "
             "delimiter regexps (RE2 semantics; validated differentially). Cell *content* is abstract in the skeleton: that inline content cannot emit "
             "table tags is C03's subject and is covered here only by the document-level oracle in safe mode.",
        technique="Lean 4 theorems (induction over the row loop / the paragraph's lines) over a hand-written model; differential correspondence check "
                  "against extension.NewTableParagraphTransformer().Transform and TableHTMLRenderer; document-level oracle on goldmark.Convert output",
        components=["table", "convertx"],
        explanation="Theorems over all sources/paragraphs about GM.Model.Table (parseRow_len, parseRow_align, parseRow_padding, header_guard, "
                    "transform_first_delim, table_rectangular, one_header, parseDelimiter_needs_dash, rendered_rectangular against GM.Spec.Table.Rectangular); "
                    "component table compares Transform's AST (alignments, rows, per-cell alignment/segment/escaped-pipe positions, remaining paragraph lines) and "
                    "the rendered tag skeleton with the model on an exhaustively enumerated scope + random paragraphs, and checks C17 directly on the HTML and AST "
                    "of random documents (tables in lists/quotes/after text, escaped pipes, code spans) under Table, GFM, XHTML and align-attribute configurations.",
        assumptions=["paragraph line segments lie inside the source and have ForceNewline=false (only code blocks set it); the paragraph has a parent",
                     "Go regexp (RE2) semantics of the four delimiter patterns are modelled by hand-written greedy matchers and validated differentially",
                     "inline content of a cell emits no table tags (safe mode; property C03); node attributes set by user AST transformers are out of scope"],
    ),
    "C16": dict(
        level="proof",
        module="GM.Props.C16",
        claim="Kernel-checked theorem footnote_consistent: for every id prefix, every list of definition labels and every sequence of reference "
              "events (any order/multiplicity, under images, inside other footnotes, referenced or not), the Lean model of the footnote extension "
              "(index assignment at first reference, the footnoteLinkIsRendered filter, reference counting, back-link synthesis, removal of "
              "unreferenced definitions, ordering, decimal id/href formatting) produces consistently numbered items, references that link to exactly one "
              "item and show its number, back-links in one-to-one correspondence with rendered references, pairwise distinct ids, and no output for "
              "unreferenced definitions. A proof is the right level because the property quantifies over all placements and multiplicities of references.",
        note="Trusted: Lean kernel (+ propext, Classical.choice, Quot.sound), the correspondence harness (probe inline parser delegating to the real "
             "footnote parser, probe AST transformer at priority 998, HTML id/href extraction). The abstraction of a document into (labels, events) "
             "is computed from the real parse, not proved. 'Referenced' is read at source level (any recognised [^label], also in alt text or in a removed footnote).",
        technique="Lean 4 theorems over a hand-written model; differential correspondence check against the Go implementation; property oracle on the rendered HTML",
        components=["footnote", "convertf"],
        explanation="Theorems over all definition/reference sequences about the Lean model of extension/footnote.go (GM.Model.Footnote); the model's "
                    "input is derived from the real parse by two passive probes and its predicted ids, hrefs, shown numbers, link counters and item "
                    "provenance are compared with the real HTML and final AST on an exhaustively enumerated token scope plus random documents; "
                    "the C16 clauses are also evaluated directly on the real HTML (a dangling back-link is classified by cause).",
        assumptions=["the document abstraction (definition labels in block-phase order, reference events in inline-phase order with image/host flags) is observed on the real parse by probes, not derived in Lean",
                     "FootnoteIDPrefixFunction (a per-node prefix callback) is outside the modelled configuration; a constant IDPrefix is covered"],
    ),
    "C09": dict(
        level="other",
        module="GM.Props.C09",
        claim="Partial, by design. Kernel-checked (second half of the property): the link reference map is first-wins over normalised labels; moving "
              "a block of definitions whose normalised labels are defined nowhere else leaves every lookup and every resolved use unchanged; labels that "
              "normalise equally resolve equally; plus obligations over facts REGENERATED from /repo: Parse completes the block phase before the inline "
              "phase, the map is written only by parseLinkReferenceDefinition and read only by the link parser; and, over the model of "
              "parser/link_ref.go itself (GM.Model.LinkRef, tied by component convert): the map a paragraph leaves is the old map after AddReference of "
              "the list of its definitions (scan_builds_map_by_add_reference - so the map theorems speak about the map the code builds), "
              "first_definition_wins, duplicate_definition_ignored, new_definition_resolves, title_needs_blank_rest_of_line, "
              "scan_stops_at_first_non_definition, transformer_removes_front (what Transform keeps is the lines without an initial segment; contract monitor for adjacent ranges, never fired). Searched, not proved (first half): "
              "independence of neighbouring closed blocks - A + heading + B against the parts - and definitions moved top <-> bottom on the real library "
              "(GM.Props.Convert.DefinitionsMove is stated, not proved).",
        note="Trusted: Lean kernel; gmgen's syntactic phase/call-site facts; the model of util.ToLinkReference (tied by the util correspondence, C19). "
             "The block driver (open-block stack, context keys reset on close) is modelled (GM.Model.Blocks, with paragraph transformers: "
             "GM.Model.Blocks.DriverT) and tied (components blocks, convert) but block independence is not proved on it.",
        technique="Lean 4 theorems over a model of the reference map + kernel-checked obligations over regenerated phase facts; metamorphic search (A+h+B, moved definitions)",
        components=["indep", "blocks", "convert", "blockindep"],
        explanation="Proved for all definition lists / uses in the reference-map model; facts re-extracted each run; searched: pairs (A,B) without '[' "
                    "and CR where A does not end inside a code/HTML block (checked on the real parse), and documents with fresh definitions moved from top to bottom, "
                    "referenced in case/whitespace variants, core and GFM. Component convert: pairs (definitions with labels zq.., document) - "
                    "Convert(defs + D) against Convert(D + blank line + defs), the definitions ending the document with and without final newlines, "
                    "clause definitions-not-position-independent; every such document is also compared with the composed model.",
        assumptions=["the block driver unwinds closed blocks completely (searched, not proved)"],
    ),
    "C04": dict(
        level="proof",
        module="GM.Props.C04",
        claim="Kernel-checked theorems, for every byte string a link/image destination or autolink URL can hold, that the value the renderer model "
              "writes into href/src in safe mode is not read as javascript:/vbscript:/file:/non-image data: by an independently written browser-like "
              "normaliser (character references decoded with the regenerated HTML5 table, C0/space trimmed, tab/CR/LF removed, scheme lower-cased); "
              "the list of href/src emitters and the scheme constants are regenerated from /repo and tied by decide. A proof is the right level because "
              "the property quantifies over every spelling of a URL.",
        note="Trusted: Lean kernel (+ propext, Classical.choice, Quot.sound), the gmgen translator (urlAttrSites = string literals containing href=/src= in "
             "renderer/html and extension), the render/util correspondence harness, and GM.Spec.Url as the reading of 'the way a browser does'. "
             "The parser is not modelled: the theorems hold for whatever bytes the parser stores in the node, and the real parser+renderer output is "
             "searched with the same Lean-defined predicate (tok urls) and an independent Go one (html.UnescapeString based).",
        technique="Lean 4 theorems over the hand-written renderer/util model + regenerated facts; differential correspondence against the Go "
                  "implementation; enumerated scheme-spelling search on the real parser+renderer",
        components=["urlspell", "render", "util", "history"],
        explanation="safe_href / safe_autolink / footnote_href_harmless: for all byte strings, the href/src value written by the three URL emitters of "
                    "GM.Model.Render in safe mode (and any '#'-prefixed footnote href) is harmless under Spec.hrefDangerous; emitters_complete and "
                    "schemes_tied break when the Go code gains an href/src literal or changes a scheme constant. Component urlspell runs the real "
                    "renderer on API-built Link/Image/AutoLink nodes for an exhaustively enumerated alphabet of URL fragments (compared with the exact "
                    "expressions of the theorems) and the real parser+renderer on every letter case / escape / entity / percent / control-character "
                    "split of the four schemes in every URL-bearing construct; render and util tie the models used by the theorems.",
        assumptions=["GM.Spec.Url.hrefDangerous is an adequate reading of 'the way a browser does' (WHATWG URL scheme state; named references need ';')",
                     "attribute values reach the output only through the modelled emitters (emitters_complete covers string literals containing href=/src=)"],
    ),
    "C13": dict(
        level="proof",
        module="GM.Props.C13",
        claim="Kernel-checked refinement theorem: a Lean transcription of ast.BaseNode's link fields and of all seven mutators "
              "(AppendChild, InsertBefore, InsertAfter, ReplaceChild, RemoveChild, RemoveChildren, SortChildren) refines a plain "
              "list-of-children forest, for every finite call sequence within the property's proviso (induction over the sequence), "
              "without panic and without exhausting loop fuel; every accessor returns what the list model says; Walk equals the textbook "
              "DFS with skip/stop/error on the represented tree. The transcription is tied to /repo/ast/ast.go by differential runs that "
              "compare the full observable state after each call, and the real nodes are also compared directly with an independent Go list model.",
        note="Trusted: Lean kernel (+ propext, Classical.choice, Quot.sound), the hand transcription of ast.go (validated differentially: "
             "exhaustive small scopes + random sequences, both inside and outside the proviso), the harness. The receiver is always passed as `self`. "
             "ReplaceChild(self, nil, x) and nil children panic in Go (theorems replace_nil_panics / nil_child_panics); they are outside Pre.",
        technique="Lean 4 refinement proof (pointer heap as record of field functions -> forest of child lists) + differential correspondence and spec oracle against the Go implementation",
        components=["ast", "walk"],
        explanation="GM.Model.AstHeap transcribes ast.go:179-371 and 483-527 statement by statement onto a heap of field functions; "
                    "GM.Props.C13.step_refines/run_refines show that within the proviso (inserted node not the target parent or an ancestor of it, "
                    "not the reference node, no nil dereference) every call sequence yields a heap representing exactly the forest the documented "
                    "list meaning gives, that no Go loop fails to terminate (fuel_suffices) and that the forest stays acyclic; walk_eq_dfs/walk_after_run "
                    "show Walk makes exactly the textbook DFS visitor calls. Components ast and walk run the same call sequences / walker scripts on real "
                    "ast.Node values and on the compiled model and compare the complete observable state after each call; an independent Go list-of-children "
                    "oracle checks the property itself on the implementation.",
        assumptions=["every call passes the receiver as `self` (all goldmark call sites do)",
                     "no concrete node type overrides the BaseNode link methods (checked by grep at build time of this package: none does)",
                     "the walker does not mutate the tree during Walk (scripted walkers only)"],
    ),
    "C03": dict(
        level="proof",
        module="GM.Props.C03",
        claim="Kernel-checked theorems, for every option/extension combination in safe mode and every AST satisfying the decidable tree "
              "invariant Spec.Inv, about the Lean model of the HTML renderer: the output is accepted by the specification-side strict tokenizer, "
              "is well nested, uses only the renderer's tag vocabulary and per-tag allowed (or data-*) attribute names, has inert text and "
              "attribute values, the placeholder as only comment, voids in the style of the output mode (safe_wf); with XHTML it is also "
              "token-level well-formed XML (safe_xhtml_xml); the same for any renderer state with inert footnote strings (safe_wf_rc); no renderer function panics under the invariant (inv_noPanic); option propagation "
              "reaches every per-renderer config copy (propagation_complete). A proof is the right level because the property quantifies over all inputs.",
        note="Trusted: Lean kernel (+ propext, Classical.choice, Quot.sound), the gmgen translator (attribute filters, entity table), the "
             "correspondence harness and the AST dumper. Inv of parser output is monitored on every generated document (render inv); its attribute clauses are proved for the only attribute-producing parser (package attribute: attribute_names_valid, attribute_names_distinct, attribute_heading_node_inv, attribute_setext_close_inv), the rest is not proved: "
             "the block/inline parsers are not modelled. Character representability in XML is the property's own proviso.",
        technique="Lean 4 theorems over a hand-written renderer model: structural induction into an inductive grammar (WFHtml) + soundness of the "
                  "strict tokenizer for that grammar; differential correspondence (component render); Lean-defined oracles (tokenizer + "
                  "predicates, Inv) evaluated on the real renderer's output and the real parser's trees",
        components=["render", "attribute"],
        tie=["render", "attribute"],
        explanation="GM.Proof.RenderWF proves in two steps that render (mkRCfg o e) t is a word of the grammar WFHtml (inert text, placeholder "
                    "comment, void element, element around a well-formed body, concatenation; side conditions: tag in Spec.vocab, attribute names "
                    "allowed for the tag or data-*, lexically valid, pairwise distinct, values inert) by induction over Node/List Node with a "
                    "lemma per node kind, and that the strict tokenizer Spec.tokenize reads every grammar word back into tokens satisfying "
                    "wellNested, vocabOK, inert, voidsOK and xmlTok. The model is tied to renderer/html/html.go, renderer/renderer.go and the "
                    "extension renderers by component render (bytes compared on parser trees and random API-built trees); the same component "
                    "passes every real safe-mode output through the Lean tokenizer and predicates and every real parser tree through Spec.Inv.",
        assumptions=["Spec.Inv holds of parser output (attribute names lexically valid and distinct, no attribute repeating a name the renderer "
                     "function writes itself, heading level 1..6, CodeSpan children are Text, table shape, code-flagged Strings inert): checked on "
                     "every generated document, not proved",
                     "the footnote renderer's configurable strings are inert (true of the defaults mkRCfg builds; safe_wf_rc covers any inert strings)"],
    ),
    "C14": dict(
        level="proof",
        module="GM.Props.C14",
        claim="Kernel-checked theorems, for every sequence of Write/WriteString/WriteByte/WriteRune calls, every fault offset k, both failure modes, "
              "destinations with and without io.StringWriter, and both the wrapped and the caller-supplied-BufWriter paths, about a Lean model of Render's "
              "output path (renderer/renderer.go:157-173), Go's bufio.Writer and Convert: the destination's accepted bytes are a prefix of the output (exactly the "
              "first k bytes under a short-write fault), a destination error always comes back from Render/Convert as that error, and without a fault the output "
              "is complete with a nil error. The model is tied to the real code by replaying the exact call sequence the real renderer makes (recording BufWriter "
              "over a real bufio.Writer over a fault-injecting writer) and comparing accepted bytes, error, underlying call count and Buffered().",
        note="Trusted: Lean kernel (+ propext, Classical.choice, Quot.sound), the correspondence harness, the reading of go1.23 bufio.Writer. The node renderers are "
             "abstracted as an arbitrary call list (they ignore per-write results; no renderer calls Available/Buffered).",
        technique="Lean 4 theorems (invariant of a bufio.Writer state machine) + differential correspondence by call-sequence replay + fault-injection oracle on plain Convert",
        components=["bufio"],
        explanation="Theorems over all call sequences / fault offsets / modes about the Lean model GM.Model.Bufio (fault-injecting destination, bufio.Writer with sticky "
                    "error, large-write bypass, StringWriter fast path, partial flush; Render's wrap/early-return/Flush; Convert). Component bufio converts corpus "
                    "documents (spec.json, _test/*.txt, generated documents with outputs beyond 4096/8192 bytes and writes straddling the buffer boundary) with the "
                    "real library into a failing writer at every offset k (small outputs) or at offsets stratified around buffer-size multiples (large outputs), "
                    "through plain Convert and through a recording BufWriter; the model replays the recorded call sequence and must predict the outcome; the "
                    "property's own oracle (non-nil error that errors.Is the injected one, accepted bytes a prefix of the fault-free output, no panic) is evaluated on every run.",
        assumptions=["the destination honours the io.Writer contract of the fault model (n <= len(p); an error whenever n < len(p)); a writer returning a short count with a nil error is outside the model",
                     "node renderers write only through their BufWriter argument and never look at a write result or at Available()/Buffered() (true of /repo by inspection when the package was written; every run re-checks it dynamically: the call sequence recorded under each fault must equal the fault-free one)"],
    ),
    "C15": dict(
        level="proof",
        module="GM.Props.C15",
        claim="Kernel-checked theorems, for every list of heading texts and every Generate/Put sequence, about a Lean model of the id generator "
              "(parser/parser.go ids.Generate/Put, one table per parse Context): generated ids are non-empty, fresh and pairwise distinct, the numeric-suffix "
              "probing loop always terminates within |table|+1 probes, and a document's ids are a function of its own heading texts. The model is tied to the "
              "Go code through the public parser.NewContext().IDs() (exhaustive small scope + random) and through a recording IDs table installed with "
              "parser.WithIDs on real documents; presence/non-emptiness/uniqueness/history-independence are also checked directly on rendered HTML.",
        note="Trusted: Lean kernel (+ propext, Classical.choice, Quot.sound), the correspondence harness. Presence of the id attribute on every rendered "
             "h1-h6 is established by the document-level oracle run (it is a fact about parser+renderer, not about the generator). Proviso of the property: "
             "no explicit attribute syntax (two headings may carry the same explicit {#id}).",
        technique="Lean 4 theorems over a hand-written model of ids.Generate/Put; differential correspondence against the Go implementation at function and document level; HTML-level oracle",
        components=["ids", "converth"],
        explanation="Theorems over all heading-text lists / all Generate-Put sequences about the Lean model GM.Model.Ids (slug, fallback, suffix probing with a "
                    "proved bound, per-document table). Component ids ties the model to parser.NewContext().IDs() (all Generate sequences of <=5 values and "
                    "Generate/Put sequences of <=4 ops over 9 adversarial values, + random) and to the call sequence the heading parsers really make on documents "
                    "(recording table via parser.WithIDs); the property's own oracle extracts the id of every h1-h6 from the HTML produced by plain Convert after a "
                    "conversion history and on a fresh instance.",
        assumptions=["callers do not mutate the []byte returned by Generate (the table keeps it as an unsafe read-only string key)",
                     "heading texts in generated documents do not contain raw '<' (the id extractor reads start tags)"],
    ),
    "C08": dict(
        level="other",
        module="GM.Props.C08",
        claim="Partial, by design. Kernel-checked, for EVERY tab-free line and every start column, over a Lean model of goldmark's line recognisers "
              "(blockquoteParser.process with a one-line model of text.Reader's Advance/AdvanceAndSetPadding/LineOffset, util.IndentWidth/IndentPosition, "
              "isThematicBreak, the closing-fence test, indented-code Open/Continue, the block-offset computation and per-line gate of openBlocks): "
              "(i) marker consumption - on [0-3 spaces] '>' [' '] r, process() advances exactly over the marker and one optional space, leaves padding 0, "
              "hands exactly r to the children and moves the column by the same amount, and declines (reader untouched) when there is no '>' within three "
              "columns; (ii) offset invariance - each of these recognisers, and the marker step itself, gives the same answer from every start column, so the "
              "two columns a marker adds cannot change what the children see (with a tab this is false; counterexamples are in the file, which is why the "
              "property excludes tabs). The model is tied to the Go functions (driven through the verif-tagged hook parser/export_verif.go) by an exhaustive "
              "function-level correspondence. SEARCHED, not proved: that the block driver composes these steps into 'a block quote containing the same "
              "blocks' on whole documents - the metamorphic oracle Convert(prefix^n D) = wrap^n(Convert(D)) (component quote).",
        note="Trusted: Lean kernel (+ propext, Classical.choice, Quot.sound); the hook file (add-only wrappers calling the real functions through a real "
             "text.Reader/Context); the correspondence harness. The block driver (parseBlocks/openBlocks/closeBlocks, blank-line bookkeeping, lazy "
             "continuation, HTML blocks, lists, paragraphs) is not modelled - it is covered by the search only.",
        technique="Lean 4 theorems over models of the line recognisers + exhaustive function-level correspondence; metamorphic search",
        components=["linerec", "quote", "blocks"],
        tie=["linerec"],
        explanation="Proved (GM.Props.C08): quote_consumes_marker / _nospace / quote_declines (marker consumption on every tab-free line, any prefix), "
                    "offset_invariant / offset_invariant_quote / indent_pos_tabfree (all offset-taking line recognisers are column-independent on tab-free "
                    "lines). Tie: component linerec runs every recogniser of the model and the real Go function on ALL lines up to length 5-7 over a "
                    "per-recogniser alphabet (with and without final newline) x 9 reader start states (columns 0-4, and inside a tab with padding 1-3) plus "
                    "random longer lines, outputs compared; Go oracles independent of the model check marker consumption and column independence directly "
                    "on the real functions and compare each recogniser with a regexp transcription of the CommonMark wording (reported under C02). "
                    "Searched: component quote converts D and prefix^n(D) (n <= 3) under core/GFM x safe/unsafe/XHTML and compares; for spec examples the "
                    "expected side comes from spec.json.",
        assumptions=["documents contain no tab and no carriage return (the property's proviso; the theorems' tabFree hypothesis)",
                     "the block driver hands each container's remaining line view to its children unchanged (searched by component quote, not proved)"],
    ),
    "C11": dict(
        level="other",
        module="GM.Props.C11",
        claim="Partial, by design; per extension the gap between 'the loop ignores a declining parser' and 'this extension's code declines' is now closed by "
              "theorems over regenerated facts and decline models. PROVED (kernel-checked): (1) the shared machinery - a Lean model of the per-block inline "
              "driver (*parser).parseBlock over abstract inline parsers: silent_parser_irrelevant (a parser that declines everywhere leaves the resolved text "
              "unchanged, any place in the priority order, loop terminates), not_consulted (every Parse call is at a byte that passed the trigger test, to a "
              "parser registered for its table index), never_consulted (if no punctuation byte of the source is a trigger byte of q and q is not registered "
              "for ' ', the run with q EQUALS the run without it: children, reader, call log), first_accept_wins; (2) facts REGENERATED from extension/*.go and "
              "parser/*.go on every run (byte literals of every Trigger(), what every Extend registers with priorities, GFM's member list, "
              "parser.DefaultInlineParsers): facts_triggers (Strikethrough in {~}, TaskList in {[}, Footnote block in {[} / inline in {! [}, DefinitionList in "
              "{:}, Typographer in {' \" - . < >} plus {, * [}, Linkify = {space * _ ~ (}, Table/CJK none), facts_registrations, facts_gfm_members "
              "(GFM = Linkify, Table, Strikethrough, TaskList and nothing else), facts_default_inline_table; (3) decline theorems over models of each "
              "extension's early exit: linkify_declines (no ':', '@', 'www.' in the peeked line => nil, reader and parent untouched), footnote_open_declines and "
              "footnote_inline_declines (no '[^' => Open returns nil; no FootnoteList => Parse returns nil on every line), footnote_transformer_without_list, "
              "deflist_open_declines (no ':'), tasklist_declines, typographer_declines (nil at every byte other than ' \" - . < >, in particular at , * [), "
              "table_needs_dash (a paragraph of a source without '-' is never transformed), cjk_ascii_breaks_kept (both East-Asian styles write the newline "
              "between ASCII characters, Unicode predicates as parameters that are false on ASCII), cjk_escaped_space_inert / cjk_escaped_space_writer "
              "(WithEscapedSpace changes neither the loop without a space-triggered parser nor the writer's output on text without backslash-space), "
              "block_parser_not_tried (a triggered block parser is not among the candidates of a line starting with another byte); never_consulted_concrete - on the "
              "CONCRETE inline phase (GM.Model.InlinesLoop: the default code span/link/autolink/raw HTML/emphasis parser models, delimiter and label "
              "processing; GM.Model.InlinesLoopX = the same loop over an open trigger table, proved equal to it on the default table) one more inline parser, "
              "whatever its Parse does, added at any place of any table entry leaves parseBlock's result (tree or panic) unchanged on every source without "
              "its trigger bytes, for every well-formed padding-free line list; (4) compositions ext_strikethrough/tasklist_conservative_concrete (the same with "
              "the regenerated trigger bytes), "
              "ext_strikethrough/tasklist_conservative_inline (regenerated triggers + never_consulted: runs equal on sources without '~' / '['), "
              "ext_typographer/linkify/footnote_conservative_inline (regenerated triggers + decline model as script + silent_parser_irrelevant: same resolved "
              "text on every well-formed block of a source without the extension's characters). SEARCHED, not proved (component conservative: with/without "
              "each extension, alone and combined, HTML compared; GFM vs members): the composition with the block phase and the renderer - that a block parser "
              "returning nil leaves the block structure alone, that node renderers registered for the extension's node kinds are inert without such nodes, "
              "Table's AST transformer; for the three CONSULTED parsers (Linkify, Typographer, footnote) the composed theorem is over the abstract loop only "
              "(no concrete analogue of silent_parser_irrelevant).",
        note="Paragraph transformers return without touching paragraphs they do not recognise - for the built-in link reference transformer "
             "(model GM.Model.LinkRef of parser/link_ref.go, tied by component convert under C01/C02/C05/C09): unrecognised_paragraph_untouched, "
             "unrecognised_paragraph_state_untouched (Transform ends in exactly the state it started from), paragraph_not_started_by_bracket_untouched. "
             "Trusted: Lean kernel (+ propext, Classical.choice, Quot.sound); the gmgen translator (go/ast; what it cannot see: registrations made through "
             "helper functions or variables other than m.Parser()/m.Renderer().AddOptions, Trigger() bodies that are not a single return of a literal - "
             "both are emitted as 'not understood' and fail facts_understood); the correspondence harness. The abstract inline parser neither reads nor mutates the "
             "parent's children: true of a parser that declines (checked on every nil by extdecline's oracles), so accepting Linkify (which flushes one byte "
             "into the parent) is outside the composed theorems - they speak about trigger-free sources only. Segment.Padding is not modelled in the loop: "
             "blocks with padding are skipped by op loop and reported as an unmet assumption by inlineloop. Linkify's two URL regexps are not modelled: lines that "
             "pass a bytes.HasPrefix guard (http: https: ftp: www.) are answered 'regexp' by model and harness alike; typographer quote handling likewise "
             "('quote'). Default LinkifyConfig / default typographic substitutions only.",
        technique="Lean 4 theorems (two-run simulation over the byte loop; run equality for unconsulted parsers; per-extension decline theorems; decide over facts "
                  "regenerated from the Go source by a go/ast translator) over hand-written models; function-level differential correspondence driving the real "
                  "Parse/Open/Transform/softLineBreak through the public API; the real extension parsers inside the real loop vs the loop model; metamorphic "
                  "oracles on the real library",
        components=["inlineloop", "extdecline", "table", "conservative", "convertx"],
        tie=["inlineloop", "extdecline", "table"],
        explanation="Theorems in GM.Props.C11 over GM.Model.InlineLoop (helpers GM.Proof.InlineLoop, InlineLoopUnused), GM.Model.ExtDecline/ExtLoop (helpers "
                    "GM.Proof.ExtDecline, ExtLoop, ExtWriter), GM.Model.InlinesLoop/InlinesLoopX (helper GM.Proof.InlinesLoopX, reusing the loop invariant of the "
                    "totality proof GM.Proof.InlinesLoopTotal/InlinesLink; the concrete model itself is tied by component inlines, run under C01/C02/C05, not "
                    "here), GM.Model.Table, GM.Model.Writer and the regenerated GM.Gen.ExtFacts (obligations in GM.Spec.ExtFacts). Component inlineloop: goldmark parsers with ONLY scripted probe inline parsers, every document over 8 symbols up to "
                    "length 4 (6 thorough) x 9 probe sets + random documents/scripts/segment lists, children and call log compared with the loop model; oracles "
                    "silent-parser-changes-text, parser-consulted-off-trigger. Component extdecline: the real Trigger() of all 23 parser types vs the regenerated "
                    "literals (oracle: inside the characters C11 allows); extension.NewLinkifyParser/NewFootnoteParser/NewFootnoteBlockParser/"
                    "NewDefinitionListParser/NewDefinitionDescriptionParser/NewTaskCheckBoxParser/NewTypographerParser driven with a real block reader, context "
                    "(link-label state entered through the real link parser, footnote list built through the real block parser's Open+Close) and parent on "
                    "every line over per-function alphabets up to length 4-5 (5-6 thorough) x context flags + every byte value in key positions + random lines, "
                    "result (nil/node, bytes advanced, parent touched) compared with the decline models; the footnote AST transformer on corpus documents; "
                    "html.VerifSoftLineBreak on all 128x128 ASCII pairs x 3 styles + rune samples with the real Unicode predicates passed to the model, and a "
                    "hand-built Text(soft)+Text paragraph through html.NewRenderer; op loop: the REAL Linkify/Typographer/footnote inline parser as the only "
                    "inline parser inside the real parseBlock (every call logged by a forwarding wrapper) vs the loop model instantiated with regenerated "
                    "triggers + decline model. Independent oracles (property clauses on the real code): a parser must return nil without touching parent or "
                    "(Linkify, Typographer, TaskList) reader on a line without its characters; resolved text of every block equal with and without the real "
                    "parser on trigger-free documents; ASCII pairs never suppress a break; ASCII paragraphs render identically under every East-Asian style; the "
                    "escaped-space writer equals the default writer on text without backslash-space (op wr, also compared with GM.Model.Writer). Component table "
                    "(C17's package: the real table paragraph transformer vs GM.Model.Table) is run here because table_needs_dash is a theorem about that model. "
                    "Component conservative: each built-in extension on/off on documents free of its trigger set; GFM vs its members.",
        assumptions=["block lines are well-formed: non-empty segments inside the source, increasing, every line but the last ends with its newline, padding 0 "
                     "(what the built-in block parsers produce; checked on every compared block)",
                     "an inline parser that returns a node has advanced the reader by >= 1 byte; a parser that returns nil may leave the reader anywhere",
                     "a block parser's Close runs only after its Open returned a node (so no FootnoteList exists in a document without '[^'), and a block parser "
                     "that returns nil from Open without moving the reader leaves the block structure as it is (contract of openBlocks; covered by search)",
                     "no ASCII rune is East-Asian wide/F/W/H or space-discarding in util's Unicode tables (checked exhaustively on every run: clause "
                     "assumption:ascii-runes-are-narrow)",
                     "the rendering of the node kinds an extension adds, its node renderers and Table's AST transformer on documents without such nodes are "
                     "covered by search (conservative), not by proof"],
    ),
    "C18": dict(
        level="proof",
        module="GM.Props.C18",
        claim="Kernel-checked refinement theorems: a Lean model of text.reader / text.blockReader (every cached field, Go panics explicit) "
              "simulates a plain cursor over the list of line views on every call sequence that respects the stated preconditions; the model is "
              "tied to text/reader.go and text/segment.go by exhaustive small-scope and random differential runs of call sequences, and the real "
              "readers are independently compared, call by call, with a Go cursor. A proof is the right level because the property quantifies over all sources and all call sequences.",
        note="Trusted: Lean kernel (+ propext, Classical.choice, Quot.sound), the correspondence harness, cap(source)=len(source), models of unicode/utf8 "
             "and util.IsSpace/IsPunct/IsBlank/TabWidth (tied by C19's component util). Not modelled: Match/FindSubMatch (regexp). Known finding: reader.SetPadding keeps the line and column caches.",
        technique="Lean 4 refinement proof (state machine model vs. abstract cursor) + differential correspondence check against the Go implementation + Go-side cursor oracle",
        components=["reader"],
        explanation="Theorems in GM.Props.C18 over all sources, segment lists and call sequences about the Lean models GM.Model.Reader / GM.Model.Segment; "
                    "component reader runs the same call sequences on text.NewReader / text.NewBlockReader and on the model (every return value compared) and "
                    "checks the real readers against a Go cursor over the line views; sequences outside the preconditions are only compared with the model.",
        assumptions=["cap(source) = len(source) (Go slices up to the capacity, the model up to the length)",
                     "segments passed to NewBlockReader are non-nil",
                     "unicode/utf8.DecodeRune/RuneStart are modelled from their documentation and validated differentially (component util)"],
    ),
    "C02": dict(
        level="other",
        module="GM.Props.C02",
        claim="Partial, by design. The property itself - goldmark's HTML for every constructed document equals the HTML the specification "
              "prescribes - is a statement about the unmodelled block/inline parsers; it is decided by CORRESPONDENCE between a Lean spec-side "
              "executable model (annotated document trees, every licensed surface spelling, the prescribed HTML; written from the CommonMark "
              "0.31.2 text, not from goldmark's code) and the implementation: the model's Markdown is converted by the real library "
              "(WithUnsafe, WithXHTML) and compared byte for byte with the model's HTML (up to a newline before a closing container tag / at "
              "the end, which the spec's own comparison ignores). Kernel-checked: the escape-spelling axis as a law of the modelled text writer "
              "(Write(escSpell c s) = RawWrite(s) for ALL printable-ASCII strings and ALL per-character choices of literal / backslash / "
              "decimal / hex / named-entity spelling, entity names checked against the table regenerated from /repo), tag balance of the "
              "expected HTML of every tree, independence of the expected HTML from every spelling choice. Emphasis (6.2), which the tree generator "
              "avoids where the delimiter-run rules decide (intraword runs, the multiple-of-3 rule, which opener a closer takes), is decided by a second "
              "spec-side reference, GM.Spec.CMEmph (source bytes -> prescribed HTML by the delimiter-stack algorithm of the spec's appendix, without its "
              "openers_bottom optimisation, with code spans (6.1) taking precedence; it reproduces all 180 spec.json examples inside its alphabet, 121 of "
              "the 132 of section 6.2 and 18 of the 22 of section 6.1), compared with the "
              "implementation on EVERY short string over the delimiter alphabets (component cmemph); kernel-checked about that reference, for all token "
              "sequences: the tree spells back exactly the source characters (emph_preserves_text), every <em>/<strong> pairs a run that can open with a "
              "later run of the same character that can close under the multiple-of-3 condition (emph_sound_rules_1_8), the HTML is tag-balanced "
              "(emph_html_balanced) and its text content is the tree's (emph_html_text); the algorithm is structurally recursive (no fuel); the appendix's "
              "openers_bottom table, keyed by (character, can-open, length mod 3), never changes the reference's result "
              "(emph_openers_bottom_is_optimisation), while keyed without the length it does (witness *a**b**c*y: the seeded change C02-7). Inline "
              "links and images (6.3/6.4: link text, both destination forms, the three title forms, separating white space, nesting, raw-HTML "
              "precedence) and reference links against one definition are decided by a third spec-side reference, GM.Spec.CMLink (bracket stack of the "
              "appendix; reproduces all 64 spec.json examples inside its alphabet and 30 of 30 one-definition reference-link examples), compared with the "
              "implementation on every short inside of [a](...) and every short bracket shape (component cmlink); kernel-checked about it: an accepted "
              "destination satisfies the grammar of its form incl. balanced parentheses (link_dest_form_sound; the whole parenthesised part: "
              "C02Link.inline_link_grammar), links are never nested in links at any depth (links_not_nested), the HTML is tag-balanced "
              "(link_html_balanced). Five deviations of goldmark's link scanner are reported under their own clauses (KNOWN_FINDINGS, candidate patches "
              "notes/candidate_fix_L1..L5.diff).",
        note="Trusted: Lean kernel (+ propext, Classical.choice, Quot.sound); the spec-side model GM.Spec.CommonMark as a reading of the "
             "specification (its wellFormed side conditions were triaged against spec.json's examples; see notes/status_C02.md); the Lean "
             "compiler/runtime for the generator; the harness. Not proved: any statement about the parsers. Known deviation reported under its "
             "own clause: tabs in list-item continuation indentation (KNOWN_FINDINGS). Component convert (the composed implementation-side model "
             "GM.Convert.convertCore against goldmark.Convert on whole documents, incl. all 652 spec.json examples with and without the final newline) "
             "found five deviations in link reference definitions (a rejected title still attached / definition range and reader position wrong behind "
             "a rejected title: notes/status_convert.md R1-R5), repaired in /repo 0539a73; the inputs stay in its fixed list.",
        technique="Lean 4 spec-side generator (trees x choices -> Markdown, prescribed HTML) + differential run against the real library; "
                  "Lean theorems for the escape-spelling law over the writer model; spec examples x licensed rewrites",
        components=["cmspec", "cmemph", "cmlink", "inlines", "linerec", "blocks", "convert", "cmfrag"],
        explanation="Component cmspec: (1) the driver enumerates the exhaustive small scope (families of trees of depth <= 2 x every value of "
                    "their choice axes: escapes of all 95 printable characters, ATX/Setext, fences, thematic breaks, list markers/offsets/"
                    "tightness, ordered starts, link styles/label variants/titles, emphasis delimiters and contexts, code spans, adjacent "
                    "block pairs, tab modes, final newline) and generates random trees of growing size; goldmark converts each spelling and "
                    "the HTML is compared with the model's expected HTML; (2) the 652 spec examples under 6 licensed rewrites (extra/missing "
                    "final newline, paragraph or thematic break before/after) compared with spec.json's HTML plus the added block, for the "
                    "examples goldmark renders byte-identically and where the rewrite is safe. Theorems: escSpell_decodes(_any), "
                    "escHtml_eq_rawWrite, expected_balanced, spell_choice_independent_expected. Component cmemph (spec-side emphasis reference "
                    "GM.Spec.CMEmph, driver ops `cmspec emph|emphi`): every string of length <= 7 (9 thorough) over {a, space, *, _}, <= 6 (7) over "
                    "{a, b, space, *, _, ., backslash}, <= 6 (7) over {a, space, *, newline, backslash}, <= 4 (5) over {a, *, _, e-acute, no-break space, em dash, "
                    "euro sign, space}, <= 7 (8) over {a, space, *, backtick, backslash}, <= 6 (7) over {a, backtick, *, _, space, newline}, every string of length <= 6 "
                    "over {a, space, *, _} and <= 5 over {a, space, *, backtick} as ATX heading content, the family of 4-5 delimiter runs of "
                    "lengths 1..3 with varied separators (opener / closer refused by the multiple-of-3 rule / later closers), 20k (300k) random strings of "
                    "length 8..40, all spec.json examples inside the reference's alphabet (the reference must reproduce spec.json too); goldmark's bytes "
                    "compared with the prescribed bytes, clause emphasis-differs. A repaired deviation keeps its own clause (a violation if it returns): a backslash escape at the start of "
                    "the line after a `backslash, two spaces, line ending` hard break (escape-after-backslash-spaces-break-differs, `fixed:` in KNOWN_FINDINGS). "
                    "Theorems: emph_preserves_text, emph_sound_rules_1_8, emph_html_balanced, emph_html_text, emph_openers_bottom_is_optimisation. "
                    "Component cmlink (spec-side inline-link reference GM.Spec.CMLink, driver ops `cmspec link|linkr|linkrx|linkattr`): `[a](X)` for every X of "
                    "length <= 5 (6 thorough) and `[a](X` for <= 4 (5) over {a, space, <, >, (, ), \", backslash, newline, 0x01}; `[a](b T)`, `[a](<b>T)`, "
                    "`![a](bT)` for every T of length <= 5/4 (6/5) over {a, space, newline, \", ', (, ), backslash}; every string of length <= 6 (7) over "
                    "{a, [, ], (, ), !, backslash} and {a, [, ], (, ), <, >, space}; with the definition `[a]: /u` appended every string of length <= 6 (7) over "
                    "{a, b, [, ], space, backslash, !} and {a, A, [, ], (, ), newline}; link reference definitions `[a]: X` + `[a]` for every X of length <= 5 (6) over "
                    "{a, space, <, >, (, ), \", backslash, 0x01} (the destination scanner is shared); reference labels / link texts across lines (every one-paragraph string of length <= 6 (8) over {a, b, [, ], !, newline} with a line "
                    "ending between brackets + `[a b]: /u`) spelled at top level, in block quotes (with and without marker space, nested, in a list item), in a bullet item and with lazy "
                    "continuation lines, clause reference-link-in-container-differs; 30k+10k (400k+133k) random strings; the spec.json examples in scope (64, "
                    "and 30 with one definition). Clause inline-link-differs; goldmark's confirmed deviations are attributed by asking the reference to "
                    "reproduce them (switches `Dev`): link-destination-pointy-differs, link-destination-unbalanced-paren-differs, "
                    "link-title-without-separator-differs, link-destination-control-char-differs, link-label-blank-differs, several-link-deviations-combined "
                    "(the pointy, unbalanced-paren, title-without-separator and blank-label ones are repaired in /repo - `fixed:` in KNOWN_FINDINGS, package linkfix - "
                    "and count as violations if they return; control-char and combined stay recorded findings). "
                    "Theorems: link_dest_form_sound, links_not_nested, link_html_balanced.",
        assumptions=["the Lean model GM.Spec.CommonMark is a correct reading of CommonMark 0.31.2 on wellFormed trees (it is the specification side of the comparison)",
                     "GM.Spec.CMLink is a correct reading of CommonMark 0.31.2 sections 6.3, 6.4 (and 6.6 open/closing tags) on documents inside linkOnly (validated on every run against the spec.json examples in scope)",
                     "GM.Spec.CMEmph is a correct reading of CommonMark 0.31.2 sections 6.1, 6.2, 2.4, 6.7/6.8 on documents inside emphOnly (validated on every run against the spec.json examples in scope)",
                     "GM.Model.Writer models defaultWriter.Write (tied by component render under C10)"],
    ),
    "C05": dict(
        level="other",
        module="GM.Props.C05",
        claim="Partial, by design. Clause (a) (Parent / sibling / FirstChild / LastChild / ChildCount agree with the actual child sequence, no node "
              "twice) is kernel-checked for EVERY sequence of calls of the seven ast.Node mutators within the proviso of C13 (no node inserted into "
              "its own subtree or relative to itself, no nil dereference): parser_traces_refine (the replayed pointer heap is exactly the "
              "list-of-children forest and every accessor returns what the forest says). That the PARSER stays within that proviso and builds its "
              "tree only through those calls is not assumed but checked on every parse: a verif-tagged hook (ast.VerifTrace) logs each top-level "
              "mutator call of a real Parse; the log is replayed on the Lean heap model with the proviso DECIDED before every call "
              "(preB_sound, preCheck_violated_exact, preCheck_fuel_suffices; checked_replay_ok / _violated / _never_stuck: the replay answers ok "
              "iff the trace is within the proviso, and then its final heap represents the forest) and the model's final heap is compared with the "
              "real final tree. Clause (c) pieces proved: text segments left by the inline driver loop lie inside the block's lines in increasing "
              "order (inline_text_segments_monotone), reader / block-reader positions lie inside the source (reader_positions_in_range, "
              "blockReader_positions_in_range); every line segment of every block the block phase builds lies inside the source, for EVERY byte "
              "string (block_lines_in_range); the tree the inline phase returns for a block has its segments in range and in document order, no "
              "bookkeeping node, emphasis levels 1-2, text-only code spans, no link in a link, for EVERY source (inline_segments_in_range_and_ordered, "
              "no_bookkeeping_node_survives, emphasis_levels_1_2, code_spans_hold_text, links_never_nested). Searched, not proved: clause (b) for "
              "block kinds (list items only in lists), the ORDER of a block's lines, and everything under extensions / paragraph transformers "
              "- the Lean-defined predicate GM.Spec.AstWF.wfAst (the formal statement of C05) and an independent Go "
              "checker are evaluated on every parsed tree (component wfast).",
        note="Trusted: Lean kernel (+ propext, Classical.choice, Quot.sound); the hand transcription GM.Model.AstHeap of ast/ast.go (tied by C13's "
             "components ast/walk and, here, by replaying real parser traces); the hook ast/verif_trace.go (build tag verif; reports a call iff no "
             "other mutator is among its 16 nearest caller frames - the mutators call each other); node identity = Go interface equality; the "
             "harness's reading of the real tree through the public accessors; Driver.AstTrace's token parser (all ids checked < N, which is the "
             "OpIn hypothesis of the theorems; fuel 2N+2 > N). SortChildren is replayed with a comparator that orders the children as the real "
             "call left them (the comparator is user code), so for that call the tie checks the link fields, not the order. RemoveChildren is "
             "never called by the parser or the built-in extensions (0 traces), so it is tied only by C13's component ast.",
        technique="Lean 4 refinement theorems (C13 development) + proved-exact decidable proviso check + replay of recorded real API traces on the "
                  "compiled model, differential comparison of the final heap with the real tree; Lean-defined well-formedness predicate evaluated on "
                  "every parsed tree with an independent Go checker; re-exported reader / inline-loop theorems",
        components=["asttrace", "wfast", "inlines", "blocks", "convert"],
        tie=["asttrace"],
        explanation="asttrace: one case = (configuration, document). The document is parsed under a global lock with ast.VerifTrace set to a recorder; "
                    "nodes are numbered by first appearance; the call list (a/b/f/r/d/x/s tokens) goes to the driver (asttrace run N root ops), which "
                    "replays it from the empty heap with GM.AstTrace.runChecked and prints the reachable part of the final heap in depth-first order "
                    "(id:parent:ChildCount:children forward:children backward); the harness prints the real tree in the same format from Parent/ChildCount/"
                    "FirstChild/NextSibling/LastChild/PreviousSibling and the two lines must be identical. Independently of the model the harness "
                    "evaluates the proviso on the real tree at every call (nil, reference == insertee, insertee among the target's ancestors) and reports "
                    "C05/mutator-precondition-violated with the document and call. Scope: all strings of length <= 4 over {a, space, LF, -, *, |, [, ], "
                    "`, :, >, =} under the all-extensions configuration (exhaustive), all corpus documents x 8 corner configurations, regression documents "
                    "(Setext fallback '- Foo\\n--', tables, escaped-pipe code spans, footnotes incl. SortChildren, definition lists, link reference "
                    "definitions), and the random document stream under random lattice configurations. wfast: wfAst on every tree (see its rule). "
                    "The theorems of GM.Props.C05 are listed with their meaning in notes/status_C05.md. convert: a probe paragraph transformer sees "
                    "the lines of every paragraph at the moment the link reference transformer runs (before paragraph.Close trims them) and checks "
                    "clause (c) on them - clause transform-lines-not-wellformed; the composed model's own run-time checks (well-formed lines at the "
                    "transformer, padding-free well-formed lines at the inline phase) are reported by the driver and never fire.",
        assumptions=["every call passes the receiver as `self` and no concrete node type overrides the BaseNode link methods (as for C13; a violation would "
                     "show as a replay difference)",
                     "no code outside package ast writes link fields directly (Gen.Facts: no SetParent/SetNextSibling/SetPreviousSibling call outside ast; "
                     "a bypass would show as a replay difference)",
                     "clauses (b) and (c) for the block and inline parsers are covered by search (wfast), not by proof"],
    ),
}

# Properties not claimed yet, with the reason shown in MANIFEST.not_applicable.
NOT_CLAIMED = {}

# ---- C08 texts after package quotesim (notes/status_quotesim.md) ----
PROPS["C08"]['claim'] = "Partial. PROVED (kernel-checked, Lean 4): (1) line level, for EVERY tab-free line and start column, over the model of goldmark's line recognisers tied by component linerec: marker consumption of blockquoteParser.process and column invariance of every offset-taking recogniser. (2) block level, over the executable model GM.Model.Blocks of parseBlocks/openBlocks/closeBlocks and the ten default block parsers (tied to the real parser by component blocks), by a forward SIMULATION between the block phase on D and on '> '-prefixed D (GM/Proof/QuoteSim*.lean): from related states (same open-block stack with one Blockquote at the bottom, node stores equal up to the extra node and segments moved by the markers in front of their line, reader shifted, same context keys) the one-line step of Open of all ten parsers, Continue of all ten (code / HTML block when there is a current line, fenced code / list item under explicit side conditions), Close of all ten (paragraph / setext on a node that is not raw; listParser.Close given that the HasBlankPreviousLines flags it reads agree in the two runs - FlagsOK, PROVED for reachable states of sources without a blank line: quote_flags_equal) and of the driver (closeBlocks, openBlocks with its goto-retry loop, RequireParagraph path and contract monitor, the per-line loop) ends in related states; on every line the Blockquote consumes exactly '> '. WHOLE RUNS, UNCONDITIONALLY (quote_prefix_simulation_nolist / _noitems, _nofinalnl, _class, quote_prefix_run): for every D without tab/CR that does not end with a space (the last line may or may not end with a line feed) and in which NO POSITION STARTS A LIST ITEM (nowhere a bullet - * + or a number of at most nine digits with . or ) that is followed by a space, a tab, a line end or the end of the source; digits, hyphens, emphasis stars are allowed; the list parsers are tried and decline in both runs), both block phases end normally and the tree of prefixed D is Document[Blockquote[tree of D, segments moved]] (GM.Props.Blocks.QuotePrefixSimulation). Nothing about the original run is assumed any more: it ends normally (GM.Props.Blocks.no_panic), reads every line (nonblank_line_opens_block), its open blocks have the kind their parser builds, its Document has no lines and is nobody's child, it builds no List/ListItem node (the list parsers decline: listOpen_declines, listItemOpen_declines) and stores no empty segment (original_run_well_shaped; non-raw blocks by GM.Props.Wf0.inline_segments_nonempty). WITH LISTS (quote_prefix_simulation_lists, quote_prefix_run_lists; all ten parsers simulated in both runs, no parser 'tried and declining'): the same conclusion for every D without tab/CR that does not end with a space and has NO BLANK LINE - bullet and ordered lists, nested lists, lists inside block quotes, items interrupted by other blocks, and the thematic breaks and hyphens (---, ***, a - b) that NoItem excludes. There the blank-line statistics of the original run at level i and of the prefixed run at level i+1 answer every isBlankLine question alike (GM/Proof/QuoteSimStats.lean), the only unshifted openBlocks calls (children of the Document) get the same flag too, so every node but the Document has the same HasBlankPreviousLines flag in both stores (NodeRel.blank); listItemParser.Continue's precondition (the block below an open ListItem is its parent List, IndentPosition only asked for an indentation that is there) comes from the no-panic proof's invariant of the original run in the middle of a pass (Sh.MidA / StableL), threaded through the per-line loop. WITH LISTS AND BLANK LINES (quote_prefix_simulation_lists_blank, quote_prefix_run_lists_blank): the same conclusion for every D without tab/CR that does not end with a space and in which no position starts a setext heading underline (NoBar: no rest of a line consists of '=' only or of '-' only, up to trailing spaces; the setext heading parser is tried and declines) - loose and tight lists, any block after blank lines. There the flags of the two runs really DIFFER (original true, prefixed false) on children of the Document opened after a blank line and on the chain of first children opened in the same openBlocks call; the simulation carries the store relation FE 'equal flags on every child but the first of every node but the Document' (exactly what listParser.Close and the dump read), kept across every parser call as a unit from unary facts of both runs and across the driver's SetBlankPreviousLines / AppendChild. SEARCHED, not proved: documents that have a setext underline pattern AND a blank line AND a list item position (setextHeadingParser.Close copies the paragraph's flag to the heading while the heading stands behind it; needs the invariant 'the heading is the temporary paragraph's next sibling'), a last line without line feed that ends with a space (driver oracle `blocks quotesim` on every tab/CR-free source), and C08 on HTML through the inline phase and renderer (metamorphic component quote: Convert(prefix^n D) = wrap^n(Convert D))."
PROPS["C08"]['note'] = "Trusted: Lean kernel (+ propext, Classical.choice, Quot.sound); the models GM.Model.LineRec / GM.Model.Blocks and their ties (components linerec, blocks: exhaustive small scopes + corpora, 0 disagreements); the hook file; the harness. Lists: proved for sources without a blank line (any setext underline allowed) and for sources WITH blank lines that have no setext underline pattern (NoBar). With blank lines the flags of the two runs differ on children of the Document opened after a blank line (original: true, prefixed: false - its Blockquote's statistics entry for the previous line is not blank, parser.go:1099) and on the chain of first children opened in the same openBlocks call; no reader looks at those, and the relation FE says exactly that. NOT proved: FE across setextHeadingParser.Close in whole runs (it copies a flag), hence documents with setext underline patterns, blank lines and list item positions together; PROVED as a unit lemma under the one missing unary invariant of the original run 'the heading is the temporary paragraph's next sibling' (GM/Proof/QuoteSimFE6.lean: fe_setextClose, fe_bpClose_setext, ADJ) - establishing and keeping that invariant from AppendChild to Close needs the last-child invariant LK of GM.Proof.BlocksTNP20-26 carried through the simulation's walk (notes/status_quotesim.md). 'The parent list just answered Continue' for listItemParser.Continue IS proved (from the no-panic invariants, for every source); a last line without line feed that ends with a space (Advance(-1) in fencedCodeBlockParser.Continue); inline phase and renderer. The driver oracle `blocks quotesimhyp` (the former assumptions of the whole-run theorem, evaluated on every class source) has nothing left to assume for the class: all of it is proved (GM.Props.C08.original_run_well_shaped, quote_prefix_run); it is KEPT as a regression oracle of the model (a failure would mean the executable model and the proved statements have diverged)."
PROPS["C08"]['technique'] = 'Lean 4: forward simulation between two runs of the executable block-phase model (relational Hoare calculus S2, per-parser and driver lemmas, induction over lines) + line-level theorems; correspondence ties; Lean-defined oracles; metamorphic search'
PROPS["C08"]['explanation'] = "Proved (GM.Props.C08, 34 theorems): line level as before (quote_consumes_marker/_nospace, quote_declines, offset_invariant, offset_invariant_quote, offset_invariant_list, indent_pos_tabfree); block level: quote_first_line, quote_marker_every_line, quote_step_open / quote_step_continue / quote_step_close (one line step of every block parser from related states), quote_driver_close_blocks / quote_driver_open_blocks / quote_driver_line (the driver preserves the relation), nonblank_line_opens_block, quote_prefix_run / quote_prefix_run_nofinalnl (both runs end normally, stores related, original store well shaped - no assumption), quote_prefix_simulation_class / _partial (sources ending with a line feed) quote_prefix_simulation_nofinalnl (last byte not a space), quote_prefix_simulation_noitems / _nolist (no position starts a list item: class C08ClassL, predicate NoItem) - the tree statement, UNCONDITIONAL -, quote_prefix_simulation_lists / _lists_all / quote_prefix_run_lists (class C08ClassF: no blank line; ALL ten parsers, lists included), quote_flags_equal, quote_prefix_simulation_lists_blank / _lists_blank_all / quote_prefix_run_lists_blank, quote_prefix_simulation_union, quote_setext_close_keeps_flags (class C08ClassG: blank lines and lists, no setext underline pattern; store relation FE, GM/Proof/QuoteSimFE*.lean, QuoteSimStatsG.lean, QuoteSimBar.lean), original_run_well_shaped, quote_prefix_simulation_checked. Unary invariants of the original run carried by the simulation's driver walk (GM/Proof/QuoteSimInv*.lean): Document without lines, node 0 nobody's child (UStoreL), no List/ListItem when the list parsers are not in the simulated set (NK), run A's StableL / MidA from the no-panic development (GM/Proof/QuoteSimMid.lean, QuoteSimInvLI.lean), newBlocksOpened leaves a block open (QuoteSimInvNE.lean), blank-line statistics (QuoteSimStats.lean), parser/kind consistency of the open blocks (PKL), kinds never change (KGn), the node Open returns is the fresh node of kind bp.kind (OPK); raw blocks / info / closure segments non-empty in the relation (NodeRel.rawNE/infoNE/closNE); non-raw blocks from package wf0. Full statement kept unproved as def QuotePrefixSimulationAll. Searched: blocks quotesim (tree statement on every tab/CR-free non-blank source of component blocks, 0 failures), blocks quotesimhyp (regression oracle), component quote on HTML."
PROPS["C08"]['assumptions'] = ["documents contain no tab and no carriage return (the property's proviso)", 'whole-run theorems only: D does not end with a space (it may or may not end with a line feed) and EITHER no position of D starts a list item (no bullet - * + and no number with . or ) followed by white space or the end; decidable predicate GM.Blocks.NoItem) OR no line of D is blank (decidable predicate GM.Blocks.FL; lists allowed) OR no position of D starts a setext heading underline (decidable predicate GM.Blocks.NoBar; lists and blank lines allowed)', 'inline phase and renderer do not distinguish the two trees beyond the wrapping (searched by component quote)']

# ---- C09 texts after packages indep / convert (notes/status_indep.md, notes/status_convert.md) ----
PROPS["C09"]["claim"] += (" First half on the MODEL: stated on the block-phase model as GM.Props.C09.IndependentBlocks (not proved in general) and "
    "EVALUATED on model and real trees (component blockindep, Lean-defined statement GM.Blocks.indepCheck). Kernel-checked for every model "
    "state: the two mechanisms the property names - closeBlocks removes exactly the requested slots and the whole stack on "
    "closeBlocks(len-1,0) (closeBlocks_removes_exactly, stack_unwound, stack_empty_at_end_of_document); a non-indented ATX heading line "
    "followed by a blank line leaves no block open whatever was open (heading_line_unwinds_stack, blank_line_closes_heading, "
    "heading_and_blank_line_reset, _top); fence / setext context keys are nil after Close, no Close writes the list flags "
    "(fence_key_reset_on_close, setext_key_reset_on_close, close_keeps_list_flags).")
PROPS["C09"]["note"] += (" Not proved: prefix determinism, shift invariance of the line loop, and that reachable states meet the reset theorems' "
    "hypotheses (valid open-block ids, list items with positive content offset) - covered by the evaluated statement.")
PROPS["C09"]["assumptions"] = list(PROPS["C09"].get("assumptions", [])) + [
    "reachable states satisfy the hypotheses of the reset theorems; prefix determinism and shift invariance of the line loop (evaluated on every blockindep triple, not proved)"]

# ---- session 4, package e2e (notes/status_e2e.md): end-to-end statements over the composed model convertCore ----
PROPS["C03"]["claim"] += (" END TO END for the default CommonMark configuration: Spec.Inv is no longer only monitored there - parser_output_satisfies_inv "
    "proves it of the tree GM.Convert.convertCore renders for EVERY byte string (heading levels 1..6 by a store invariant carried through the whole "
    "block phase with the link-reference transformer: block_store_heading_levels; CodeSpan children Text, no attributes, no String / table node by the "
    "inline-phase shape theorems), hence convert_safe_wellformed: whenever convertCore answers HTML with Unsafe off, that HTML passes safeHtmlOK (and "
    "xmlOK with XHTML). Extensions and parser.WithAttribute are outside this composition.")
PROPS["C04"]["claim"] += (" END TO END (convert_safe_urls_harmless, url_pieces_at_attribute_sites): in the safe-mode HTML the composed model convertCore "
    "answers for ANY source, every destination is written at `<a href=\"` / `<img src=\"` (+ mailto:), is quote-free up to the closing quote and is not "
    "hrefDangerous - the per-value theorems composed over whole documents at the level of the option-independent piece list (not yet through the "
    "tokenizer's urlsOK).")
PROPS["C10"]["claim"] += (" END TO END (convert_options_orthogonal, convert_tree_independent_of_options, convert_unsafe_only_changes_raw): for every source "
    "ONE option-free piece list gives the HTML of the composed model convertCore under all eight option sets (or the same error under all of them): the "
    "parse phases never see the renderer options, and the pinned-alignment proviso is vacuous without the table extension.")
PROPS["C01"]["claim"] += (" Renderer side of the composition: the outcome `render k` of convertCore is unreachable for every source "
    "(convert_no_render_panic: no renderer panic on parser output); a Segment.Value panic in a node renderer is reduced "
    "(convert_no_value_panic_partial) to two open facts: segment ranges of raw blocks' info / closure lines in the block store and non-negative padding "
    "of inline segments.")

# ---- session 4, package headingids (notes/status_headingids.md): C15 end to end on the composed model convertH ----
PROPS["C15"]["claim"] += (" END TO END: GM.ConvertH.convertH true (convertCore + parser.WithAutoHeadingID: the AutoHeadingID blocks of the ATX and Setext "
    "Close functions, generateAutoHeadingID, the per-parse id table, SetAttribute, renderHeading/RenderAttributes; tied by component `converth` on whole "
    "documents, HTML byte for byte) - for EVERY byte string, unconditionally: the attributes on headings are exactly the generated ids, non-empty, over "
    "[a-z0-9-], distinct per node, exactly Ids.run of the Close-order texts (e2e_heading_ids_table_fed_in_close_order), and the option leaves the block "
    "phase unchanged (e2e_converth_block_phase_projects, e2e_converth_off_is_core, e2e_converth_never_loops); and - since round 2 "
    "UNCONDITIONALLY, the close discipline of the block driver being proved for every byte string (tree well-formedness of the store, every Heading handed "
    "to Close exactly once, empty open-block stack at the end: e2e_headings_always_closed, e2e_headings_always_once, e2e_block_phase_close_discipline) - "
    "every heading has exactly one id (e2e_every_heading_has_id), all ids pairwise distinct (e2e_heading_ids_pairwise_distinct), non-empty, and the literal "
    "start tag <hN id=\"v\"> is a contiguous part of the HTML (e2e_heading_ids_rendered); e2e_c15_end_to_end collects it: convertH true = ok html gives "
    "html = render t with duplicate-free attribute lists id = v, v non-empty over [a-z0-9-], on every heading the renderer visits.")
PROPS["C15"]["explanation"] = PROPS["C15"]["explanation"].replace("Presence", "Presence (a theorem of the composed model for every byte string, and independently checked by the oracle of `converth`)", 1)

# ---- session 4, packages tnopanic / wf0 / consts (notes/status_tnopanic.md, status_wf0.md, status_consts.md) ----
PROPS["C01"]["claim"] += (" Block phase WITH the link-reference transformer (GM.Props.ConvertNP, re-exported): the transformer's scan is TOTAL (no Go panic, "
    "no monitor) on the lines it really gets - well-formed lines WITH paddings, none blank - and the ranges it hands to its second loop are adjacent "
    "from line 0 on, non-empty and inside the paragraph (link_reference_scan_total_and_adjacent; link_reference_ranges_adjacent turns the formerly "
    "stated GM.Props.Convert.ScanRangesAdjacent into a theorem; link_reference_second_loop_total, link_reference_transform_total); the whole driver with "
    "transformers returns a store or the run-time guard's own outcome - no Go panic, no contract monitor - for every source WITHOUT a setext underline "
    "(block_phase_no_go_panic_partial, block_phase_with_transformers_total_partial, monitors_never_fire_partial; NoUnderline is decidable and holds of 605 "
    "of the 652 spec.json examples); the RequireParagraph path behind a setext underline is open. total_of_guard_irrelevant is the composition step with "
    "'the guard never fires'. Hand-over to the inline phase (GM.Props.Wf0, re-exported): for the driver without transformers every inline-bearing block "
    "has well-formed lines (inline_handover_wellformed); what remains for WF0 is padding 0 of those segments (inline_handover_remaining). The constants "
    "the block / inline models embody (regular expressions, tag list, limits, marker bytes) are tied to the source on every run (consts_* obligations "
    "over the regenerated GM.Gen.Consts).")
PROPS["C01"]["assumptions"] = list(PROPS["C01"].get("assumptions", [])) + [
    "no line handed to the paragraph transformer is blank and the lines are well-formed (hypothesis of the transformer totality theorems; evaluated on every "
    "document of component convert by a probe transformer: clauses assumption:transform-line-blank, transform-lines-not-wellformed - never fired)"]
PROPS["C05"]["claim"] += (" ORDER clause of (c) (GM.Props.Wf0, re-exported): for EVERY byte string every non-raw block of the final store of the block phase "
    "(all kinds but CodeBlock, FencedCodeBlock, HTMLBlock) has its lines in increasing order, in range, non-empty (block_lines_ordered, "
    "block_lines_in_range_and_ordered, block_lines_wellformed); for the three raw kinds the order clause is open (preserveLeadingTab moves a segment's "
    "start one byte back): block_lines_order_remaining states exactly what is left.")
PROPS["C02"]["claim"] += (" The constants the implementation-side models embody - the eighteen regular expressions goldmark compiles (source text), the HTML "
    "block tag list, numeric limits, marker bytes - are re-extracted from /repo on every run and compared by the kernel with what the models were written "
    "against (consts_* obligations, package consts); a changed constant breaks the obligation and the check names it.")
PROPS["C03"]["claim"] += (" Every literal the node renderers write is tied to the renderer model's on every run (consts_rendered_literals_tied, consts_named_constants_tied).")
PROPS["C17"]["claim"] += (" The four delimiter-row regular expressions are tied to the hand-written matchers' source text on every run (consts_table_regexps_tied).")
PROPS["C11"]["claim"] += (" The extensions' own regular expressions / openers are tied on every run (consts_extension_regexps_tied) and goldmark compiles exactly the 18 known expressions (consts_regexp_inventory_complete).")

# ---- session 4, package gfmx (notes/status_gfmx.md): Strikethrough, TaskList and Table inside the composed model convertX ----
PROPS["C11"]["claim"] += (" ACCEPT PATHS inside the composed model: GM.ConvertX.convertX (convertCore + any subset of Strikethrough, TaskList, Table: the "
    "strikethrough inline parser with its own delimiter processor inside ProcessDelimiters, the task-list inline parser at priority 0, the table paragraph "
    "transformer at priority 200 with cells through the inline phase and the escaped-pipe AST transformer), tied by component `convertx` to real goldmark "
    "instances for all 8 member subsets x 8 renderer option sets, HTML byte for byte. WHOLE-DOCUMENT conservativity on that model, for every byte string: "
    "convertx_off_is_core (all members off = convertCore), convertx_conservative_tasklist (no '[' => same output with and without TaskList; member sets "
    "without Strikethrough), convertx_conservative_table (no '-' => same output with and without Table, for every member set, or the table transformer's "
    "domain monitor - never seen in the tie); for Strikethrough only the byte-loop statement (convertx_conservative_strikethrough_partial): the "
    "whole-document statement ConservativeStrikethrough is stated, not proved.")
PROPS["C17"]["claim"] += (" On the composed model convertX (package gfmx, component `convertx`): the table the transformer builds nodes for inside the whole "
    "pipeline is rectangular (convertx_tables_rectangular_partial); rectangularity of every table of the composed OUTPUT tree (TablesRectangular) is "
    "stated and evaluated by the driver on every table document of the tie, not proved.")
PROPS["C01"]["claim"] += (" With extensions in the composed model (convertX): the block phase of every member set terminates (block_phase_x_terminates, "
    "table_transformer_admissible) and convertX never exhausts fuel for the member sets {} and {Table} (convertx_never_loops_partial); for Strikethrough / "
    "TaskList it is reduced to InlineNoLoop (convertx_never_loops_of), not proved.")

# ---- session 4, package shiftsim (notes/status_shiftsim.md): C09 shift invariance on the block-phase model ----
PROPS["C09"]["claim"] += (" Step (iii) of the first half, SHIFT INVARIANCE, is kernel-checked for all block parsers but the two list parsers "
    "(GM.Props.C09Shift, a forward simulation between `run b` and the run on `p ++ b`): for every prefix p that is empty or ends with a blank line and "
    "EVERY b without - * + and digits (a last line without line feed included), from the state a heading line + blank line leaves (no open block, keys "
    "reset) the rest of the run on p ++ b builds the store of `run b` with every line / info / closure segment moved by |p|, node ids renumbered, the line "
    "numbers of the blank-line statistics shifted and the Document's old children in front (shift_invariance_list_free, shift_invariance_covered_all, "
    "shift_invariance_store_shape); one-step lemmas for Open / Continue / Close of the eight non-list parsers (shift_step_open, "
    "shift_step_continue_any_source, shift_step_close) and driver lemmas (shift_driver_open_blocks incl. retry loop and monitor, "
    "shift_driver_blocks_any_source) for any covered parser set; the fuels of the two runs are never compared.")
PROPS["C09"]["note"] = PROPS["C09"]["note"].replace("shift invariance of the line loop",
    "shift invariance WITH list items (listItemParser.Continue needs the mid-line fact that listParser.Continue excluded IndentPosition = -1; KidsOK at "
    "Close time; the flag emptyListItemWithBlankLines outliving its list); prefix determinism incl. 'closing at EOF = closing by blank line + heading'; "
    "composition into IndependentBlocks")

# ---- session 4, package cmfrag (notes/status_cmfrag.md): the first CONFORMANCE THEOREM, for a fragment of CommonMark ----
PROPS["C02"]["claim"] = PROPS["C02"]["claim"].replace("Partial, by design.", "Partial.", 1) + (" PROVED for an explicit, infinite, decidable FRAGMENT of CommonMark "
    "documents (GM.Props.C02Frag, package cmfrag): paragraphs of one or more lines with soft breaks and EVERY licensed spelling of every printable ASCII "
    "character (literal, backslash escape, decimal / hexadecimal / named character reference), ATX headings of all six levels, thematic breaks of any "
    "length with any of the three characters, fenced code blocks (backtick or tilde fences of any length, info string, arbitrary printable content lines), "
    "any number of blank lines between and behind the blocks, and blocks that follow each other WITHOUT a blank line wherever CommonMark allows it: for "
    "ALL such documents d the composed implementation-side model answers exactly the prescribed HTML - convertCore (spell d) = ok (expected d) "
    "(fragment6_conforms; fragment_conforms / fragment4_conforms / fragment5_conforms are the stages) - and the fragment's Markdown and HTML are PROVED "
    "equal to the spec-side model's own spell / expected on the embedded tree (fragment6_conforms_spec), so the theorem is a statement about "
    "GM.Spec.CommonMark, not about a private copy. The proof is a symbolic execution of the block driver line by line, of the inline byte loop on lines "
    "without trigger bytes, and of the renderer. Component cmfrag converts generated and enumerated fragment members with the REAL goldmark on every run "
    "and compares with the prescribed HTML (the theorem is about the model; the model is tied by component convert). Outside the fragment (containers, "
    "setext headings, indented code, the other inline constructs, a missing final newline) conformance is decided by correspondence as before.")
PROPS["C02"]["explanation"] += (" Component cmfrag: 35k (quick) / 184k (thorough) members of the proved fragment (driver op `cmfrag`), real goldmark vs the "
    "fragment's expected HTML byte for byte, plus the Lean-side checks `model = expected` and `fragment = spec model` on every case.")
PROPS["C02"]["technique"] = ("Lean 4: conformance THEOREM for an explicit infinite fragment (symbolic execution of the composed implementation-side model against the "
    "spec-side model's spell / expected); outside the fragment: Lean spec-side generators and references (document trees x licensed spellings; "
    "delimiter-run reference for emphasis and code spans) + differential run against the real library; theorems for the escape-spelling law and about "
    "the references; regenerated constants tie; spec examples x licensed rewrites")

# ---- session 4, package e2e round 2 (notes/status_e2e.md): C04 at token level, renderer-side totality, wfAst end to end ----
PROPS["C04"]["claim"] += (" At TOKEN level, unconditional (convert_safe_urls_harmless_tokens, render_safe_urls_harmless_tokens): for every source the safe-mode "
    "HTML of convertCore tokenizes under the strict tokenizer and Spec.urlsOK - the very predicate the run-time oracle `tok urls` evaluates on real output - "
    "holds of its tokens; the same for every tree with Spec.Inv under every extension set, footnote hrefs included (a grammar WFHtmlU = WFHtml + harmless "
    "href/src at each start tag, and a tokenizer lemma: every non-text token read back is one of the serialised tokens).")
PROPS["C01"]["claim"] += (" Renderer side, round 2: inline segments carry no padding (inline_children_resolve is unconditional), fenced info and HTML-block "
    "closure segments lie inside the source for every source (block_store_info_closure_in_range); hence a Segment.Value panic in a node renderer is "
    "unreachable and convertCore can only fail in the block or inline phase, GIVEN only that the lines of raw blocks are in range "
    "(convert_no_value_panic_of_raw_lines, convert_renderer_side_total_of_lines) - a consequence of NodesOK, which the no-panic proof of the driver with "
    "transformers establishes (today for sources without setext underline).")
PROPS["C05"]["claim"] += (" END TO END (GM.Props.C05E2E): the formal statement of C05 that the harness evaluates on every parsed tree, GM.Spec.AstWF.wfAst, is "
    "proved for the tree the composed model's parser builds (parseAst = parseDoc with segments kept, dumped in the harness dumper's format) for EVERY byte "
    "string, given four named facts about the block store (parser_output_wellformed_partial; StoreHypsCore: lines in range, lines ordered, Document and "
    "List nodes have no lines, a child is a ListItem exactly when its parent is a List - the first two are theorems for the transformer-free driver, the "
    "last two need 'an opened block's node has its parser's kind'); no hypothesis about the inline phase remains: clause (a) by construction "
    "(clause_a_by_construction), root_is_document, heading levels, inline_nodes_legal, block_node_clauses, inline segments inside their block's lines and "
    "in order (inline_segments_inside_block_lines), unpadded, info / closure in range.")

# ---- session 4, package escfix (notes/status_escfix.md): the models follow two repaired C02 defects ----
PROPS["C02"]["claim"] += (" Two deviations found by the checks were repaired in /repo and the models follow the repaired code (package escfix): the "
    "flag `escaped` of parseBlock is cleared at the top of the line loop, so a backslash never escapes across a line end (kernel-checked on the loop models "
    "for ANY parsers and block: escape_state_does_not_cross_line_end, lineLoop_line_end_resets), and FindClosure's closing segment stops at the source offset "
    "of the closer whatever the virtual padding of the peeked line (findClosure_stop_excludes_padding, block reader over lines with any paddings); the "
    "failing inputs are regression cases of the components cmemph (clause escape-after-backslash-spaces-break-differs) and convert (clause "
    "closer-on-padded-line-differs: hand-derived HTML for the label variants, the spaces-only twin for the title variants).")
PROPS["C02"]["note"] = PROPS["C02"]["note"].replace("Known deviation reported under its own clause: tabs in list-item continuation indentation (KNOWN_FINDINGS).",
    "Known deviation reported under its own clause: tabs in list-item continuation indentation (KNOWN_FINDINGS). Not expressible by the spec-side generator "
    "(labels and titles of GM.Spec.CommonMark.RefDef are single-line): a label / title of a link reference definition that continues on a tab-padded "
    "container line - covered by the regression list of component convert and by the model tie only.")

# ---- session 4, packages fnx / shiftsim round 2 / wf0 round 2 ----
PROPS["C16"]["claim"] += (" END TO END: GM.ConvertF.convertF true (convertCore + extension.Footnote: block parser Open / Continue / Close with the FootnoteList "
    "in the parse context, the inline parser in front of the link parser, the AST transformer as a total function on the tree, FootnoteHTMLRenderer; tied "
    "by component `convertf` on whole documents - HTML byte for byte AND the abstraction (labels, events) computed by the model against the one the probes "
    "observe). The abstraction GM.Props.C16 speaks about is computed from the concrete parse (e2e_convertf_events_are_abstraction); for EVERY tree in front "
    "of the transformer that satisfies the decidable AST shape (one list, its children the definitions in order, no Footnote elsewhere) the tree the "
    "renderer receives shows exactly GM.Footnote.render of that abstraction (e2e_convertf_tree_shows_abstraction), hence all six clauses hold of the ids / "
    "hrefs / numbers FootnoteHTMLRenderer writes (e2e_convertf_footnotes_consistent; the shape is evaluated on every tie case, never false; ShapeAlwaysOK "
    "stated, not proved).")
PROPS["C16"]["assumptions"] = [a if not a.startswith("the document abstraction") else
    "the document abstraction (definition labels, reference events) is computed by the composed model convertF and compared with the probes' observation on every tie case; the AST shape hypothesis of e2e_convertf_footnotes_consistent is evaluated on every tie case, not proved"
    for a in PROPS["C16"].get("assumptions", [])]
PROPS["C11"]["claim"] += (" Footnote at WHOLE-DOCUMENT level, full statement: every source without the two bytes `[^` converts to the same HTML / outcome with "
    "and without extension.Footnote on the composed model (convertf_conservative) - the block parser is consulted at every line starting with `[` and "
    "declines without a trace (convertf_conservative_blockphase: a reader-cache invariant through all block parsers), the inline parser is consulted at "
    "every `!` / `[`, may advance the reader, and SetPosition restores it exactly (convertf_inline_phase_without_list).")
PROPS["C01"]["claim"] += (" convertF (composed model with Footnote) never exhausts fuel with the extension off and on `[^`-free sources "
    "(convertf_never_loops_partial / _conservative); in general reduced to BlockNoLoopF and InlineNoLoopF (convertf_never_loops_of). Hand-over to the "
    "inline phase, round 2 of wf0: inline_lines_wf0 - for EVERY byte string every inline-bearing block of the transformer-free block phase has WF0 lines "
    "(padding 0: nonraw_lines_padding_zero; the open-block stack is empty when the run returns: open_stack_empty_at_end).")
PROPS["C05"]["claim"] += (" Round 2 of wf0: the order clause is now a theorem for ALL kinds - lines_in_range_and_ordered : for every source, every line segment "
    "of every node of the final store of the (transformer-free) block phase is in range and a block's lines increase (raw_block_lines_ordered closes the "
    "three raw kinds: a sharpened padding invariant 'padding set => strictly behind the line start' through block quote / list item / code / fenced "
    "readers); container nodes have no lines (container_nodes_no_lines); the close discipline of the driver (every open block attached, of its parser's "
    "kind, pushed once and popped once, empty stack at the end) is proved in a reusable form (GM.Proof.BlocksClosed*).")
PROPS["C09"]["claim"] += (" Round 2 of shiftsim: shift invariance now covers ALL TEN block parsers, lists included, for every source b (shift_invariance), and "
    "the first half of C09 is a THEOREM whenever the first part is empty: independent_blocks_empty_a_all - for every heading text h and EVERY document b the "
    "blocks of '# h' + blank line + b are the heading and the blocks of b alone, moved; for a non-empty first part the composition is proved from one "
    "explicit hypothesis about the prefix (independent_blocks_from_prefix: PrefixReached - prefix determinism and 'closing at end of input = closing by "
    "blank line + heading', not proved); store_acyclic: in every store the block phase builds child ids exceed the parent's id.")

# ---- session 4, tnopanic round 2 + e2e round 3 + shiftsim round 3 + fnx round 2: END-TO-END theorems for the default pipeline ----
PROPS["C01"]["claim"] += (" *** END TO END, every byte string (GM.Props.ConvertE2ENP.convert_total, re-exported): for EVERY source, every Unicode class assignment and "
    "every renderer option set the composed model of the default CommonMark pipeline answers HTML - convertCore uc o src = ok html: no Go panic, no error, no "
    "fuel exhaustion, no contract monitor, no run-time check (convert_never_errs). Ingredients, each a theorem for every byte string: the block driver WITH "
    "the link-reference transformer returns a store (block_phase_total; the RequireParagraph path behind a setext underline included: block_phase_no_go_panic, "
    "monitors_never_fire), the run-time guard is an observer (guard_never_fires, block_phase_guard_is_observer), the lines handed over are well formed with "
    "padding 0 on every node of the TREE (block_phase_lines_wellformed, block_phase_lines_padding_zero; store-wide padding 0 is FALSE with transformers - "
    "kernel-evaluated witness abandoned_heading_keeps_padding: a heading abandoned behind a transformed paragraph stays in the store, parentless, never "
    "visited), the inline phase is total, the renderer side cannot fail on parser output. The same without transformers "
    "(convert_total_without_transformers) and by agreement of the two drivers on sources without '[' (block_phase_bracket_free_eq; the brief idea 'the "
    "transformer is silent without a bracket' is false on a paragraph without lines: link_reference_transformer_not_silent_on_lineless_paragraph, same on "
    "real goldmark, harmless). What remains SEARCHED for C01: extensions and parser options other than the modelled ones, the real code behind the tie.")
PROPS["C01"]["note"] = PROPS["C01"]["note"].replace("Paragraph transformers, extension block/inline parsers and the hand-over between the phases are not yet inside the proved model.",
    "For the default CommonMark configuration the whole pipeline is inside the proved model (convert_total); extension block / inline parsers are modelled and "
    "tied (convertX, convertH, convertF) with partial totality theorems; parser.WithAttribute is modelled at parser level only.")
PROPS["C05"]["claim"] += (" *** END TO END, every byte string (GM.Props.ConvertE2ENP.parser_output_wellformed_total, re-exported): for EVERY source the composed "
    "model's parser answers a tree, and the formal statement of C05 that the harness evaluates on real trees, wfAst, holds of it - all three clauses, no "
    "hypothesis left: parse_ast_total, parser_output_wellformed (the four store facts discharged for the driver WITH transformers by "
    "block_phase_lines_ordered, block_phase_raw_lines_ordered, block_phase_container_nodes_have_no_lines, block_phase_tree_consistent, "
    "block_phase_items_under_lists). Extensions and parser options stay searched (wfast).")
PROPS["C05"]["note"] = PROPS["C05"]["note"].replace("clauses (b) and (c) for the block and inline parsers are covered by search (wfast), not by proof",
    "clauses (b) and (c) are proved end to end for the default CommonMark configuration; extensions and options are covered by search (wfast)") if "note" in PROPS["C05"] else ""
PROPS["C09"]["claim"] += (" Round 3 of shiftsim: the first half of C09 is a THEOREM on an explicit infinite class - independent_blocks: for every first part a that is "
    "empty or ends with a line feed and contains none of the bytes - * + 0-9 = ` ~ (block quotes incl. nested, paragraphs, ATX headings, ___, indented code, "
    "HTML blocks allowed; lists, setext headings, fenced code excluded), every heading text h and EVERY document b: IndependentBlocks a h b "
    "(prefix_reached_plain: a right-extension simulation of run a against run (a ++ t); 'closing at end of input = closing by blank line'; an open raw block "
    "at the end of a makes the final tree end in a raw block).")
PROPS["C16"]["claim"] += (" Round 2 of fnx: e2e_convertf_footnotes_consistent_unconditional - for every byte string, whenever the composed model converts the "
    "document, the ids / hrefs / numbers FootnoteHTMLRenderer writes satisfy all six clauses (the AST shape is a theorem by construction of the tree walk "
    "with documented domain monitors: e2e_shape_always_ok). Of 'no monitor fires': the store is tree-shaped for every source (e2e_convertf_store_wellformed), "
    "the walk meets the list at most once and the root is the Document (e2e_convertf_block_monitor_never_fires), every FootnoteLink resolves "
    "(e2e_convertf_inline_links_resolve) - theorems; FootnotesAllFiled (every Footnote ends as a child of the list) is stated, evaluated on every tie case, "
    "never false (e2e_monitors_never_fire_of is the bridge).")

# ---- session 4, gfmx round 2 (Strikethrough conservativity, totality for all member sets, Linkify / GFM) ----
PROPS["C11"]["claim"] += (" Round 2 of gfmx: WHOLE-DOCUMENT conservativity is now also a theorem for Strikethrough (convertx_conservative_strikethrough: no '~' => "
    "same output, every member set) and TaskList for every member set (convertx_conservative_tasklist_all); the Table theorem lost its monitor disjunct; "
    "Linkify and extension.GFM are inside the composed model (GM.ConvertL.convertL / convertGFM: the two URL expressions hand-matched, protocol / "
    "trailing-punctuation / parenthesis post-processing, the space-triggered parser), tied by component `convertx` (member sets 8-15, op htmlf; a real "
    "extension.GFM instance against the real four-member instance): convertx_gfm_is_members (GFM = its four members, by construction on the model; the tie "
    "adds the real instances), convertl_conservative_strikethrough / _tasklist / _table, gfm_without_triggers_is_linkify; for Linkify itself: on a source "
    "without ':', '@', 'www.' convertL with Linkify is exactly the run in which the parser is consulted and returns nil (convertl_linkify_is_flush, "
    "linkify_consultation_without_effect) - what remains of ConservativeLinkify is that this consultation flush (parser.go:1203-1211 cuts the pending text "
    "node) does not change the HTML (conservative_linkify_iff_flush_insensitive; compared on 840k documents of the tie on real goldmark, not proved).")
PROPS["C01"]["claim"] += (" With extensions in the composed models: convertX never exhausts fuel for ALL 8 member sets of {Strikethrough, TaskList, Table} "
    "(convertx_never_loops, inline_loop_x_total) and convertL / convertGFM for all 16 with Linkify, none of Linkify's index expressions panicking "
    "(convertl_never_loops, convertgfm_never_loops, inline_loop_l_total).")
PROPS["C17"]["claim"] += (" Round 2 of gfmx: rectangularity of the composed OUTPUT tree follows from rectangularity of the table records in the block store "
    "(tables_rectangular_of_store, doc_tree_keeps_rectangular); that the block driver with transformers never rewrites the records buildTable wrote "
    "(StoreTablesRect) is stated, evaluated by the driver on every table document of the tie (store and output tree), not proved.")

# ---- session 4, package linkfix (notes/status_linkfix.md): the models follow four repaired defects of the inline link scanner ----
PROPS["C02"]["claim"] += (" Four deviations of the link scanner confirmed by the spec-side link reference were repaired in /repo and the models follow "
    "(package linkfix): an unescaped `<` inside a `<...>` destination and a bracket-free destination with a parenthesis left open are rejected (also "
    "in link reference definitions, which share parseLinkDestination), a title needs white space in front, only an EMPTY second bracket pair makes a "
    "collapsed reference. Kernel-checked: the model's destination scanner computes exactly what the specification-side scanner of GM.Spec.CMLink "
    "computes, for every line - the `<...>` form on lines without an inner line ending (model_destination_agrees_with_reference_pointy), the bracket-free "
    "form on lines whose only white-space / control characters are spaces and line feeds (model_destination_agrees_with_reference_bare; tabs, CR and "
    "other control characters are the recorded finding link-destination-control-char-differs) - hence accepts exactly the grammar "
    "(model_pointy_destination_in_grammar, model_bare_destination_balanced with C02Link's completeness theorems). The failing inputs are regression "
    "cases of the components cmlink (cmlinkFixed) and convert (cvPrescribed, clauses link-*-differs).")

# ---- session 4, e2e round 4: the renderer properties end to end, unconditional ----
PROPS["C03"]["claim"] += (" UNCONDITIONAL since the default pipeline is proved total (convert_safe_wellformed_total): for EVERY byte string, every Unicode class "
    "assignment and every option set with Unsafe off, the composed model answers HTML and that HTML passes safeHtmlOK (and xmlOK with XHTML); "
    "convert_safe_grammar_total gives it as a word of the grammar WFHtml.")
PROPS["C04"]["claim"] += (" UNCONDITIONAL (convert_safe_urls_harmless_total): for every byte string the safe-mode HTML exists, tokenizes, and Spec.urlsOK holds of its tokens.")
PROPS["C10"]["claim"] += (" UNCONDITIONAL (convert_options_orthogonal_total, convert_one_tree_for_all_options, convert_unsafe_only_changes_raw_total): for every "
    "byte string all eight option sets answer HTML, from ONE option-free piece list, with the four licensed factorisations; the error alternative is gone.")
PROPS["C01"]["claim"] += (" no_renderer_side_panic (a stated-only definition since round 1 of package e2e) is now a theorem. With parser.WithAutoHeadingID "
    "(convertH): everything behind the block phase is total (converth_total_of_block_phase) and for every source convertH true answers HTML or its block "
    "phase ended in the one panic not yet excluded, lastLine.Value in generateAutoHeadingID (converth_total_or_value_panic; it needs the heading's last "
    "line in range at the moment Close runs - an intermediate-state fact).")
PROPS["C15"]["claim"] += (" With totality (e2e round 4): c15_end_to_end_or_value_panic - for every byte string either all C15 conclusions hold of an HTML that "
    "EXISTS, or the block phase hit the one panic site not yet excluded (lastLine.Value in generateAutoHeadingID, atx_heading.go:203; searched: never "
    "observed).")
PROPS["C09"]["claim"] += (" Round 4 of shiftsim: the class is now POSITIONAL (independent_blocks_positional, independent_blocks_wide; executable test "
    "positionalCheck proved sound): a ends with a line feed and no line of a starts, after its quote markers and indentation, with a list, setext or fence "
    "trigger - digits, dashes, stars, equal signs and backticks inside lines are allowed (ordinary prose).")

# ---- session 4, gfmx round 3: C01 end to end with extensions ----
PROPS["C01"]["claim"] += (" *** END TO END WITH EXTENSIONS (GM.Props.ConvertXE2E): for EVERY byte string, class assignment and option set the composed models with "
    "any subset of Strikethrough, TaskList and Linkify answer HTML - convertx_total, convertl_total_no_table, convertl_total_linkify (convertx_never_errs, "
    "convertl_never_errs_no_table): block phase = the default pipeline's (block_phase_total), the inline phase with the added parsers is total with "
    "segments in range and unpadded (ext_inline_phase_total_segments_resolve, for all 16 member sets), no node renderer panics on the resulting shape "
    "(render_no_panic_of_shape). With Table / GFM: total on sources without '-' (convertgfm_total_dash_free, convertl_total_dash_free); in general "
    "reduced to five facts about the store of the block phase with the table transformer (convertl_total_of_store_facts; BlockPhaseXGood stated, not "
    "proved) - the table transformer PROVABLY falls outside the contract of the generic no-panic theorem for transformer lists (it adds two nodes and "
    "keeps a prefix of the lines: table_transformer_outside_contract), so that theorem must first be widened.")

# ---- session 4, cmfrag round 2, headingids round 3, fnx round 3, quotesim2 round 4 ----
PROPS["C02"]["claim"] += (" Round 2 of cmfrag - the proved fragment grew to the UNION FRAGMENT (fragment13_conforms; fragment13_conforms_spec on the spec model "
    "itself): paragraphs, ATX headings, thematic breaks, fenced AND indented code blocks, abutting where CommonMark allows, with code spans, `*` emphasis / "
    "strong and backslash hard line breaks in paragraph lines and headings, every licensed character spelling, any blank lines, WITH OR WITHOUT the final "
    "line feed (fragment7_conforms, fragment13_conforms_no_final_newline); the same inside block quotes nested to ANY depth (fragment10_conforms, "
    "fragment14_conforms, fragment13_conforms_quoted - composed with the block-quote simulation of C08 and with block_phase_bracket_free_holds); and, as "
    "paragraph-level stages of their own, inline links `[t](d)`, images, URI autolinks, raw inline tags and `_` emphasis (fragment16_conforms ... "
    "fragment20_conforms). 82 theorems in GM.Props.C02Frag; component cmfrag runs generated members of every stage (233k quick / 1.0M thorough) through "
    "the real goldmark. Stage 18 found defect F34 (an autolink scheme of 33 characters).")
PROPS["C15"]["claim"] += (" *** TOTAL (headingids round 3): for EVERY byte string convertH true answers HTML (e2e_converth_total) and all of C15's conclusions hold of "
    "it (e2e_c15_end_to_end_total: html = render t; the attribute list of every heading the renderer visits is exactly id = v, v non-empty over [a-z0-9-], "
    "all distinct; the literal start tag is part of html). The one panic site that stood in the way - lastLine.Value in generateAutoHeadingID - is "
    "excluded by re-running the driver totality proof on a monitored driver that performs that very call (e2e_monitored_block_phase_total; the proof text "
    "is regenerated from package tnopanic's by tools/port_blocks_v.py).")
PROPS["C01"]["claim"] += (" The AutoHeadingID configuration is total as well (converth_total, converth_block_phase_total).")
PROPS["C16"]["claim"] += (" Round 3 of fnx: no domain monitor of the footnote model can fire, for every byte string (e2e_monitors_never_fire, "
    "e2e_footnotes_all_filed: every Footnote ends as a child of the list; close discipline of the driver copy e2e_convertf_close_discipline), so C16 end to "
    "end holds for every document the composed model converts with no monitor left (e2e_convertf_no_footnote_monitor_outcome). Open on the model side: "
    "fuel (BlockNoLoopF, InlineNoLoopF), panic-freedom of the driver copy incl. the hard type assertion footnote.go:251 (ListKidsAreFootnotes stated).")

# ---- session 4, e2e round 5: C08 / C09 at HTML level on the composed model ----
PROPS["C08"]['claim'] += (" AT HTML LEVEL on the composed model (GM.Props.C08E2E, package e2e round 5): for every option set and every source D without '[' of the "
    "lists-and-blank-lines class that converts, convertCore (quotePrefix D) = '<blockquote>' + LF + convertCore D + '</blockquote>' + LF "
    "(convert_quote_prefix, _lists, _no_final_newline) - UNCONDITIONALLY when the leaves are raw blocks or their paragraphs / headings are plain "
    "'good lines' (convert_quote_prefix_raw_leaves, convert_quote_prefix_good_lines, convert_quote_prefix_checked with decidable hypotheses), and for "
    "arbitrary inline content given ONE named single-block hypothesis about the inline phase (InlineQuoteStep: the inline phase of a block commutes with "
    "moving its segments; stated on related segment lists because 'depends only on the line values' is false - precendingCharacter reads the byte in "
    "front of a line start; not proved in general). NoBracket is necessary: with '[' the statement is false of goldmark (recorded finding "
    "bracket-span-limit-counts-container-markers).")
PROPS["C09"]["claim"] += (" AT HTML LEVEL (GM.Props.C09E2E): for an empty first part, convertCore (LF + '# h' + LF + LF + b) = convertCore ('# h' + LF) ++ "
    "convertCore b for every LF-free h and every b without '[' (heading_then_blocks_html; unconditional for plain-text content: "
    "heading_then_blocks_html_good_lines, _checked; in general given the named inline hypothesis InlineMoveStep); a non-empty first part at HTML level is open.")

# ---- session 4, cmfrag round 3, e2e round 6 ----
PROPS["C02"]["claim"] += (" Round 3 of cmfrag - the FULL UNION FRAGMENT (fragment21_conforms, fragment21_conforms_no_final_newline; on the spec model itself: "
    "fragment21_conforms_spec): all five block kinds abutting where CommonMark allows, and every paragraph line and heading text a rich line mixing, in "
    "any order, text in every licensed spelling, code spans, `*` and `_` emphasis and strong, inline links, images, URI autolinks and raw tags, with "
    "backslash hard breaks between paragraph lines - one theorem that contains all earlier stages; and inside block quotes nested to any depth for "
    "sources without '[', tab, CR and without a line ending in '-' or '=' (fragment22_conforms, fragment22_conforms_union, fragment23_conforms, through "
    "quotesim2's wider class). 98 theorems; component cmfrag: 323k generated members of every stage per quick run through the real goldmark.")
PROPS["C08"]['claim'] += (" The HTML-level theorems also in TOTAL form (convert_quote_prefix_total, _lists_total, _no_final_newline_total, _raw_leaves_total, "
    "_good_lines_total, _checked_total): both conversions exist and are related, no 'converts' hypothesis left.")
PROPS["C09"]["claim"] += (" TOTAL forms: heading_then_blocks_html_total, _good_lines_total, _checked_total.")

# ---- session 4, tnopanic round 3: the block phase with the table transformer ----
PROPS["C01"]["claim"] += (" Block phase of EVERY GFM member set (tnopanic round 3, GM.Props.ConvertNPX): the generic no-panic theorem for transformer lists now "
    "has a WIDENED contract (block_phase_with_transformers_total_x: a transformer call may add any number of fresh nodes below fresh nodes or below the "
    "paragraph's parent and keep any sub-list of the lines, provided the tree and last-child frames hold; narrow_contract_is_wide, wide_contract_append), "
    "the table paragraph transformer is inside it (table_transformer_in_wide_contract, table_transformer_terminates, "
    "table_and_linkref_checks_never_fire), hence block_phase_x_total: for every member set of {Strikethrough, TaskList, Table, Linkify} and every byte "
    "string the block phase returns a store with all lines in range (block_phase_x_line_facts, block_phase_x_tree_consistent, "
    "block_phase_x_guard_is_observer). What separates this from convertgfm_total: two facts about table records in the final store (RecordsClassify; "
    "escaped-pipe positions ascending across tables) - convertl_total_of_records_and_esc is the composition.")
PROPS["C11"]["claim"] += (" Round 4 of gfmx: inside a line the consultation flush of a declining Linkify leaves the parent's children as one longer flush does "
    "(consultation_flush_merges); 35 fixed documents at the break / trim / entity / escape proviso were added to the comparison of a real goldmark with a "
    "nil parser in Linkify's place against the member set alone (clause consultation-flush-changes-output).")
