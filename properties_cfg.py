# Per-property configuration of ./check: which Lean module holds the property theorems, which harness
# components tie the model to /repo and search for failing inputs, and what the evidence should say.
PROPS = {
    "C19": dict(
        level="proof",
        module="GM.Props.C19",
        claim="Kernel-checked theorems, for every byte string, about a Lean model of util's escaping/normalisation functions whose tables are "
              "regenerated from /repo on each run; the model is tied to the Go code by exhaustive small-scope and random differential runs, and the "
              "laws are additionally evaluated on the real functions' outputs. A proof is the right level because the property quantifies over all byte strings.",
        note="Trusted: Lean kernel (+ propext, Classical.choice, Quot.sound), the gmgen translator, the correspondence harness, models of "
             "url.QueryEscape/strconv.ParseUint/unicode/utf8 (validated differentially). Laws not yet proved in Lean are listed in DESIGN.md and are covered by the oracle only.",
        technique="Lean 4 theorems over a hand-written model + regenerated tables; differential correspondence check against the Go implementation",
        components=["util", "filter"],
        explanation="Theorems over all byte strings about the Lean model of util's transformers (GM.Model.Util), whose byte-class, "
                    "entity and case-folding tables are regenerated from /repo on every run; the model is tied to the Go functions by "
                    "exhaustive small-scope + random differential runs (component util) and BytesFilter op sequences (component filter); "
                    "the C19 laws are also evaluated directly on the implementation's outputs.",
        assumptions=["url.QueryEscape, strconv.ParseUint and unicode/utf8 are modelled from their documentation and validated differentially"],
    ),
}

# Properties not claimed yet, with the reason shown in MANIFEST.not_applicable.
NOT_CLAIMED = {}
