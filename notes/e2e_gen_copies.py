#!/usr/bin/env python3
"""
Re-generates the GENERATED proof files of package `e2e` from the proof files they are copies of, INCLUDING the edits that
used to be made by hand (every edit is a checked text substitution: the script stops with a message if an edit does not
apply exactly as often as expected, so a change of the originals that the copies cannot follow is noticed here and not in
the middle of a Lean error list).

  1. lean/GM/Proof/E2EUrlTokKinds{,2,3,4}.lean, E2EUrlTokMain.lean   from RenderWF/Kinds{,2,3,4}.lean, RenderWF/Main.lean
     (grammar `WFHtmlU` = `WFHtml` + harmless `href` / `src` values as a side condition of every start tag)
  2. lean/GM/Proof/E2ELoLoop.lean                                     from InlinesLoopTotal.lean
     (loop invariant of the inline phase with a parametric lower bound `lo0` of the segment chain)
  3. lean/GM/Proof/E2ELoLink.lean                                     from InlinesLink.lean
     (+ the closing theorem `parseBlock_segments_lo`, kept in notes/e2e_gen/E2ELoLink.tail.lean)

USAGE (from anywhere; ROOT defaults to the verif tree this script lives in):

    python3 notes/e2e_gen_copies.py                  # rewrite the seven files in ROOT/lean/GM/Proof
    python3 notes/e2e_gen_copies.py --check          # regenerate in memory, compare with the files in the tree, exit 1 on a difference
    python3 notes/e2e_gen_copies.py --root /path/to/verif [--check]
    afterwards:  cd ROOT/lean && lake build GM.Props.ConvertE2E GM.Props.C05E2E

WHEN to run: after a change of InlinesLoopTotal.lean / InlinesLink.lean (e.g. package escfix: the `escaped := false`
repair of the byte loop) or of RenderWF/Kinds*.lean / Main.lean. The substitutions are written so that they apply to the
files before AND after escfix's change (`ih s'.escaped st2 …` / `ih false st2 …` both become `ih _ st2 …`).
"""
import os
import re
import sys


class GenError(Exception):
    pass


def sub_n(s, old, new, n, what):
    """replace `old` by `new`, which must occur exactly `n` times (n = None: at least once)"""
    k = s.count(old)
    if (n is None and k == 0) or (n is not None and k != n):
        raise GenError('%s: expected %s occurrence(s) of %r, found %d' % (what, 'some' if n is None else n, old, k))
    return s.replace(old, new)


def resub_n(s, pat, new, n, what):
    out, k = re.subn(pat, new, s)
    if k != n:
        raise GenError('%s: expected %d match(es) of /%s/, found %d' % (what, n, pat, k))
    return out


def in_decl(s, start_marker, edit, what):
    """apply `edit` to the declaration that starts with `start_marker` (up to the next blank line followed by a
    declaration keyword or the end of the file)"""
    i = s.find(start_marker)
    if i < 0 or s.find(start_marker, i + 1) >= 0:
        raise GenError('%s: declaration %r not found exactly once' % (what, start_marker))
    m = re.compile(r'\n\n(?=(/--|theorem |def |structure |/-!|end |mutual|section|variable|omit |include ))').search(s, i)
    j = m.start() if m else len(s)
    return s[:i] + edit(s[i:j]) + s[j:]


# ---------------------------------------------------------------- 1. grammar with harmless URL attributes

URLTOK_HEADER = ('/-\n  GM.Proof.%s — copy of GM.Proof.RenderWF.%s for the grammar `WFHtmlU` (harmless `href` / `src` values as a side\n'
                 '  condition of every start tag); see GM.Proof.E2EUrlTokGrammar. Only `wf_el` / `wf_void` differ (they ask for `UrlAttrs`).\n-/\n')


def conv(proof, name, newname, imports):
    s = open(os.path.join(proof, 'RenderWF', name + '.lean')).read()
    body = s[s.index('namespace GM.Proof.RenderWF'):]
    body = sub_n(body, 'namespace GM.Proof.RenderWF\nopen GM GM.Spec',
                 'namespace GM.Proof.RenderWFU\nopen GM GM.Spec GM.Proof.RenderWF', 1, newname + ' namespace')
    body = sub_n(body, 'end GM.Proof.RenderWF', 'end GM.Proof.RenderWFU', 1, newname + ' end')
    body = body.replace('WFHtml', 'WFHtmlU')
    # keep only the declarations that mention the grammar (everything else is taken from GM.Proof.RenderWF)
    blocks = re.split(r'\n\n+', body)
    keep = [b for b in blocks if 'WFHtmlU' in b or b.lstrip().startswith(
        ('namespace', 'open ', 'variable', 'end ', '/-!', 'section'))]
    hdr = URLTOK_HEADER % (newname, name) + ''.join('import %s\n' % i for i in imports) + '\n'
    return hdr + '\n\n'.join(keep) + '\n'


def gen_urltok(proof):
    out = {}
    s = conv(proof, 'Kinds', 'E2EUrlTokKinds', ['GM.Proof.RenderWF.Write', 'GM.Proof.RenderWF.Tags', 'GM.Proof.RenderWF.Consts',
                                                 'GM.Proof.RenderWF.Kinds', 'GM.Proof.E2EUrlTokGrammar'])
    # `wf_el` / `wf_void` get a last auto-param `(hu : UrlAttrs as := by urlattrs)` that is passed to `.elem` / `.void`
    s = sub_n(s, '(hpre : inertBytes pre = true) (hpost : inertBytes post = true) (hbody : WFHtmlU x body) :',
              '(hpre : inertBytes pre = true) (hpost : inertBytes post = true) (hbody : WFHtmlU x body)\n'
              '    (hu : UrlAttrs as := by urlattrs) :', 1, 'E2EUrlTokKinds wf_el signature')
    s = sub_n(s, '(WFHtmlU.elem n as (pre ++ body) tf.void sok (.append _ _ (.txt hpre) hbody))',
              '(WFHtmlU.elem n as (pre ++ body) tf.void sok hu (.append _ _ (.txt hpre) hbody))', 1, 'E2EUrlTokKinds wf_el body')
    s = sub_n(s, '(hpost : inertBytes post = true) : WFHtmlU x opn := by',
              '(hpost : inertBytes post = true) (hu : UrlAttrs as := by urlattrs) : WFHtmlU x opn := by', 1,
              'E2EUrlTokKinds wf_void signature')
    s = sub_n(s, '(WFHtmlU.void (x := x) n as tf.void sok)', '(WFHtmlU.void (x := x) n as tf.void sok hu)', 1,
              'E2EUrlTokKinds wf_void body')
    out['E2EUrlTokKinds'] = s
    out['E2EUrlTokKinds2'] = conv(proof, 'Kinds2', 'E2EUrlTokKinds2', ['GM.Proof.E2EUrlTokKinds', 'GM.Proof.RenderWF.Kinds2'])
    s = conv(proof, 'Kinds3', 'E2EUrlTokKinds3', ['GM.Proof.E2EUrlTokKinds2', 'GM.Proof.RenderWF.Kinds3'])
    # `wf_cell_gen`: the user attributes that pass `filter` are no URL attributes
    s = sub_n(s, '(align : Nat) (attrs : Option (List Attr)) (hinv : attrsInv attrs = true) {body : Bytes} (hb : WFHtmlU x body) :',
              '(align : Nat) (attrs : Option (List Attr)) (hinv : attrsInv attrs = true) {body : Bytes} (hb : WFHtmlU x body)\n'
              '    (hf : filter.all (fun n => !urlAttrNames.contains n) = true := by decide +kernel) :', 1,
              'E2EUrlTokKinds3 wf_cell_gen signature')

    def cell(d):
        d = sub_n(d, '(by rw [renderAttrs_eq]; bnorm) (by bnorm) rfl (by decide) hb\n',
                  '(by rw [renderAttrs_eq]; bnorm) (by bnorm) rfl (by decide) hb (urlAttrs_user _ hf _)\n', 1,
                  'E2EUrlTokKinds3 wf_cell_gen first wf_el')
        # the second `wf_el` call (the cell with an `align` / `style` attribute in front) ends the declaration
        lines = d.rstrip('\n').split('\n')
        lines.append('      (urlAttrs_cons_nonurl (by decide +kernel) (urlAttrs_user _ hf _))')
        return '\n'.join(lines)
    s = in_decl(s, 'theorem wf_cell_gen', cell, 'E2EUrlTokKinds3')
    out['E2EUrlTokKinds3'] = s
    out['E2EUrlTokKinds4'] = conv(proof, 'Kinds4', 'E2EUrlTokKinds4', ['GM.Proof.E2EUrlTokKinds3', 'GM.Proof.RenderWF.Kinds4'])
    out['E2EUrlTokMain'] = conv(proof, 'Main', 'E2EUrlTokMain', ['GM.Proof.E2EUrlTokKinds4', 'GM.Proof.RenderWF.Template',
                                                                  'GM.Proof.RenderWF.Main'])
    return out


# ---------------------------------------------------------------- 2./3. loop invariant with a parametric lower bound

LOLOOP_HEADER = '''/-
  GM.Proof.E2ELoLoop — GENERATED copy of GM.Proof.InlinesLoopTotal with the lower bound of the segment chain of the loop
  invariant generalised from 0 to a parameter `lo0` (`LInv lo0 …`, `PContract lo0 …`): the recorded segments start at or
  behind `lo0`. Instantiated with the start of the block's first line in GM.Proof.E2ELoLink. The original file is untouched.
-/
'''

LOLINK_HEADER = '''/-
  GM.Proof.E2ELoLink — GENERATED copy of GM.Proof.InlinesLink over the loop invariant with a parametric lower bound
  (GM.Proof.E2ELoLoop): the link parser's contract, all contracts, and the segment theorem with the lower bound `lo0` =
  the start of the block's first line. The original file is untouched.
-/
'''


def gen_loloop(proof):
    s = open(os.path.join(proof, 'InlinesLoopTotal.lean')).read()
    body = s[s.index('namespace GM.Proof.InlinesTotal'):]
    body = sub_n(body,
                 'namespace GM.Proof.InlinesTotal\nopen GM GM.Text GM.Spec GM.Inl GM.Proof.Reader GM.Proof.InlinesReader GM.Proof.Inlines',
                 'namespace GM.Proof.InlinesLo\nopen GM GM.Text GM.Spec GM.Inl GM.Proof.Reader GM.Proof.InlinesReader GM.Proof.Inlines GM.Proof.InlinesTotal',
                 1, 'E2ELoLoop namespace')
    body = sub_n(body, 'end GM.Proof.InlinesTotal', 'end GM.Proof.InlinesLo', 1, 'E2ELoLoop end')
    body = sub_n(body, 'variable {src : Bytes} {segs : List Segment}', 'variable {src : Bytes} {segs : List Segment} {lo0 : Int}', 1,
                 'E2ELoLoop variable')
    body = sub_n(body, 'chain 0 ', 'chain lo0 ', None, 'E2ELoLoop chain')
    for st in ('LInv', 'ScanInv'):
        body = sub_n(body, 'structure %s (X : Ctx)' % st, 'structure %s (lo0 : Int) (X : Ctx)' % st, 1, 'E2ELoLoop ' + st)
        body = re.sub(st + r' (?!\(lo0)', st + ' lo0 ', body)
        body = body.replace('structure %s lo0 (lo0 : Int)' % st, 'structure %s (lo0 : Int)' % st)
    body = sub_n(body, 'def PContract (X : Ctx)', 'def PContract (lo0 : Int) (X : Ctx)', 1, 'E2ELoLoop PContract')
    body = re.sub(r'PContract (?!\(lo0)', 'PContract lo0 ', body)
    body = body.replace('def PContract lo0 (lo0 : Int)', 'def PContract (lo0 : Int)')

    # --- the edits that used to be made by hand
    # (a) the bound is non-negative where the proof needs `0 ≤ diff.start`: a hypothesis `hlo` threaded through three theorems
    def eol_text(d):
        d = sub_n(d, '(hlk : X.LK kids n bt) :', '(hlk : X.LK kids n bt) (hlo : 0 ≤ lo0) :', 1, 'eolText_total signature')
        return sub_n(d, 'have h0 : 0 ≤ diff.start := chain_le hc', 'have h0 : 0 ≤ diff.start := by have := chain_le hc; omega', 1,
                     'eolText_total h0')
    body = in_decl(body, 'theorem eolText_total', eol_text, 'E2ELoLoop')

    def end_of_line(d):
        d = sub_n(d, '(hS : ScanInv lo0 X src segs v [] i s c) :', '(hS : ScanInv lo0 X src segs v [] i s c) (hlo : 0 ≤ lo0) :', 1,
                  'endOfLine_total signature')
        return sub_n(d, 'simp only at *; omega) hS.inv.lk\n', 'simp only at *; omega) hS.inv.lk hlo\n', 1, 'endOfLine_total call')
    body = in_decl(body, 'theorem endOfLine_total', end_of_line, 'E2ELoLoop')

    def line_loop(d):
        d = sub_n(d, '(hC : ∀ ip, PContract lo0 X src segs (trigOf ip) (ip.parse env)) :',
                  '(hC : ∀ ip, PContract lo0 X src segs (trigOf ip) (ip.parse env)) (hlo : 0 ≤ lo0) :', 1, 'lineLoop_total signature')
        d = sub_n(d, 'endOfLine_total X F Z (flags := (classify line).2) q1\n',
                  'endOfLine_total X F Z (flags := (classify line).2) q1 hlo\n', 1, 'lineLoop_total call')
        # `ih s'.escaped st2 …` (model before escfix) / `ih false st2 …` (after): the flag is inferred
        return resub_n(d, r'exact ih \S+ st2 c2 g2 \(by omega\)', 'exact ih _ st2 c2 g2 (by omega)', 1, 'lineLoop_total ih')
    body = in_decl(body, 'theorem lineLoop_total', line_loop, 'E2ELoLoop')

    # (b) the closing theorems instantiate the bound 0: cut everything from `Ctx.pos` on, keep `blockFuel_gt`
    cut = body.find('/-- the context invariant "every open delimiter still has characters" -/\ndef Ctx.pos')
    if cut < 0:
        raise GenError('E2ELoLoop: `def Ctx.pos` (start of the part that is cut) not found')
    tail = body[cut:]
    m = re.search(r'(?:/--(?:(?!-/).)*-/\n)?theorem blockFuel_gt .*?(?=\n\n)', tail, re.S)
    if not m:
        raise GenError('E2ELoLoop: `theorem blockFuel_gt` not found behind `Ctx.pos`')
    head = body[:cut].rstrip('\n')
    if not head.endswith('/-! ### the whole phase -/'):
        head += '\n\n/-! ### the whole phase -/'
    body = head + '\n\n' + m.group(0) + '\n\nend GM.Proof.InlinesLo\n'
    return LOLOOP_HEADER + 'import GM.Proof.InlinesTotal\n\n' + body


def gen_lolink(proof, notes):
    s = open(os.path.join(proof, 'InlinesLink.lean')).read()
    body = s[s.index('namespace GM.Proof.InlinesLink'):]
    body = sub_n(body, 'namespace GM.Proof.InlinesLink', 'namespace GM.Proof.InlinesLoLink', 1, 'E2ELoLink namespace')
    body = sub_n(body, 'end GM.Proof.InlinesLink', 'end GM.Proof.InlinesLoLink', 1, 'E2ELoLink end')
    body = sub_n(body,
                 'open GM GM.Text GM.Spec GM.Inl GM.Proof.Reader GM.Proof.InlinesReader GM.Proof.Inlines GM.Proof.InlinesTotal',
                 'open GM GM.Text GM.Spec GM.Inl GM.Proof.Reader GM.Proof.InlinesReader GM.Proof.Inlines GM.Proof.InlinesTotal GM.Proof.InlinesLo',
                 1, 'E2ELoLink open')
    body = sub_n(body, 'variable {src : Bytes} {segs : List Segment}', 'variable {src : Bytes} {segs : List Segment} {lo0 : Int}', 1,
                 'E2ELoLink variable')
    body = sub_n(body, 'chain 0 ', 'chain lo0 ', None, 'E2ELoLink chain')
    body = re.sub(r'LInv (?!lo0)', 'LInv lo0 ', body)
    body = re.sub(r'PContract (?!lo0)', 'PContract lo0 ', body)
    body = sub_n(body, 'def ClosePost (lo : Int)', 'def ClosePost (lo0 : Int) (lo : Int)', 1, 'E2ELoLink ClosePost')
    body = re.sub(r'ClosePost (?!\(lo0)(?!lo0)', 'ClosePost lo0 ', body)
    body = body.replace('def ClosePost lo0 (lo0 : Int)', 'def ClosePost (lo0 : Int)')

    # --- the edits that used to be made by hand
    # (a) `parseBlock_total` instantiates the bound 0 (it stays in GM.Proof.InlinesLink): remove it
    body = _cut_decl(body, '/-- C01 for the inline phase:', 'theorem parseBlock_total ')
    # (b) the closing theorem is replaced by `parseBlock_segments_lo` (stored next to this script)
    cut = body.find('/-- C05(c) for inline content: the segments of the tree `parseBlock` returns')
    if cut < 0:
        raise GenError('E2ELoLink: the docstring of `parseBlock_segments` (start of the part that is replaced) not found')
    tail = open(os.path.join(notes, 'e2e_gen', 'E2ELoLink.tail.lean')).read()
    body = body[:cut] + tail
    return (LOLINK_HEADER + 'import GM.Proof.E2ELoLoop\nimport GM.Proof.InlinesDelims\nimport GM.Proof.BlockReaderFuel\n\n' + body)


def _cut_decl(s, doc_start, decl_start):
    """remove the declaration `decl_start…` together with its docstring `doc_start…`"""
    i = s.find(doc_start)
    if i < 0 or s.find(doc_start, i + 1) >= 0:
        raise GenError('docstring %r not found exactly once' % doc_start)
    j = s.find(decl_start, i)
    if j < 0:
        raise GenError('declaration %r not found behind its docstring' % decl_start)
    k = s.find('\n\n', j)
    if k < 0:
        raise GenError('end of declaration %r not found' % decl_start)
    return s[:i] + s[k + 2:]


def generate(root):
    proof = os.path.join(root, 'lean', 'GM', 'Proof')
    notes = os.path.join(root, 'notes')
    out = gen_urltok(proof)
    out['E2ELoLoop'] = gen_loloop(proof)
    out['E2ELoLink'] = gen_lolink(proof, notes)
    return proof, out


def main(argv):
    root = os.path.dirname(os.path.dirname(os.path.abspath(__file__)))
    check = False
    args = argv[1:]
    while args:
        a = args.pop(0)
        if a == '--check':
            check = True
        elif a == '--root':
            root = args.pop(0)
        elif a in ('-h', '--help'):
            print(__doc__)
            return 0
        else:
            print('unknown argument ' + a, file=sys.stderr)
            return 2
    try:
        proof, out = generate(root)
    except GenError as e:
        print('e2e_gen_copies: CANNOT REGENERATE — ' + str(e), file=sys.stderr)
        return 1
    rc = 0
    for name in sorted(out):
        path = os.path.join(proof, name + '.lean')
        old = open(path).read() if os.path.exists(path) else None
        if check:
            if old != out[name]:
                print('DIFFERS  ' + path)
                rc = 1
            else:
                print('same     ' + path)
        else:
            if old != out[name]:
                open(path, 'w').write(out[name])
                print('written  ' + path)
            else:
                print('same     ' + path)
    return rc


if __name__ == '__main__':
    sys.exit(main(sys.argv))
