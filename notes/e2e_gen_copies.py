#!/usr/bin/env python3
"""
How the GENERATED proof files of package `e2e` (round 2) were produced from existing proof files, so that they can be
re-derived when the originals change.  Run from verif/lean/GM/Proof.  The script only documents the MECHANICAL part; the
hand edits made afterwards are listed at the end of each section (they are small and the compiler points at them).

  1. E2EUrlTokKinds{,2,3,4}.lean, E2EUrlTokMain.lean   from RenderWF/Kinds{,2,3,4}.lean, RenderWF/Main.lean
  2. E2ELoLoop.lean                                     from InlinesLoopTotal.lean
  3. E2ELoLink.lean                                     from InlinesLink.lean
"""
import re

# ---------------------------------------------------------------- 1. grammar with harmless URL attributes
def conv(name, newname, imports):
    s = open('RenderWF/' + name + '.lean').read()
    body = s[s.index('namespace GM.Proof.RenderWF'):]
    body = body.replace('namespace GM.Proof.RenderWF\nopen GM GM.Spec',
                        'namespace GM.Proof.RenderWFU\nopen GM GM.Spec GM.Proof.RenderWF', 1)
    body = body.replace('end GM.Proof.RenderWF', 'end GM.Proof.RenderWFU')
    body = body.replace('WFHtml', 'WFHtmlU')
    # keep only the declarations that mention the grammar (everything else is taken from GM.Proof.RenderWF)
    blocks = re.split(r'\n\n+', body)
    keep = [b for b in blocks if 'WFHtmlU' in b or b.lstrip().startswith(
        ('namespace', 'open ', 'variable', 'end ', '/-!', 'section'))]
    hdr = '/-\n  GM.Proof.%s — copy of GM.Proof.RenderWF.%s for the grammar `WFHtmlU` …\n-/\n' % (newname, name)
    hdr += ''.join('import %s\n' % i for i in imports) + '\n'
    open(newname + '.lean', 'w').write(hdr + '\n\n'.join(keep) + '\n')

def gen_urltok():
    conv('Kinds', 'E2EUrlTokKinds', ['GM.Proof.RenderWF.Write', 'GM.Proof.RenderWF.Tags', 'GM.Proof.RenderWF.Consts',
                                      'GM.Proof.RenderWF.Kinds', 'GM.Proof.E2EUrlTokGrammar'])
    conv('Kinds2', 'E2EUrlTokKinds2', ['GM.Proof.E2EUrlTokKinds', 'GM.Proof.RenderWF.Kinds2'])
    conv('Kinds3', 'E2EUrlTokKinds3', ['GM.Proof.E2EUrlTokKinds2', 'GM.Proof.RenderWF.Kinds3'])
    conv('Kinds4', 'E2EUrlTokKinds4', ['GM.Proof.E2EUrlTokKinds3', 'GM.Proof.RenderWF.Kinds4'])
    conv('Main', 'E2EUrlTokMain', ['GM.Proof.E2EUrlTokKinds4', 'GM.Proof.RenderWF.Template', 'GM.Proof.RenderWF.Main'])
    # HAND EDITS afterwards:
    #  * E2EUrlTokKinds: `wf_el` / `wf_void` get a last auto-param `(hu : UrlAttrs as := by urlattrs)` passed to `.elem` / `.void`;
    #  * E2EUrlTokKinds3: `wf_cell_gen` gets `(hf : filter.all (fun n => !urlAttrNames.contains n) = true := by decide +kernel)`
    #    and passes `(urlAttrs_user _ hf _)` / `(urlAttrs_cons_nonurl (by decide +kernel) (urlAttrs_user _ hf _))` to `wf_el`.

# ---------------------------------------------------------------- 2./3. loop invariant with a parametric lower bound
def gen_lo():
    s = open('InlinesLoopTotal.lean').read()
    body = s[s.index('namespace GM.Proof.InlinesTotal'):]
    body = body.replace(
        'namespace GM.Proof.InlinesTotal\nopen GM GM.Text GM.Spec GM.Inl GM.Proof.Reader GM.Proof.InlinesReader GM.Proof.Inlines',
        'namespace GM.Proof.InlinesLo\nopen GM GM.Text GM.Spec GM.Inl GM.Proof.Reader GM.Proof.InlinesReader GM.Proof.Inlines GM.Proof.InlinesTotal', 1)
    body = body.replace('end GM.Proof.InlinesTotal', 'end GM.Proof.InlinesLo')
    body = body.replace('variable {src : Bytes} {segs : List Segment}', 'variable {src : Bytes} {segs : List Segment} {lo0 : Int}', 1)
    body = body.replace('chain 0 ', 'chain lo0 ')
    for st in ('LInv', 'ScanInv'):
        body = body.replace('structure %s (X : Ctx)' % st, 'structure %s (lo0 : Int) (X : Ctx)' % st)
        body = re.sub(st + r' (?!\(lo0)', st + ' lo0 ', body)
        body = body.replace('structure %s lo0 (lo0 : Int)' % st, 'structure %s (lo0 : Int)' % st)
    body = body.replace('def PContract (X : Ctx)', 'def PContract (lo0 : Int) (X : Ctx)')
    body = re.sub(r'PContract (?!\(lo0)', 'PContract lo0 ', body)
    body = body.replace('def PContract lo0 (lo0 : Int)', 'def PContract (lo0 : Int)')
    # cut everything from `Ctx.pos` on (the closing theorems instantiate the bound 0), keep `blockFuel_gt`
    open('E2ELoLoop.lean', 'w').write('import GM.Proof.InlinesTotal\n\n' + body)
    # HAND EDITS: cut the tail from `def Ctx.pos` on and re-append `blockFuel_gt`; `(hlo : 0 ≤ lo0)` added to
    # `eolText_total`, `endOfLine_total`, `lineLoop_total` (and passed on); in `eolText_total`
    # `have h0 : 0 ≤ diff.start := by have := chain_le hc; omega`; in `lineLoop_total` `ih _ st2 …` instead of `ih s'.escaped st2 …`
    # (compiles against the model before AND after escfix's `escaped := false` repair).

    s = open('InlinesLink.lean').read()
    body = s[s.index('namespace GM.Proof.InlinesLink'):]
    body = body.replace('namespace GM.Proof.InlinesLink', 'namespace GM.Proof.InlinesLoLink', 1)
    body = body.replace('end GM.Proof.InlinesLink', 'end GM.Proof.InlinesLoLink')
    body = body.replace(
        'open GM GM.Text GM.Spec GM.Inl GM.Proof.Reader GM.Proof.InlinesReader GM.Proof.Inlines GM.Proof.InlinesTotal',
        'open GM GM.Text GM.Spec GM.Inl GM.Proof.Reader GM.Proof.InlinesReader GM.Proof.Inlines GM.Proof.InlinesTotal GM.Proof.InlinesLo', 1)
    body = body.replace('variable {src : Bytes} {segs : List Segment}', 'variable {src : Bytes} {segs : List Segment} {lo0 : Int}', 1)
    body = body.replace('chain 0 ', 'chain lo0 ')
    body = re.sub(r'LInv (?!lo0)', 'LInv lo0 ', body)
    body = re.sub(r'PContract (?!lo0)', 'PContract lo0 ', body)
    body = body.replace('def ClosePost (lo : Int)', 'def ClosePost (lo0 : Int) (lo : Int)')
    body = re.sub(r'ClosePost (?!\(lo0)(?!lo0)', 'ClosePost lo0 ', body)
    body = body.replace('def ClosePost lo0 (lo0 : Int)', 'def ClosePost (lo0 : Int)')
    open('E2ELoLink.lean', 'w').write(
        'import GM.Proof.E2ELoLoop\nimport GM.Proof.InlinesDelims\nimport GM.Proof.BlockReaderFuel\n\n' + body)
    # HAND EDITS: the tail from `theorem parseBlock_total` on is replaced by the mutual block `segsOf_closeLabels` /
    # `segsOfL_closeLabelsL` (copied) and the new closing theorem `parseBlock_segments_lo` (lower bound = start of the
    # first line, upper bound = `BCur.lastStop segs`).

if __name__ == '__main__':
    print(__doc__)
