/-
  GM.Props.ConvertE2ENP — composition of the packages `e2e` (GM.Props.ConvertE2E: the renderer side of `convertCore` is total
  given that the lines of raw blocks are in range) and `tnopanic` (GM.Props.ConvertNP: the block phase with the link-reference
  transformer returns a store with `NodesOK`, or answers `pre`, for every source without a setext underline).
-/
import GM.Props.ConvertE2E
import GM.Props.ConvertNP

namespace GM.Props.ConvertE2ENP
open GM GM.Text GM.Convert GM.Spec GM.E2E

/-- for every source without a setext underline: `convertCore` never ends in a renderer-side outcome (`value p`,
    `render k`), for every Unicode class assignment and option set -/
theorem convert_renderer_side_total_no_underline (uc : List (Nat × (Bool × Bool))) (o : ROpts) (src : Bytes)
    (hsrc : GM.Props.ConvertNP.NoUnderline src) (e : Err) (h : convertCore uc o src = .error e) :
    (∃ p, e = .blocks p) ∨ e = .linesNotWF0 ∨ (∃ p, e = .inlines p) := by
  refine GM.Props.ConvertE2E.convert_renderer_side_total_of_lines uc o src ?_ e h
  intro st hst n hn _ t ht
  rcases GM.Props.ConvertNP.block_phase_no_go_panic_partial src hsrc with ⟨s, hs, hok⟩ | he
  · rw [hs] at hst
    cases hst
    exact (hok n hn).lines t ht
  · rw [he] at hst; cases hst

end GM.Props.ConvertE2ENP
