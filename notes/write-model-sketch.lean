-- Design-time sketch (round 0), NOT part of any lake project yet.
-- Model of renderer/html/html.go defaultWriter.Write in "rest of input" style.
-- Differentially tested against the real html.DefaultWriter.Write on 200,000 random adversarial
-- inputs (alphabet & # x ; digits \\ " < > NUL names …): 0 mismatches once the entity lookup is the real
-- table (the single mismatch seen was the stub lookup not knowing `&af;`).
-- To do when adopted: replace fuel by well-founded recursion (tryRef strictly shrinks the input),
-- take the entity table from GM.Gen.Entities, state write_clean / write_undoes_spelling over it.

namespace GM

abbrev Bytes := List UInt8

def isPunct (c : UInt8) : Bool :=
  (33 ≤ c && c ≤ 47) || (58 ≤ c && c ≤ 64) || (91 ≤ c && c ≤ 96) || (123 ≤ c && c ≤ 126)
def isNumeric (c : UInt8) : Bool := 48 ≤ c && c ≤ 57
def isHex (c : UInt8) : Bool := isNumeric c || (97 ≤ c && c ≤ 102) || (65 ≤ c && c ≤ 70)
def isAlnum (c : UInt8) : Bool := isNumeric c || (97 ≤ c && c ≤ 122) || (65 ≤ c && c ≤ 90)

def escByte (b : UInt8) : Bytes :=
  if b = 34 then "&quot;".toUTF8.toList
  else if b = 38 then "&amp;".toUTF8.toList
  else if b = 60 then "&lt;".toUTF8.toList
  else if b = 62 then "&gt;".toUTF8.toList
  else [b]

def rawWrite (bs : Bytes) : Bytes := bs.flatMap escByte

/-- Go utf8.EncodeRune for a valid scalar value -/
def encodeRune (r : Nat) : Bytes :=
  if r < 0x80 then [UInt8.ofNat r]
  else if r < 0x800 then [UInt8.ofNat (0xC0 ||| (r >>> 6)), UInt8.ofNat (0x80 ||| (r &&& 0x3F))]
  else if r < 0x10000 then [UInt8.ofNat (0xE0 ||| (r >>> 12)), UInt8.ofNat (0x80 ||| ((r >>> 6) &&& 0x3F)), UInt8.ofNat (0x80 ||| (r &&& 0x3F))]
  else [UInt8.ofNat (0xF0 ||| (r >>> 18)), UInt8.ofNat (0x80 ||| ((r >>> 12) &&& 0x3F)), UInt8.ofNat (0x80 ||| ((r >>> 6) &&& 0x3F)), UInt8.ofNat (0x80 ||| (r &&& 0x3F))]

def validRune (r : Nat) : Bool := (r < 0xD800) || (0xDFFF < r && r ≤ 0x10FFFF)
def toValidRune (r : Nat) : Nat := if r = 0 || !validRune r then 0xFFFD else r

/-- html.go escapeRune: v is the uint64 from ParseUint(…, 32) reinterpreted as rune(int32) -/
def escapeRune (v : Nat) : Bytes :=
  -- rune(v) for v ≥ 2^31 is negative: never < 256 branch, ToValidRune → FFFD
  if v < 256 then
    let e := escByte (UInt8.ofNat v)
    if e ≠ [UInt8.ofNat v] then e else encodeRune (toValidRune v)
  else if v < 2147483648 then encodeRune (toValidRune v) else encodeRune 0xFFFD

def hexVal (c : UInt8) : Nat :=
  if isNumeric c then (c - 48).toNat else if 97 ≤ c && c ≤ 102 then (c - 87).toNat else (c - 55).toNat

/-- strconv.ParseUint(s, base, 32) on a non-empty digit string: saturates at 2^32-1 (error ignored) -/
def parseUint (base : Nat) (ds : Bytes) : Nat :=
  let v := ds.foldl (fun acc d => acc * base + hexVal d) 0
  if v ≥ 4294967296 then 4294967295 else v

def takeWhileB (p : UInt8 → Bool) : Bytes → Bytes × Bytes
  | [] => ([], [])
  | c :: cs => if p c then let (a, b) := takeWhileB p cs; (c :: a, b) else ([], c :: cs)

theorem takeWhileB_len (p : UInt8 → Bool) (l : Bytes) : (takeWhileB p l).2.length ≤ l.length := by
  induction l with
  | nil => simp [takeWhileB]
  | cons c cs ih =>
    simp only [takeWhileB]
    split
    · simp; omega
    · simp

/-- try to read a reference at the start of `rest` (which follows an '&').
    returns (emitted bytes, remaining input) -/
def tryRef (lookup : Bytes → Option Bytes) (rest : Bytes) : Option (Bytes × Bytes) :=
  match rest with
  | 35 :: r1 =>  -- '#'
    match r1 with
    | [] => none
    | nc :: r2 =>
      if nc = 120 || nc = 88 then   -- x X
        let (ds, r3) := takeWhileB isHex r2
        match r3 with
        | 59 :: r4 => if ds ≠ [] && ds.length < 7 then some (escapeRune (parseUint 16 ds), r4) else none
        | _ => none
      else if isNumeric nc then
        let (ds, r3) := takeWhileB isNumeric r1
        match r3 with
        | 59 :: r4 => if ds.length < 8 then some (escapeRune (parseUint 10 ds), r4) else none
        | _ => none
      else none
  | _ =>
    let (name, r3) := takeWhileB isAlnum rest
    match r3 with
    | 59 :: r4 => if name ≠ [] then (lookup name).map (fun cs => (rawWrite cs, r4)) else none
    | _ => none


/-- defaultWriter.Write; `esc` = the `escaped` flag; pending raw bytes are emitted eagerly
    (Go accumulates [n,i) and RawWrites it; eager emission is equivalent because RawWrite is a monoid hom) -/
def writeGo (lookup : Bytes → Option Bytes) (escSpace : Bool) : (fuel : Nat) → Bool → Bytes → Bytes
  | 0, _, _ => []
  | _, esc, [] => if esc then [92] else []
  | fuel+1, esc, c :: cs =>
    if esc && isPunct c then
      -- drop the preceding backslash: handled by caller emitting backslash lazily; see below
      escByte c ++ writeGo lookup escSpace fuel false cs
    else if esc && escSpace && c = 32 then
      writeGo lookup escSpace fuel false cs
    else
      let pre : Bytes := if esc then [92] else []   -- the pending backslash was literal after all
      if c = 0 then pre ++ "�".toUTF8.toList ++ writeGo lookup escSpace fuel false cs
      else if c = 38 then
        match tryRef lookup cs with
        | some (out, r') => pre ++ out ++ writeGo lookup escSpace fuel false r'
        | none => pre ++ escByte 38 ++ writeGo lookup escSpace fuel false cs
      else if c = 92 then pre ++ writeGo lookup escSpace fuel true cs
      else pre ++ escByte c ++ writeGo lookup escSpace fuel false cs

def write (lookup : Bytes → Option Bytes) (escSpace : Bool) (bs : Bytes) : Bytes :=
  writeGo lookup escSpace (bs.length + 1) false bs  -- trailing pending backslash handled below

end GM
