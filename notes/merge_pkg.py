#!/usr/bin/env python3
"""merge_pkg.py <copy_root> <Cxx>[,Cyy] <driverModule>:<component>[,...] files...   (integrator helper)
Copies the listed files from an agent's private copy, adds the driver import/arm and the PROPS entries."""
import sys, os, re, shutil, ast as pyast
src, pids, drv = sys.argv[1], sys.argv[2].split(","), sys.argv[3]
files = sys.argv[4:]
ROOT = "/verif"
for f in files:
    s, d = os.path.join(src, f), os.path.join(ROOT, f)
    os.makedirs(os.path.dirname(d), exist_ok=True)
    shutil.copy2(s, d)
    print("copied", f)
main = os.path.join(ROOT, "lean/Driver/Main.lean")
m = open(main).read()
if drv != "-":
    for item in drv.split(","):
        mod, comp = item.split(":")
        imp = "import Driver.%s" % mod
        if imp not in m:
            lines = m.split("\n")
            idx = max(i for i, l in enumerate(lines) if l.startswith("import "))
            lines.insert(idx + 1, imp)
            m = "\n".join(lines)
        arm = '  | "%s" :: rest => handle%s rest\n' % (comp, mod)
        if ('"%s" :: rest' % comp) not in m:
            m = m.replace("  | _ => bad\n", arm + "  | _ => bad\n", 1)
    open(main, "w").write(m)
# PROPS entries
theirs = open(os.path.join(src, "properties_cfg.py")).read()
mine_p = os.path.join(ROOT, "properties_cfg.py")
mine = open(mine_p).read()
for pid in pids:
    mm = re.search(r'^    "%s": dict\(.*?^    \),\n' % pid, theirs, re.S | re.M)
    if not mm:
        print("!! no PROPS entry for", pid); continue
    entry = mm.group(0)
    old = re.search(r'^    "%s": dict\(.*?^    \),\n' % pid, mine, re.S | re.M)
    if old:
        mine = mine.replace(old.group(0), entry)
    else:
        mine = mine.replace("\n}\n\n# Properties not claimed yet", "\n" + entry + "}\n\n# Properties not claimed yet", 1)
    print("PROPS", pid, "merged")
open(mine_p, "w").write(mine)
