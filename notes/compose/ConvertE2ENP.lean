/-
  GM.Props.ConvertE2ENP — END TO END for the DEFAULT pipeline `convertCore`: the compositions of package e2e's interface theorems
  (GM.Props.ConvertE2ENT, GM.Props.ConvertE2E) with package tnopanic's statements about the block phase with the link-reference
  transformer (GM.Props.ConvertNP, round 3).
-/
import GM.Props.ConvertE2E
import GM.Props.ConvertE2ENT
import GM.Props.ConvertNP
import GM.Props.C05E2E

namespace GM.Props.ConvertE2ENP
open GM GM.Text GM.Convert GM.Spec GM.E2E

/-- **C01 END TO END**: `convertCore` answers HTML for every byte string, every Unicode-class assignment and every option
    set — no error outcome of any phase of the composed model -/
theorem convert_total (uc : List (Nat × (Bool × Bool))) (o : ROpts) (src : Bytes) : ∃ html, convertCore uc o src = .ok html :=
  GM.Props.ConvertE2ENT.convert_total_of_block_phase_theorems GM.Props.ConvertNP.block_phase_total
    GM.Props.ConvertNP.block_phase_lines_wellformed GM.Props.ConvertNP.block_phase_lines_padding_zero uc o src

/-- no outcome other than HTML -/
theorem convert_never_errs (uc : List (Nat × (Bool × Bool))) (o : ROpts) (src : Bytes) (e : Err) :
    convertCore uc o src ≠ .error e := by
  obtain ⟨html, h⟩ := convert_total uc o src
  rw [h]; intro h'; cases h'

/-- **on a source without `[` the block phase of the default pipeline IS the block phase without paragraph transformers** -/
theorem block_phase_bracket_free_eq (src : Bytes) (hb : NoBracket src) : blockPhase true src = GM.Blocks.run src := by
  rcases GM.Props.ConvertE2E.block_phase_bracket_free true src hb with h | ⟨e, h⟩
  · exact h
  · obtain ⟨s, hs, _⟩ := GM.Props.ConvertNP.block_phase_total src
    rw [hs] at h; cases h

/-- … and `convertCore` answers the HTML of the pipeline without transformers -/
theorem convert_bracket_free_eq (uc : List (Nat × (Bool × Bool))) (o : ROpts) (src : Bytes) (hb : NoBracket src) :
    convertCore uc o src = convertNT uc o src := by
  rcases GM.Props.ConvertE2ENT.convert_bracket_free uc o src hb with h | ⟨p, h⟩
  · exact h
  · exact absurd h (convert_never_errs uc o src _)

/-- **C05 END TO END for the default pipeline**, given ONE fact nobody has yet for the driver with the transformer: the order
    of the lines of CodeBlock / FencedCodeBlock / HTMLBlock (wf0 has it for `run`; unconditional on sources without `[`:
    `GM.Props.ConvertE2ENT.parser_output_wellformed_bracket_free`) -/
theorem parser_output_wellformed_partial_raw (uc : List (Nat × (Bool × Bool))) (src : Bytes) (a : ATree)
    (h : parseAst true uc src = .ok a)
    (hRaw : ∀ st, blockPhase true src = .ok st → ∀ n ∈ st.nodes, GM.Proof.BlocksWF0.isRaw n.kind = true → GM.Blocks.OrdFrom 0 n.lines) :
    wfAst src.length (dumpAst a) = none :=
  GM.Props.ConvertE2ENT.parser_output_wellformed_of_block_phase_facts uc src a h
    (fun st hst => by
      obtain ⟨s, hs, hN, hK⟩ := GM.Props.ConvertNP.block_phase_total src
      rw [hst] at hs; cases hs; exact ⟨hN, hK⟩)
    (fun st hst n hn => by
      cases hr : GM.Proof.BlocksWF0.isRaw n.kind with
      | true => exact hRaw st hst n hn hr
      | false => exact ((GM.Props.ConvertNP.block_phase_lines_wellformed src st hst).1 n hn hr).1)
    (fun st hst n hn hk => by
      obtain ⟨i, hi, rfl⟩ := GM.Blocks.mem_nodes_nd hn
      exact GM.Props.ConvertNP.block_phase_container_nodes_have_no_lines src st hst i (by
        rcases hk with hk | hk <;> rw [hk] <;> rfl))

/-- **C05 END TO END for the default pipeline, every source, no hypothesis**: whenever the parse phases answer a tree (they always
    do: `parse_ast_total`), its position dump passes `Spec.wfAst` with `len(source)` -/
theorem parser_output_wellformed (uc : List (Nat × (Bool × Bool))) (src : Bytes) (a : ATree)
    (h : parseAst true uc src = .ok a) : wfAst src.length (dumpAst a) = none :=
  parser_output_wellformed_partial_raw uc src a h
    (fun st hst => GM.Props.ConvertNP.block_phase_raw_lines_ordered src st hst)

/-- the parse phases of the default pipeline always answer a tree with its segments -/
theorem parse_ast_total (uc : List (Nat × (Bool × Bool))) (src : Bytes) : ∃ a, parseAst true uc src = .ok a := by
  obtain ⟨html, h⟩ := convert_total uc {} src
  obtain ⟨t, ht, _⟩ := GM.E2E.convertWith_ok (o := {}) (guard := true) h
  exact GM.Props.C05E2E.parse_ast_exists true uc src t ht

/-- … so: for every source there is a tree and its dump is well formed -/
theorem parser_output_wellformed_total (uc : List (Nat × (Bool × Bool))) (src : Bytes) :
    ∃ a, parseAst true uc src = .ok a ∧ wfAst src.length (dumpAst a) = none := by
  obtain ⟨a, ha⟩ := parse_ast_total uc src
  exact ⟨a, ha, parser_output_wellformed uc src a ha⟩

end GM.Props.ConvertE2ENP
