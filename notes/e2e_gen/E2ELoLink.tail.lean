/-- C05(c) for inline content WITH the lower bound: the segments of the tree `parseBlock` returns, in tree order, start
    at or behind the start of the block's first line, end at or before the end of its last line, none is inverted, each
    starts at or behind the end of the one before -/
theorem parseBlock_segments_lo (W : WFSegs src segs) (Z : ∀ s ∈ segs, s.padding = 0) (env : Env) {kids : List Node}
    (h : parseBlock env src segs = .ok kids) :
    chain (BCur.segOf segs 0).start (BCur.lastStop segs) (segsOfL kids) := by
  have F := segFacts W
  obtain ⟨r0, e0, a0⟩ := blockReader_init F
  have hz0 : (BCur.init segs).pad = 0 := segOf_pad F Z 0 (Int.le_refl _) F.kpos
  have hlo : 0 ≤ (BCur.segOf segs 0).start := (F.rng 0 (Int.le_refl _) F.kpos).1
  have hI : LInv (BCur.segOf segs 0).start (linkCtx (BCur.segOf segs 0).start) src segs { rd := r0 } (BCur.init segs) :=
    ⟨⟨a0, hz0⟩, by simp only [segsOfL, chain, BCur.init]; exact Int.le_refl _, LK_base _⟩
  obtain ⟨st', c', l1, l2⟩ := lineLoop_total _ F Z env (all_contracts W Z env) hlo (blockFuel src segs) false _ _ hI
    (blockFuel_gt W Z a0.wf hz0)
  have hlk : LK (BCur.segOf segs 0).start st'.kids st'.nextId st'.bottoms := l2.lk
  obtain ⟨res, p1, _⟩ := processDelimiters_ok .nil st'.kids hlk.pos
  unfold parseBlock at h
  simp only [e0, l1, p1, bind, Except.bind, pure, Except.pure, Except.ok.injEq] at h
  subst h
  rw [segsOfL_closeLabelsL]
  have hr := bpos_wf F l2.rs.abs
  rw [(peekLine_facts F l2.rs).2] at hr
  have hle : BCur.stopOf segs c' ≤ BCur.lastStop segs := by
    unfold BCur.stopOf
    split
    · rename_i hl
      rw [F.last]
      by_cases e : c'.ln = BCur.k segs - 1
      · rw [e]; exact Int.le_refl _
      · have h1 := F.mono c'.ln (BCur.k segs - 1) l2.rs.abs.wf.ln0 (by omega) (by omega)
        have h2 := F.rng (BCur.k segs - 1) (by have := F.kpos; omega) (by omega)
        omega
    · exact Int.le_refl _
  have hch : chain (BCur.segOf segs 0).start (BCur.lastStop segs) (segsOfL st'.kids) :=
    chain_mono (Int.le_refl _) (by have := hr.2.1; simp only at *; omega) l2.ch
  exact processDelimiters_chain p1 hlk.pos hlk.dseg hch

end GM.Proof.InlinesLoLink
