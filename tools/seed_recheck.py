#!/usr/bin/env python3
"""tools/seed_recheck.py [--only C01-6,C03-6 | --match '-[67]$'] [--tier quick] [--copy /var/tmp/w_seed] [--jobs 1]
Re-evaluates STORED seeded changes (seeded/<id>/patch.diff) against the machinery as it is now:
  * works in a private copy of /verif (rsync, `./check setup` there once) so that evidence/, bin/ and lean/GM/Gen of
    /verif itself are never touched by a run on a mutated goldmark;
  * applies each patch to a scratch worktree of /repo (never /repo itself), runs `GOLDMARK_DIR=<worktree> ./check <Cxx>`
    for the seed's target property (and the other checks already listed in its meta.json), restores the worktree;
  * writes the new verdicts into seeded/<id>/meta.json of /verif ("checks"), keeping the previous ones under "checks_before".
The scratch copy and worktree are removed at the end (unless --keep)."""
import subprocess, sys, os, json, re, time, glob, shutil
ROOT = os.path.dirname(os.path.dirname(os.path.abspath(__file__)))
def arg(name, default=None):
    return sys.argv[sys.argv.index(name) + 1] if name in sys.argv else default
tier = arg("--tier", "quick")
copy = arg("--copy", "/var/tmp/w_seed")
only = arg("--only")
match = arg("--match")
ENV = dict(os.environ, GOFLAGS="-mod=mod", GOPROXY="off", GOSUMDB="off", GOTOOLCHAIN="local")
def sh(cmd, cwd=None, timeout=4 * 3600):
    p = subprocess.run(cmd, shell=True, cwd=cwd, env=ENV, stdout=subprocess.PIPE, stderr=subprocess.STDOUT, text=True, timeout=timeout)
    return p.returncode, p.stdout
seeds = sorted(os.path.basename(d) for d in glob.glob(os.path.join(ROOT, "seeded", "C*-*")))
if only:
    seeds = [s for s in seeds if s in only.split(",")]
if match:
    seeds = [s for s in seeds if re.search(match, s)]
V = os.path.join(copy, "verif")
SR = os.path.join(copy, "repo")
os.makedirs(copy, exist_ok=True)
rc, o = sh("rsync -a --delete --exclude .git --exclude /replays %s/ %s/" % (ROOT, V))
assert rc == 0, o
if not os.path.isdir(SR):
    sh("git -C /repo worktree prune; git -C /repo worktree add --detach %s HEAD" % SR)
sh("git checkout -q --detach $(git -C /repo rev-parse HEAD) && git checkout -- . && git clean -fdq", cwd=SR)
if not os.path.exists(os.path.join(V, "bin", "gmharness")) or "--setup" in sys.argv:
    rc, o = sh("./check setup", cwd=V)
    print("setup in copy:", "ok" if rc == 0 else o[-2000:]); sys.stdout.flush()
for s in seeds:
    d = os.path.join(ROOT, "seeded", s)
    meta = json.load(open(os.path.join(d, "meta.json")))
    pid = meta.get("property") or s.split("-")[0]
    checks = [pid] + [c for c in meta.get("checks", {}) if c != pid]
    if "--target-only" in sys.argv:
        checks = [pid]
    sh("git checkout -- . && git clean -fdq", cwd=SR)
    rc, o = sh("git apply %s" % os.path.join(d, "patch.diff"), cwd=SR)
    if rc != 0:
        rc, o = sh("patch -p1 -F3 --no-backup-if-mismatch < %s" % os.path.join(d, "patch.diff"), cwd=SR)
    if rc != 0:
        print("%s: patch does not apply any more: %s" % (s, o[-300:])); sys.stdout.flush()
        continue
    results = {}
    for c in checks:
        t0 = time.time()
        rc_c, o_c = sh("GOLDMARK_DIR=%s ./check %s --tier %s" % (SR, c, tier), cwd=V)
        lines = [l for l in o_c.splitlines() if l.startswith(("VIOLATION", "KNOWN-FINDING", "check "))]
        verdict = "caught" if any(l.startswith("VIOLATION") and "no-failing-input-found" not in l for l in lines) else \
                  ("tie-broken" if any("no-failing-input-found" in l for l in lines) else ("missed" if rc_c == 0 else "error"))
        clause = None
        for l in lines:
            mm = re.match(r"VIOLATION property=\S+ replay=(\S+)", l)
            if mm and os.path.exists(mm.group(1)):
                rp = json.load(open(mm.group(1)))
                clause = rp.get("clause") or [b.get("kind") + ": " + b.get("what", "")[:200] for b in rp.get("broken", [])]
                break
        results[c] = {"verdict": verdict, "rc": rc_c, "clause": clause, "seconds": round(time.time() - t0),
                      "focus": any("focus pass" in l for l in o_c.splitlines())}
        print("%s check %s: %s rc=%d %s (%.0fs)" % (s, c, verdict, rc_c, clause, time.time() - t0)); sys.stdout.flush()
        if verdict == "error":
            print(o_c[-1500:])
    sh("git checkout -- . && git clean -fdq", cwd=SR)
    if meta.get("checks") != results:
        meta.setdefault("checks_before", []).append(meta.get("checks"))
    meta["checks"] = results
    json.dump(meta, open(os.path.join(d, "meta.json"), "w"), indent=1)
if "--keep" not in sys.argv:
    sh("git -C /repo worktree remove --force %s; git -C /repo worktree prune" % SR)
    shutil.rmtree(copy, ignore_errors=True)
print("done")
