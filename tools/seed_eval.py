#!/usr/bin/env python3
"""tools/seed_eval.py <Cxx> <k> [--checks Cxx,Cyy] [--tier quick]
1. confirms the seeded change in the seeding agent's scratch worktree /tmp/mut_<Cxx>: applies patch<k>.diff, builds, runs
   goldmark's suite (must pass), runs the demonstration (must fail), reverts, runs it again (must pass);
2. applies the patch to /repo, runs the named checks (default: the target property), restores /repo;
3. stores patch + demo + meta.json under /verif/seeded/<Cxx>-<k>/ ."""
import subprocess, sys, os, json, shutil, re, time
ROOT = os.path.dirname(os.path.dirname(os.path.abspath(__file__)))
pid, k = sys.argv[1], sys.argv[2]
checks = [pid]
tier = "quick"
if "--checks" in sys.argv:
    checks = sys.argv[sys.argv.index("--checks") + 1].split(",")
if "--tier" in sys.argv:
    tier = sys.argv[sys.argv.index("--tier") + 1]
wt, out = "/tmp/mut_%s" % pid, "/tmp/mut_%s_out" % pid
patch = os.path.join(out, "patch%s.diff" % k)
ENV = dict(os.environ, GOFLAGS="-mod=mod", GOPROXY="off", GOSUMDB="off", GOTOOLCHAIN="local")
def sh(cmd, cwd=None, timeout=3600):
    p = subprocess.run(cmd, shell=True, cwd=cwd, env=ENV, stdout=subprocess.PIPE, stderr=subprocess.STDOUT, text=True, timeout=timeout)
    return p.returncode, p.stdout
meta = {"property": pid, "seed": int(k), "patch": "patch.diff"}
# --- 1. confirm
sh("git checkout -- . && git clean -fdq", cwd=wt)
rc, o = sh("git apply %s" % patch, cwd=wt)
if rc != 0:
    print("patch does not apply in", wt, o); sys.exit(2)
rc_b, o_b = sh("go build ./...", cwd=wt)
rc_s, o_s = sh("go test -vet=off -count=1 ./... 2>&1 | grep -v 'no test files'", cwd=wt)
suite_ok = rc_b == 0 and "FAIL" not in o_s and "ok" in o_s
demo_dir = os.path.join(out, "demo%s" % k)
demo_test = None
for f in os.listdir(out):
    if re.match(r"demo%s.*_test\.go$" % k, f):
        demo_test = os.path.join(out, f)
def run_demo():
    if os.path.isdir(demo_dir):
        flag = "-race " if pid == "C07" else ""
        return sh("go run %s. 2>&1 | tail -15" % flag, cwd=demo_dir, timeout=1800)
    return (None, "no demo dir")
rc_d1, o_d1 = run_demo()
# go run pipes through tail: detect failure via text 'exit status'
fail_with = ("exit status" in o_d1) or (rc_d1 not in (0, None))
sh("git checkout -- . && git clean -fdq", cwd=wt)
rc_d2, o_d2 = run_demo()
pass_without = ("exit status" not in o_d2) and rc_d2 == 0
print("confirm: build=%s suite_passes=%s demo_fails_with_patch=%s demo_passes_without=%s" % (rc_b == 0, suite_ok, fail_with, pass_without))
meta["confirmed"] = {"builds": rc_b == 0, "suite_passes_with_patch": suite_ok, "demo_fails_with_patch": fail_with, "demo_passes_without_patch": pass_without,
                     "demo_output_with_patch": o_d1[-600:], "commands": ["git apply patch.diff", "go build ./...", "go test -vet=off -count=1 ./...", "cd demo && go run ."]}
# --- 2. run the checks against a scratch worktree of /repo with the patch applied (GOLDMARK_DIR), never /repo itself:
#        package builders run their copies of ./check against /repo concurrently and must not see a seeded change
NOCHECKS = "--no-checks" in sys.argv   # confirm + store only; verdicts come from tools/seed_recheck.py (private copy of /verif)
SR = "/var/tmp/seed_repo"
if NOCHECKS:
    checks = []
if not NOCHECKS and not os.path.isdir(SR):
    sh("git -C /repo worktree prune; git -C /repo worktree add --detach %s HEAD" % SR)
if not NOCHECKS:
    sh("git checkout -q --detach $(git -C /repo rev-parse HEAD) && git checkout -- . && git clean -fdq", cwd=SR)
rc, o = sh("git apply %s" % patch, cwd=SR) if not NOCHECKS else (0, "")
if rc != 0:  # /repo may have gained commits since the seed was written: retry with fuzz
    rc, o = sh("patch -p1 -F3 --no-backup-if-mismatch < %s" % patch, cwd=SR)
results = {}
if rc != 0:
    print("patch does not apply to /repo:", o)
else:
    try:
        for c in checks:
            t0 = time.time()
            rc_c, o_c = sh("GOLDMARK_DIR=%s ./check %s --tier %s" % (SR, c, tier), cwd=ROOT, timeout=4 * 3600)
            lines = [l for l in o_c.splitlines() if l.startswith(("VIOLATION", "KNOWN-FINDING", "check "))]
            verdict = "caught" if any(l.startswith("VIOLATION") and "no-failing-input-found" not in l for l in lines) else \
                      ("tie-broken" if any("no-failing-input-found" in l for l in lines) else ("missed" if rc_c == 0 else "error"))
            clause = None
            for l in lines:
                mm = re.match(r"VIOLATION property=\S+ replay=(\S+)", l)
                if mm and os.path.exists(mm.group(1)):
                    rp = json.load(open(mm.group(1)))
                    clause = rp.get("clause") or [b.get("kind") + ": " + b.get("what", "")[:200] for b in rp.get("broken", [])]
                    detail = (rp.get("detail") or "")[:400]
                    break
            results[c] = {"verdict": verdict, "rc": rc_c, "clause": clause, "seconds": round(time.time() - t0), "focus": any("focus pass" in l for l in o_c.splitlines())}
            print("check %s: %s rc=%d %s (%.0fs)" % (c, verdict, rc_c, clause, time.time() - t0))
            if verdict == "error":
                print(o_c[-1500:])
    finally:
        if not NOCHECKS: sh("git checkout -- . && git clean -fdq", cwd=SR)
        if not NOCHECKS: print("scratch worktree restored:", sh("git status --porcelain", cwd=SR)[1].strip() or "clean")
meta["checks"] = results
# --- 3. store
dst = os.path.join(ROOT, "seeded", "%s-%s" % (pid, k))
os.makedirs(dst, exist_ok=True)
shutil.copy2(patch, os.path.join(dst, "patch.diff"))
if os.path.isdir(demo_dir):
    shutil.copytree(demo_dir, os.path.join(dst, "demo"), dirs_exist_ok=True)
readme = os.path.join(out, "SEEDER_README.md") if os.path.exists(os.path.join(out, "SEEDER_README.md")) else os.path.join(out, "README.md")
if os.path.exists(readme):
    shutil.copy2(readme, os.path.join(dst, "SEEDER_README.md"))
json.dump(meta, open(os.path.join(dst, "meta.json"), "w"), indent=1)
