#!/usr/bin/env python3
"""Regenerates section 7 of DESIGN.md (between PROPS-BEGIN/END) from properties_cfg.py and the Lean property files:
per property its level, what is proved, the tie components, the search, what is trusted."""
import re, os, sys, json
ROOT = os.path.dirname(os.path.dirname(os.path.abspath(__file__)))
sys.path.insert(0, ROOT)
import importlib, properties_cfg
importlib.reload(properties_cfg)
PROPS = properties_cfg.PROPS
titles = {json.loads(l)["id"]: json.loads(l)["title"] for l in open(os.path.join(ROOT, "properties.jsonl"))}
def theorems(module):
    if not module:
        return []
    f = os.path.join(ROOT, "lean", *module.split(".")) + ".lean"
    return re.findall(r"^theorem\s+(\S+)", open(f).read(), re.M)
out = []
for pid in sorted(titles):
    out.append("### %s — %s" % (pid, titles[pid]))
    if pid not in PROPS:
        out.append("\nNot claimed yet; see MANIFEST.json `not_applicable` for the reason.\n")
        continue
    c = PROPS[pid]
    comps = [x["name"] + (" (race-detector build)" if x.get("race") else "") if isinstance(x, dict) else x for x in c["components"]]
    tie = c.get("tie")
    th = theorems(c.get("module"))
    out.append("")
    out.append("*Level claimed:* **%s**. *Technique:* %s." % (c["level"], c["technique"]))
    out.append("")
    out.append("*Claim.* " + c["claim"])
    out.append("")
    out.append("*Lean obligations* (`%s`, %d theorems, each audited with `#print axioms`): %s." % (c.get("module"), len(th), ", ".join("`%s`" % t for t in th)))
    out.append("")
    out.append("*Harness components run by the check:* %s%s. See `notes/status_*.md` for the generators' scopes; the measured coverage of each run is in `evidence/%s.json`." % (
        ", ".join("`%s`" % x for x in comps), ("; model/implementation disagreements that break THIS property's tie: " + ", ".join("`%s`" % t for t in tie)) if tie else "", pid))
    out.append("")
    out.append("*What a run explores.* " + c["explanation"])
    out.append("")
    out.append("*Trusted / assumed.* " + c["note"] + (" Assumptions: " + "; ".join(c.get("assumptions", [])) + "." if c.get("assumptions") else ""))
    out.append("")
text = "\n".join(out)
p = os.path.join(ROOT, "DESIGN.md")
s = open(p).read()
b, e = "<!-- PROPS-BEGIN -->", "<!-- PROPS-END -->"
s = s[:s.index(b) + len(b)] + "\n" + text + "\n" + s[s.index(e):]
open(p, "w").write(s)
print("section 7 regenerated for", len(titles), "properties")
