#!/usr/bin/env python3
"""tools/fix_driver_clash.py <NewDriverModule> <prefix>: builds gmdriver; while the build fails with a name clash between
Driver/<New>.lean and an existing driver file, renames the clashing identifier in the NEW file (prefix + Name)."""
import re, subprocess, sys, os
ROOT = os.path.dirname(os.path.dirname(os.path.abspath(__file__)))
mod, prefix = sys.argv[1], sys.argv[2]
f = os.path.join(ROOT, "lean/Driver/%s.lean" % mod)
for _ in range(40):
    p = subprocess.run(["lake", "build", "gmdriver"], cwd=os.path.join(ROOT, "lean"), stdout=subprocess.PIPE, stderr=subprocess.STDOUT, text=True)
    m = re.search(r"environment already contains 'Driver\.(\w+)' from Driver\.(\w+)", p.stdout)
    if not m:
        errs = [l for l in p.stdout.splitlines() if "error" in l]
        print("build:", "ok" if p.returncode == 0 else "\n".join(errs[:10]))
        break
    name = m.group(1)
    s = open(f).read()
    new = prefix + name[0].upper() + name[1:]
    s2 = re.sub(r"(?<![\w.])%s(?![\w])" % re.escape(name), new, s)
    print("rename", name, "->", new, "in", mod, "(%d occurrences)" % (len(re.findall(r"(?<![\w.])%s(?![\w])" % re.escape(name), s))))
    if s2 == s:
        print("cannot rename; clash is with", m.group(2)); break
    open(f, "w").write(s2)
