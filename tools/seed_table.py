#!/usr/bin/env python3
"""Regenerates the seeded-changes table of DESIGN.md (between the SEEDED-BEGIN/END markers) from seeded/*/meta.json."""
import json, glob, os, re
ROOT = os.path.dirname(os.path.dirname(os.path.abspath(__file__)))
rows = []
for d in sorted(glob.glob(os.path.join(ROOT, "seeded", "C*-*"))):
    m = json.load(open(os.path.join(d, "meta.json")))
    name = os.path.basename(d)
    what = ""
    rd = os.path.join(d, "SEEDER_README.md")
    patch = open(os.path.join(d, "patch.diff")).read()
    files = sorted(set(re.findall(r"^\+\+\+ b/(\S+)", patch, re.M)))
    conf = m.get("confirmed", {})
    ok = all(conf.get(k) for k in ("builds", "suite_passes_with_patch", "demo_fails_with_patch", "demo_passes_without_patch"))
    verdicts = "; ".join("%s: %s%s" % (c, r["verdict"], (" (" + (r["clause"] if isinstance(r["clause"], str) else "tie/obligation") + ")") if r.get("clause") else "") for c, r in m.get("checks", {}).items())
    note = m.get("note", "")
    rows.append("| %s | %s | %s | %s | %s |" % (name, ", ".join(files), "yes" if ok else "NO", verdicts, note))
table = "| seed | files touched | confirmed (builds, suite passes, demo fails with / passes without) | verdict of the checks run (final state of the machinery) | note |\n|---|---|---|---|---|\n" + "\n".join(rows)
p = os.path.join(ROOT, "DESIGN.md")
s = open(p).read()
b, e = "<!-- SEEDED-BEGIN -->", "<!-- SEEDED-END -->"
if b in s:
    s = s[:s.index(b) + len(b)] + "\n" + table + "\n" + s[s.index(e):]
    open(p, "w").write(s)
print(table[:3000])
