#!/usr/bin/env python3
"""Port builder tnopanic's totality proof of the block driver with paragraph transformers (lean/GM/Proof/BlocksTNP*.lean,
BlocksT.lean: `runT`) to the MONITORED driver `runV` of package headingids (lean/GM/Proof/ConvertHV.lean: `runT` with the
read-only `valueCheck` behind the Close of the two heading parsers).

Run from `lean/`:   python3 ../tools/port_blocks_v.py all
It (re)generates lean/GM/Proof/BlocksVT.lean and lean/GM/Proof/BlocksVNP{1,2,3,6,7,8,10,11,12,20,21,22,23,24,25,26}.lean:
  * driver functions closeLoopT … runT, closeListT  ->  closeLoopV … runV, closeListV
  * namespaces GM.Blocks.T / L.T / L.B / L.G / TR  ->  GM.Blocks.TV / L.TV / L.BV / L.GV / TRV; BlocksT's lemmas -> GM.Blocks.V
  * the FOUR places where the proof uses the contract of `bpClose` inside the driver (BlocksTNP1, 3, 22: closeList step;
    BlocksTNP23: RequireParagraph) get `bpCloseV_okl` (GM.Proof.BlocksVPre): same contract for `bpCloseV`, because the monitor is a
    no-op under `NodesOK`.  A "MISSING" line on stdout means an anchor text of such an edit was not found (the source changed).
Everything else is copied verbatim.  Do not edit the generated files; edit this script or the sources.
"""
import re,sys
DRV=["closeLoopT","closeBlocksT","requireParaT","tryParsersT","retryStepT","openBlocksLoopT","openBlocksT","lineLoopT","linesLoopT","blocksLoopT","parseBlocksT","runT","closeListT"]
def ren(s):
    for n in DRV:
        s=re.sub(r'\b'+n, n[:-1]+'V', s)
    s=s.replace("OpenOKT","OpenOKV").replace("openOKT","openOKV")
    return s
def port_T():
    s=open('GM/Proof/BlocksT.lean').read()
    a=s.index("/-- a paragraph transformer that keeps every invariant")
    b=s.index("section driver")
    s=s[:a]+s[b:]
    a=s.index("/-- what the transformed-paragraph retry may still cost -/")
    b=s.index("theorem retryStepT_ok")
    s=s[:a]+s[b:]
    s=ren(s)
    s=s.replace("import GM.Proof.BlocksRetry\nimport GM.Model.Blocks.DriverT\n","import GM.Proof.BlocksT\nimport GM.Proof.BlocksVPre\n")
    s=s.replace("namespace GM.Blocks\n","namespace GM.Blocks.V\n").replace("end GM.Blocks\n","end GM.Blocks.V\n")
    s=s.replace("  have := bpClose_pres h\n","  have := bpCloseV_pres h\n")
    open('GM/Proof/BlocksVT.lean','w').write('-- GENERATED from BlocksT.lean by tools/port_blocks_v.py (package headingids): the same proofs for the monitored driver runV. Do not edit.\n'+s)

CHAIN=[1,2,3,6,7,8,10,11,12,20,21,22,23,24,25,26]
def port_chain():
    for k in CHAIN:
        s=open(f'GM/Proof/BlocksTNP{k}.lean').read()
        s=ren(s)
        for j in CHAIN:
            s=re.sub(r'^import GM\.Proof\.BlocksTNP%d$'%j, 'import GM.Proof.BlocksVNP%d'%j, s, flags=re.M)
        s=re.sub(r'^import GM\.Proof\.BlocksT$', 'import GM.Proof.BlocksVT', s, flags=re.M)
        if k==1:
            s=s.replace("import GM.Proof.BlocksDriver\n","import GM.Proof.BlocksDriver\nimport GM.Proof.BlocksVPre\n",1)
        # namespaces
        for a,b in [("GM.Blocks.L.T","GM.Blocks.L.TV"),("GM.Blocks.L.B","GM.Blocks.L.BV"),("GM.Blocks.L.G","GM.Blocks.L.GV"),("GM.Blocks.TR","GM.Blocks.TRV"),("GM.Blocks.T","GM.Blocks.TV")]:
            s=re.sub(r'(?<![\w.])'+re.escape(a)+r'(?![\w])', b, s)
        s=re.sub(r'\bL\.T\.', 'L.TV.', s)
        s=re.sub(r'\bL\.B\.', 'L.BV.', s)
        s=re.sub(r'\bL\.G\.', 'L.GV.', s)
        s=re.sub(r'(?<![\w.])T\.(bar_has_trigger|runL)\b', r'TV.\1', s)
        # inside V namespaces PTsOK etc resolve to GM.Blocks ones; runV_noLoop lives in GM.Blocks.V
        s=s.replace("runV_noLoop","GM.Blocks.V.runV_noLoop")
        open(f'GM/Proof/BlocksVNP{k}.lean','w').write(f'-- GENERATED from BlocksTNP{k}.lean by tools/port_blocks_v.py (package headingids): the same proofs for the monitored driver runV. Do not edit.\n'+s)

def fix(k, pairs):
    p=f'GM/Proof/BlocksVNP{k}.lean'
    s=open(p).read()
    for a,b in pairs:
        if a not in s:
            print("MISSING in",k,":",a[:60])
        s=s.replace(a,b)
    open(p,'w').write(s)
def fixes():
    fix(1,[("    if (← getNode b.node).parent.isSome then bpClose b.bp b.node","    if (← getNode b.node).parent.isSome then bpCloseV b.bp b.node"),
           ("            if (← getNode top.node).parent.isSome then bpClose top.bp top.node","            if (← getNode top.node).parent.isSome then bpCloseV top.bp top.node"),
           ("        have hc := sp.close top.bp hAtop top.node s1 (by rw [hr]; exact hsrc) hn1 hk1 htop1\n",
            "        have hc := sp.close top.bp hAtop top.node s1 (by rw [hr]; exact hsrc) hn1 hk1 htop1\n        have hc := bpCloseV_okl (src := src) (fun _ s' h => ⟨h.nodes, by rw [h.r, hr]; exact hsrc⟩) hc\n")])
def fixes3():
    fix(3,[("            if (← getNode top.node).parent.isSome then bpClose top.bp top.node","            if (← getNode top.node).parent.isSome then bpCloseV top.bp top.node"),
           ("        have hc' : OKL (fun (_ : Unit) s2 => ClosePost src top.bp top.node s1 s2 ∧ TF s1 s2 ∧ PLTf s2)\n            (bpClose top.bp top.node s1) := by",
            "        have hc'0 : OKL (fun (_ : Unit) s2 => ClosePost src top.bp top.node s1 s2 ∧ TF s1 s2 ∧ PLTf s2)\n            (bpClose top.bp top.node s1) := by"),
           ("          · exact .inr e2\n        refine OKE.bind (OKE.of_okl hc') (fun _ s2 h2 => rest s2 ?_)",
            "          · exact .inr e2\n        have hc' := bpCloseV_okl (src := src) (fun _ s' h => ⟨h.1.nodes, by rw [h.1.r, hr]; exact hsrc⟩) hc'0\n        refine OKE.bind (OKE.of_okl hc') (fun _ s2 h2 => rest s2 ?_)")])
def fixes22():
    fix(22,[("            if (← getNode top.node).parent.isSome then bpClose top.bp top.node","            if (← getNode top.node).parent.isSome then bpCloseV top.bp top.node"),
            ("          h1.inv.plt htm1\n        refine OKE.bind (OKE.of_okl hc) (fun _ s2 h2 => ?_)",
             "          h1.inv.plt htm1\n        have hc := bpCloseV_okl (src := src) (fun _ s' h => ⟨h.1.nodes, by rw [h.1.r, h1.r]; exact hsrc⟩) hc\n        refine OKE.bind (OKE.of_okl hc) (fun _ s2 h2 => ?_)")])
def fixes23():
    fix(23,[("          (fun h => by rw [hlbbp] at h; cases h)\n        refine OKE.bind (OKE.of_okl hcl) (fun _ s2 h2 => ?_)",
             "          (fun h => by rw [hlbbp] at h; cases h)\n        have hcl := bpCloseV_okl (src := src) (fun _ s' h => ⟨h.1.nodes, by rw [h.1.r]; exact hri.source⟩) hcl\n        refine OKE.bind (OKE.of_okl hcl) (fun _ s2 h2 => ?_)")])
if __name__=="__main__":
    port_T()
    port_chain()
    fixes23()
    fixes22()
    fixes3()
    fixes()
