#!/usr/bin/env python3
"""tools/seedrun.py <patch.diff> <Cxx> [--all] [--tier quick|thorough]
Applies a seeded change to /repo, runs ./check for the target property (and, with --all, for every claimed
property), prints the verdict lines, and ALWAYS restores /repo (git checkout -- . ; git clean for new files)."""
import subprocess, sys, os, json, re, time
ROOT = os.path.dirname(os.path.dirname(os.path.abspath(__file__)))
patch, pid = sys.argv[1], sys.argv[2]
tier = "quick"
if "--tier" in sys.argv:
    tier = sys.argv[sys.argv.index("--tier") + 1]
targets = [pid]
if "--all" in sys.argv:
    m = json.load(open(os.path.join(ROOT, "MANIFEST.json")))
    targets = [pid] + [c["property_id"] for c in m["checks"] if c["property_id"] != pid]
def sh(cmd, **kw):
    return subprocess.run(cmd, shell=True, stdout=subprocess.PIPE, stderr=subprocess.STDOUT, text=True, **kw)
st = sh("git -C /repo status --porcelain")
if st.stdout.strip():
    print("refusing: /repo is not clean:\n" + st.stdout); sys.exit(2)
r = sh("git -C /repo apply %s" % patch)
if r.returncode != 0:
    print("patch does not apply:\n" + r.stdout); sys.exit(2)
try:
    b = sh("cd /repo && GOFLAGS=-mod=mod GOPROXY=off GOSUMDB=off GOTOOLCHAIN=local go build ./... 2>&1 | tail -5")
    print("build:", "ok" if not b.stdout.strip() else b.stdout)
    for t in targets:
        t0 = time.time()
        c = sh("cd %s && ./check %s --tier %s" % (ROOT, t, tier))
        lines = [l for l in c.stdout.splitlines() if l.startswith(("VIOLATION", "KNOWN-FINDING", "check "))]
        print("== %s rc=%d %.0fs" % (t, c.returncode, time.time() - t0))
        for l in lines[:8]:
            print("   " + l)
        for l in lines:
            mm = re.match(r"VIOLATION property=\S+ replay=(\S+)", l)
            if mm and os.path.exists(mm.group(1)):
                rp = json.load(open(mm.group(1)))
                desc = rp.get("clause") or [b.get("kind") + ": " + b.get("what", "")[:160] for b in rp.get("broken", [])]
                print("      ->", desc, (rp.get("detail") or "")[:300].replace("\n", " "))
                break
finally:
    sh("git -C /repo checkout -- . && git -C /repo clean -fdq")
    print("restored:", sh("git -C /repo status --porcelain").stdout.strip() or "clean")
