#!/usr/bin/env python3
"""tools/reexport.py <Cxx> <GM.Props.Module> name[=newname] ...   — adds `import` + re-export theorems to lean/GM/Props/<Cxx>.lean
(idempotent). The doc comment of each re-export is copied from the source theorem's doc comment when there is one."""
import sys, re, os
ROOT = os.path.dirname(os.path.dirname(os.path.abspath(__file__)))
cxx, mod, names = sys.argv[1], sys.argv[2], sys.argv[3:]
p = os.path.join(ROOT, "lean/GM/Props/%s.lean" % cxx)
s = open(p).read()
src = open(os.path.join(ROOT, "lean", mod.replace(".", "/") + ".lean")).read()
imp = "import " + mod
if imp not in s:
    lines = s.split("\n")
    idx = max(i for i, l in enumerate(lines) if l.startswith("import "))
    lines.insert(idx + 1, imp)
    s = "\n".join(lines)
end = "end GM.Props.%s" % cxx
add = ""
for nm in names:
    old, new = (nm.split("=") + [nm])[:2] if "=" in nm else (nm, nm)
    if re.search(r"^theorem %s\b" % re.escape(new), s, re.M):
        continue
    m = re.search(r"(/--(?:(?!-/).)*-/)\s*\n(?:@\[[^\]]*\]\s*\n)?theorem %s\b" % re.escape(old), src, re.S)
    doc = m.group(1) if m else "/-- see `%s.%s` -/" % (mod, old)
    doc = doc.replace("/--", "/-- (re-export of `%s.%s`)" % (mod, old), 1)
    add += "%s\ntheorem %s : type_of%% @%s.%s := @%s.%s\n\n" % (doc, new, mod, old, mod, old)
assert end in s, "no end line"
s = s.replace(end, add + end)
open(p, "w").write(s)
print("added to", cxx, ":", len(add.split("theorem ")) - 1)
