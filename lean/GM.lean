-- This module serves as the root of the `GM` library.
-- Import modules here that should be built as part of the library.
import GM.Basic
