import GM.Model.Basic
import GM.Model.ByteClass
import GM.Model.Utf8
import GM.Model.Util
import GM.Model.Table
