import Driver.Common
import GM.Model.Filter
namespace Driver
open GM GM.Filter

def keyList (s : String) : Option (List Bytes) :=
  if s == "_" then some [] else (s.splitOn ",").mapM bytesOfHex

def parseFilterOp (s : String) : Option Op :=
  match s.splitOn ":" with
  | ["n", ks] => (keyList ks).map Op.new
  | ["N", str] => (bytesOfHex str).map Op.newString
  | ["a", f, k] => do let f ← f.toNat?; let k ← bytesOfHex k; pure (Op.add f k)
  | ["e", f, ks] => do let f ← f.toNat?; let ks ← keyList ks; pure (Op.extend f ks)
  | ["s", f, str] => do let f ← f.toNat?; let b ← bytesOfHex str; pure (Op.extendString f b)
  | _ => none

def handleFilter : List String → String
  | ["run", univ, prog] =>
    match keyList univ, (prog.splitOn ";").mapM parseFilterOp with
    | some us, some ops =>
      let h := run ops
      String.intercalate "|" ((List.range h.filts.length).map fun f =>
        String.ofList (us.map fun u => if contains h f u then '1' else '0'))
    | _, _ => bad
  | _ => bad

end Driver
