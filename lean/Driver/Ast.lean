/-
  Driver.Ast — protocol handlers of components `ast` and `walk` (property C13).

  ast run <N> <cmp> <ops>
      N    pool size (node ids are single characters: 0..9, then A..Z for 10..35)
      cmp  `-` (compare ids) or N*N chars over l/e/g, row major: cmp(a,b) = table[a*N+b] (l=-1, e=0, g=1)
      ops  `-` (none) or `;`-separated tokens  a<p><c> | b<p><v><c> | f<p><v><c> | r<p><v><c> | d<p><c> | x<p> | s<p>
           (p digit; v, c digit or `n` = nil)
      →    the observable state after EACH op, joined by `|`; a Go panic ends the run with the element
           `panic:nil`, fuel exhaustion with `fuel`.
      state = nodes joined by `;`, node = par,nx,pv,cnt,has,fwd,bwd (`-` = nil; fwd/bwd = children walked
           from FirstChild by NextSibling / from LastChild by PreviousSibling, at most N+1 nodes, then `*`)

  walk run <N> <ops> <root> <script>
      script: 2N chars, position 2*id + (0 entering | 1 leaving): c k s z = WalkContinue, WalkSkipChildren,
           WalkStop, WalkStatus(0) with nil error; upper case = same status with an error
      →    visitor calls `<id>e` / `<id>l` concatenated, `:`, `E` if Walk returned an error else `-`
-/
import Driver.Common
import GM.Model.AstHeap
namespace Driver
open GM GM.Spec GM.AstHeap
open GM.Spec.Forest (Op)

/-- node ids: `0`..`9` then `A`..`Z` (ids 10..35) — one character per id, never `n` (nil) -/
def astDigit? (c : Char) : Option Nat :=
  if c.isDigit then some (c.toNat - 48) else if c.isUpper then some (c.toNat - 65 + 10) else none
def astIdStr (n : Nat) : String :=
  if n < 10 then toString n else if n < 36 then String.singleton (Char.ofNat (65 + (n - 10))) else "?" ++ toString n
def astRef? (c : Char) : Option (Option Nat) := if c == 'n' then some none else (astDigit? c).map some

def astParseCmp (n : Nat) (s : String) : Nat → Nat → Int :=
  if s == "-" then fun a b => if a < b then -1 else if a = b then 0 else 1
  else
    let t := s.toList.toArray
    fun a b => match t[a * n + b]? with
      | some 'l' => -1
      | some 'g' => 1
      | _ => 0

def parseAstOp (cmp : Nat → Nat → Int) (s : String) : Option Op :=
  match s.toList with
  | ['a', p, c] => do let p ← astDigit? p; let c ← astRef? c; pure (.append p c)
  | ['b', p, v, c] => do let p ← astDigit? p; let v ← astRef? v; let c ← astRef? c; pure (.insertBefore p v c)
  | ['f', p, v, c] => do let p ← astDigit? p; let v ← astRef? v; let c ← astRef? c; pure (.insertAfter p v c)
  | ['r', p, v, c] => do let p ← astDigit? p; let v ← astRef? v; let c ← astRef? c; pure (.replace p v c)
  | ['d', p, c] => do let p ← astDigit? p; let c ← astRef? c; pure (.remove p c)
  | ['x', p] => do let p ← astDigit? p; pure (.removeChildren p)
  | ['s', p] => do let p ← astDigit? p; pure (.sort p cmp)
  | _ => none

def parseAstOps (cmp : Nat → Nat → Int) (s : String) : Option (List Op) :=
  if s == "_" || s == "-" then some [] else (s.splitOn ";").mapM (parseAstOp cmp)

def astOptDigit : Option Nat → String
  | some n => astIdStr n
  | none => "-"

def astChainStr (nx : Nat → Option Nat) : Nat → Option Nat → String
  | _, none => ""
  | 0, some _ => "*"
  | k + 1, some c => astIdStr c ++ astChainStr nx k (nx c)

def astDumpNode (n : Nat) (h : Heap) (i : Nat) : String :=
  String.intercalate "," [astOptDigit (parentNode h i), astOptDigit (nextSibling h i), astOptDigit (previousSibling h i),
    toString (childCount h i), boolStr (hasChildren h i),
    astChainStr h.next (n + 1) (firstChild h i), astChainStr h.prev (n + 1) (lastChild h i)]

def astDumpHeap (n : Nat) (h : Heap) : String :=
  String.intercalate ";" ((List.range n).map (astDumpNode n h))

def astFaultStr : Fault → String
  | .nilDeref => "panic:nil"
  | .fuel => "fuel"

def handleAst : List String → String
  | ["run", n, cmp, ops] =>
    match n.toNat? with
    | none => bad
    | some n =>
      match parseAstOps (astParseCmp n cmp) ops with
      | none => bad
      | some ops =>
        let (hs, flt) := runTrace (2 * n + 2) Heap.empty ops
        let parts := hs.map (astDumpHeap n) ++ (match flt with | some e => [astFaultStr e] | none => [])
        String.intercalate "|" parts
  | _ => bad

def walkParseStatus (c : Char) : Status × Bool :=
  match c with
  | 'c' => (.cont, false) | 'k' => (.skip, false) | 's' => (.stop, false) | 'z' => (.other, false)
  | 'C' => (.cont, true) | 'K' => (.skip, true) | 'S' => (.stop, true) | 'Z' => (.other, true)
  | _ => (.cont, false)

def walkParseScript (s : String) : Script :=
  let t := s.toList.toArray
  fun n entering => match t[2 * n + (if entering then 0 else 1)]? with
    | some c => walkParseStatus c
    | none => (.cont, false)

def walkEventStr (e : Event) : String := astIdStr e.1 ++ (if e.2 then "e" else "l")

def handleWalk : List String → String
  | ["run", n, ops, root, script] =>
    match n.toNat?, (match root.toList with | [c] => astDigit? c | _ => none) with
    | some n, some root =>
      match parseAstOps (astParseCmp n "-") ops with
      | none => bad
      | some ops =>
        match run (2 * n + 2) Heap.empty ops with
        | .error e => astFaultStr e
        | .ok h =>
          match walk (2 * n + 2) h (walkParseScript script) root with
          | .error e => astFaultStr e
          | .ok r => String.join (r.events.map walkEventStr) ++ ":" ++ (if r.err then "E" else "-")
    | _, _ => bad
  | _ => bad

end Driver
