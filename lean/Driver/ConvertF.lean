import Driver.Common
import Driver.Inlines
import Driver.Convert
import Driver.Footnote
import GM.Model.ConvertF
/-!
  `convertf html <hex id prefix | -> <hex source> <unicode classes>` → `g<0|1> <r0> <r1>` | `g<0|1> err:<outcome>`:
  the model GM.ConvertF.convertF true of `goldmark.New(WithExtensions(extension.Footnote), WithRendererOptions(…)).Convert`
  (`-`: `extension.Footnote`; a prefix: `extension.NewFootnote(WithFootnoteIDPrefix(prefix))`) for two renderer option sets:
  `r0` = default, `r1` = Unsafe + XHTML + HardWraps (lower-case hex; `=0` when identical to `r0`). `g0`: the guarded
  composition answered; `g1`: a run-time check fired and the answer is the unguarded composition's (as in `convert html`).
  `convertf doc <hex id prefix | -> <hex source> <unicode classes>` → `g<0|1> c<0|1> <r0> <r1> <labels> <events>`: html + c16 + abs
  from one run of the model (what the harness component compares).
  `convertf abs <hex source> <unicode classes>` → `<labels> <events>`: the abstraction (GM.ConvertF.absOf) in the protocol form
  of component `footnote` (labels: hex `,`-separated | `_`; events: `<hex label>:<dropped>:<host | -1>`,… | `_`) | `err:<outcome>`.
  `convertf c16 <hex id prefix | -> <hex source> <unicode classes>` → `ok` when the tree `convertF` renders shows exactly the
  ids / hrefs / numbers of GM.Footnote.render on that abstraction (GM.ConvertF.treeShowsAbsB) and that output satisfies
  GM.Spec.Footnote.Consistent; else `tree-differs-from-abstraction` | `not-consistent`.
  `convertf tree <hex source>` → the block tree dump of the block phase (Footnote / FootnoteList print as Blockquote).
-/
namespace Driver.ConvF
open GM GM.Text GM.Convert GM.ConvertF Driver Driver.Conv

def cfOpts : List ROpts := [{}, { unsafe_ := true, xhtml := true, hardWraps := true }]

def cfRenderAll (pre : Option Bytes) (t : GM.Node) : String :=
  let rs := cfOpts.map fun o => renderDocF true pre o t
  match rs.mapM (fun r => match r with | .ok b => some b | .error _ => none) with
  | some bs => " ".intercalate (dedup [] bs)
  | none =>
    match rs.findSome? (fun r => match r with | .error e => some e | .ok _ => none) with
    | some e => "err:" ++ e.str
    | none => "err:?"

def cfHtml (pre : Option Bytes) (uc : List (Nat × (Bool × Bool))) (src : Bytes) : String :=
  match parseDocF true true uc src with
  | .ok t => "g0 " ++ cfRenderAll pre t
  | .error e =>
    if isGuardErr e then
      match parseDocF true false uc src with
      | .ok t => "g1 " ++ cfRenderAll pre t
      | .error e' => "g1 err:" ++ e'.str
    else "g0 err:" ++ e.str

def cfEvent (e : GM.Footnote.Event) : String :=
  s!"{hexOfBytes e.label}:{if e.dropped then 1 else 0}:{match e.host with | some h => toString h | none => "-1"}"

def cfAbsStr (labels : List Bytes) (evs : List GM.Footnote.Event) : String :=
  (if labels.isEmpty then "_" else ",".intercalate (labels.map hexOfBytes)) ++ " " ++
  (if evs.isEmpty then "_" else ",".intercalate (evs.map cfEvent))

def cfAbs (uc : List (Nat × (Bool × Bool))) (src : Bytes) : String :=
  match absOf true true uc src with
  | .ok (ls, es) => cfAbsStr ls es
  | .error e =>
    if isGuardErr e then
      match absOf true false uc src with
      | .ok (ls, es) => cfAbsStr ls es
      | .error e' => "err:" ++ e'.str
    else "err:" ++ e.str

def cfC16 (pre : Bytes) (uc : List (Nat × (Bool × Bool))) (src : Bytes) : String :=
  let guard := match parsePhases true true uc src with
    | .ok _ => true
    | .error e => !isGuardErr e
  if !treeShowsAbsB true guard pre uc src then "tree-differs-from-abstraction"
  else
    match absOf true guard uc src with
    | .ok (ls, es) => if decide (GM.Spec.Footnote.Consistent pre ls (es.map (·.label)) (GM.Footnote.render pre ls es)) then "ok" else "not-consistent"
    | .error _ => "ok"

/-- everything about one document from ONE run of the model -/
def cfDocWith (guard : Bool) (g : String) (pre : Option Bytes) (uc : List (Nat × (Bool × Bool))) (src : Bytes) : Except Err String := do
  let (f, st, t0) ← parsePhases true guard uc src
  let labels := labelsOf f st
  let evs := events labels t0
  let t := finishDoc f.list.isSome (GM.Footnote.transform labels evs) t0
  let p := pre.getD []
  let c := shapeOKB f.list.isSome labels t0 && treeOutput p t == absOutput p labels evs &&
    decide (GM.Spec.Footnote.Consistent p labels (evs.map (·.label)) (GM.Footnote.render p labels evs))
  pure (g ++ (if c then "c1 " else "c0 ") ++ cfRenderAll pre t ++ " " ++ cfAbsStr labels evs)

def cfDoc (pre : Option Bytes) (uc : List (Nat × (Bool × Bool))) (src : Bytes) : String :=
  match cfDocWith true "g0 " pre uc src with
  | .ok s => s
  | .error e =>
    if isGuardErr e then
      match cfDocWith false "g1 " pre uc src with
      | .ok s => s
      | .error e' => "g1 err:" ++ e'.str
    else "g0 err:" ++ e.str

def cfPre (s : String) : Option (Option Bytes) :=
  if s == "-" then some none else (bytesOfHex s).map some

end Driver.ConvF

namespace Driver
open GM GM.Convert GM.ConvertF Driver.ConvF

def handleConvertF : List String → String
  | ["html", pre, src, uc] =>
    match cfPre pre, bytesOfHex src, Driver.Inl.ucsTok uc with
    | some pre, some src, some uc => cfHtml pre uc src
    | _, _, _ => bad
  | ["doc", pre, src, uc] =>
    match cfPre pre, bytesOfHex src, Driver.Inl.ucsTok uc with
    | some pre, some src, some uc => cfDoc pre uc src
    | _, _, _ => bad
  | ["abs", src, uc] =>
    match bytesOfHex src, Driver.Inl.ucsTok uc with
    | some src, some uc => cfAbs uc src
    | _, _ => bad
  | ["c16", pre, src, uc] =>
    match cfPre pre, bytesOfHex src, Driver.Inl.ucsTok uc with
    | some pre, some src, some uc => cfC16 (pre.getD []) uc src
    | _, _, _ => bad
  | ["tree", src] =>
    hx src fun src =>
      match blockPhaseF true false src with
      | .ok (f, st) => (GM.Blocks.treeOf st.nodes st.nodes.length 0).str ++ s!" list={repr f.list} refs={f.refs.map fun p => (p.1, hexOfBytes p.2)}"
      | .error e => e.str
  | _ => bad

end Driver
