import Driver.Common
import GM.Model.Table
namespace Driver
open GM GM.Table

def alignCh : Align → String
  | .left => "l" | .right => "r" | .center => "c" | .none => "n"

def alignOfCh : Char → Option Align
  | 'l' => some .left | 'r' => some .right | 'c' => some .center | 'n' => some .none | _ => Option.none

def segStr (s : Seg) : String := s!"{s.start}:{s.stop}:{s.padding}"
def segsStr (l : List Seg) : String := if l.isEmpty then "-" else ",".intercalate (l.map segStr)

def parseSeg (s : String) : Option Seg :=
  match s.splitOn ":" with
  | [a, b, c] => match a.toNat?, b.toNat?, c.toNat? with
    | some a, some b, some c => some { start := a, stop := b, padding := c }
    | _, _, _ => Option.none
  | _ => Option.none

def parseSegs (s : String) : Option (List Seg) :=
  if s == "-" then some [] else (s.splitOn ",").mapM parseSeg

def cellStr (c : Cell) : String :=
  let base := match c.seg with
    | some s => s!"{alignCh c.align}{s.start}:{s.stop}"
    | Option.none => s!"{alignCh c.align}_"
  if c.esc.isEmpty then base else base ++ "e" ++ ".".intercalate (c.esc.map toString)

def rowStr (r : List Cell) : String := ";".intercalate (r.map cellStr)

def resultStr (r : Result) : String :=
  match r.table with
  | Option.none => s!"none para={segsStr r.para}"
  | some t =>
    let rows := if t.rows.isEmpty then "-" else "/".intercalate (t.rows.map rowStr)
    s!"table al={String.join (t.aligns.map alignCh)} para={segsStr r.para} hdr={rowStr t.header} rows={rows}"

def tokStr : Tok → String
  | .tableOpen => "<T" | .tableClose => "T>" | .theadOpen => "<H" | .theadClose => "H>"
  | .tbodyOpen => "<B" | .tbodyClose => "B>" | .trOpen => "<R" | .trClose => "R>"
  | .cellOpen th a => (if th then "<h" else "<d") ++ alignCh a
  | .cellClose th => if th then "h>" else "d>"
  | .content _ => ""

def toksStr (l : List Tok) : String := " ".intercalate ((l.map tokStr).filter (· != ""))

def methodOf : String → Option AlignMethod
  | "style" => some .style | "attr" => some .attribute | "none" => some .nothing | _ => Option.none

def parseNode (s : String) : Option RowNode :=
  match s.toList with
  | 'H' :: cs => (cs.mapM alignOfCh).map fun al => { isHeader := true, cells := al.map fun a => { align := a, seg := Option.none } }
  | 'R' :: cs => (cs.mapM alignOfCh).map fun al => { isHeader := false, cells := al.map fun a => { align := a, seg := Option.none } }
  | _ => Option.none

def withInput (src segs : String) (k : Bytes → List Seg → String) : String :=
  hx src fun b => match parseSegs segs with
    | some l => if l.all (Seg.valid b) then k b l else "bad-seg"
    | Option.none => bad

def handleTable : List String → String
  | ["transform", src, segs] => withInput src segs fun b l => resultStr (transform b l)
  | ["delim", line] => hx line fun b => match parseDelimiter b with
      | some al => String.join (al.map alignCh)
      | Option.none => "none"
  | ["render", src, segs, m] => withInput src segs fun b l => match methodOf m with
      | some m => match (transform b l).table with
        | some t => toksStr (renderSkeleton m t)
        | Option.none => "none"
      | Option.none => bad
  | ["rendernodes", shape, m] => match methodOf m, (if shape == "-" then some [] else (shape.splitOn ".").mapM parseNode) with
      | some m, some ns => toksStr (renderNodes m ns)
      | _, _ => bad
  | _ => bad

end Driver
