import GM.Model.Basic
namespace Driver
open GM

def bad : String := "bad-op"

def hx (s : String) (k : Bytes → String) : String :=
  match bytesOfHex s with
  | some b => k b
  | none => bad

def nat (s : String) (k : Nat → String) : String :=
  match s.toNat? with
  | some n => k n
  | none => bad

def int (s : String) (k : Int → String) : String :=
  match s.toInt? with
  | some n => k n
  | none => bad

def boolStr (b : Bool) : String := if b then "1" else "0"
def optNat : Option Nat → String
  | some n => toString n
  | none => "-1"

end Driver
