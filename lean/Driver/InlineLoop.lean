import Driver.Common
import GM.Model.InlineLoop
namespace Driver
open GM GM.InlineLoop

/-! Component `inlineloop`.
    `inlineloop run <escapedSpace 0|1> <src hex> <segs> <parsers>`
      segs: `start-stop,start-stop…` or `_`;
      parsers (in priority order): `;`-separated `<id>:<trigger hex>:<script>`, script `,`-separated
      `<line>.<pos>.<d|a>.<n>` (d = decline after moving n bytes, a = accept n bytes; the script is keyed by the
      absolute `pos.Start` alone, `<line>` is ignored), `_` = empty; any position not listed declines without
      moving. `_` = no parsers. `<segs>` may be several blocks separated by `/` (each run on its own).
    answer: `<children>|<calls>|<status>`, children `T<start>.<stop>.<soft><hard>` / `N<id>`,
      calls `<id>@<line>.<pos>`, status `done` | `panic:<kind>` | `fuel`.
    `inlineloop classify <line hex>` → `<lineLength>.<hard><soft><visible>` -/

namespace InlineLoopDrv

def parseSegs (s : String) : Option (List Seg) :=
  if s == "_" then some [] else (s.splitOn ",").mapM fun t =>
    match t.splitOn "-" with
    | [a, b] => do pure ⟨← a.toNat?, ← b.toNat?⟩
    | _ => none

def parseEntry (t : String) : Option (Nat × Nat × Res) :=
  match t.splitOn "." with
  | [l, p, k, n] => do
    let l ← l.toNat?; let p ← p.toNat?; let n ← n.toNat?
    if k == "a" then pure (l, p, Res.accept n 0) else if k == "d" then pure (l, p, Res.decline n) else none
  | _ => none

def parseParser (s : String) : Option Parser :=
  match s.splitOn ":" with
  | [id, trig, sc] => do
    let id ← id.toNat?
    let trig ← bytesOfHex trig
    let ents ← if sc == "_" then some [] else (sc.splitOn ",").mapM parseEntry
    pure ⟨id, trig, fun _ p =>
      match ents.find? (fun e => e.2.1 == p) with
      | some (_, _, .accept n _) => .accept n id
      | some (_, _, r) => r
      | none => .decline 0⟩
  | _ => none

def parseParsers (s : String) : Option (List Parser) :=
  if s == "_" then some [] else (s.splitOn ";").mapM parseParser

def showChild : Child → String
  | .text a b s h => s!"T{a}.{b}.{boolStr s}{boolStr h}"
  | .node id => s!"N{id}"

def showOut (o : Out) : String :=
  if let .panic k _ := o then "panic:" ++ k else
  let st := o.st
  let kids := String.intercalate "," (st.kids.reverse.map showChild)
  let calls := String.intercalate "," (st.log.reverse.map fun c => s!"{c.id}@{c.line}.{c.pos}")
  let status := match o with
    | .done _ => "done"
    | .panic k _ => "panic:" ++ k
    | .fuelOut _ => "fuel"
  s!"{kids}|{calls}|{status}"

end InlineLoopDrv
open InlineLoopDrv

def handleInlineLoop : List String → String
  | ["run", esc, src, blocks, ps] =>
    match bytesOfHex src, (blocks.splitOn "/").mapM parseSegs, parseParsers ps with
    | some src, some blocks, some ps =>
      let outs := blocks.map fun segs => showOut (run ⟨ps, esc == "1"⟩ ⟨src, segs⟩)
      match outs.find? (·.startsWith "panic:") with
      | some p => p
      | none => String.intercalate "/" outs
    | _, _, _ => bad
  | ["classify", line] =>
    hx line fun l =>
      if l.isEmpty then "panic:index" else
      let (n, f) := classify l
      s!"{n}.{boolStr f.hard}{boolStr f.soft}{boolStr f.visible}"
  | _ => bad

end Driver
