import Driver.Common
import GM.Spec.Vocab
import GM.Spec.Url
import GM.Model.Util
namespace Driver.TokD
open GM GM.Spec Driver

def tokStr : Tok → String
  | .startTag n as sc => "<" ++ hexOfBytes n ++ String.join (as.map fun a => " " ++ hexOfBytes a.1 ++ "=" ++ hexOfBytes a.2) ++ (if sc then "/" else "") ++ ">"
  | .endTag n => "</" ++ hexOfBytes n ++ ">"
  | .text b => "T" ++ hexOfBytes b
  | .comment => "C"

end Driver.TokD

namespace Driver
open GM GM.Spec Driver.TokD

def handleTok : List String → String
  | ["safe", x, v] => hx v fun b =>
    let c := safeHtmlClause (x == "1") b
    if c == "ok" then "ok" else "fail:" ++ c
  | ["urls", v] => hx v fun b =>
    match tokenize b with
    | some ts => if urlsOK lookupEntity ts then "ok" else "fail:dangerous-url"
    | none => "fail:not-tokenizable"
  | ["tokens", v] => hx v fun b =>
    match tokenize b with
    | some ts => String.intercalate " " (ts.map tokStr)
    | none => "none"
  | ["hrefDangerous", v] => hx v fun b => boolStr (hrefDangerous lookupEntity b)
  | _ => bad

end Driver
