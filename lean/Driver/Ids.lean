import Driver.Common
import GM.Model.Ids
namespace Driver
open GM GM.Ids

/-- one op: `g:<hex>` Generate(value, KindHeading), `o:<hex>` Generate(value, other kind), `p:<hex>` Put(value) -/
def parseIdsOp (s : String) : Option Op :=
  match s.splitOn ":" with
  | ["g", v] => (bytesOfHex v).map fun b => Op.gen b true
  | ["o", v] => (bytesOfHex v).map fun b => Op.gen b false
  | ["p", v] => (bytesOfHex v).map Op.put
  | _ => none

def idsOut : Option (List Bytes) → String
  | none => "starved"
  | some ids => if ids.isEmpty then "_" else String.intercalate "," (ids.map hexOfBytes)

/-- `ids run <op,op,…>`: the ids returned by the Generate calls, on a fresh table.
    `ids doc <source-hex> <op,op,…>`: same (the source is only there to make the case replayable on the Go side). -/
def handleIds : List String → String
  | ["run", prog] =>
    if prog == "_" then idsOut (run [] []) else
    match (prog.splitOn ",").mapM parseIdsOp with
    | some ops => idsOut (run [] ops)
    | none => bad
  | ["doc", _, _, prog] =>
    if prog == "_" then idsOut (run [] []) else
    match (prog.splitOn ",").mapM parseIdsOp with
    | some ops => idsOut (run [] ops)
    | none => bad
  | ["slug", v, h] => hx v fun b => hexOfBytes (base b (h == "1"))
  | ["dec", n] => nat n fun n => hexOfBytes (dec n)
  | _ => bad

end Driver
