/-
  Driver.AstTrace — protocol handler of component `asttrace` (property C05 (a)): replay of the mutator
  calls a real Parse made (recorded by the `verif` hook ast.VerifTrace) on GM.Model.AstHeap, with the
  proviso of C13 checked before every call (GM.AstTrace.runChecked).

  asttrace run <N> <root> <ops>
      N     number of nodes (ids are decimal 0..N-1, numbered by first appearance in the trace)
      root  id of the node Parse returned
      ops   `-` (none) or `;`-separated tokens, fields separated by `.`, `n` = nil:
              a.<p>.<c>        AppendChild(p, c)
              b.<p>.<v>.<c>    InsertBefore(p, v, c)
              f.<p>.<v>.<c>    InsertAfter(p, v, c)
              r.<p>.<v>.<c>    ReplaceChild(p, v, c)
              d.<p>.<c>        RemoveChild(p, c)
              x.<p>            RemoveChildren(p)
              s.<p>.<i,j,…>    SortChildren on p, with a comparator that orders the ids as listed
                               (the order the real call produced)
      →     ok <dump>                   every call within the proviso; dump of the final heap
            pre-violated@<k>:<token>    call number k (from 0) is outside the proviso `Pre`
            panic@<k> | loop@<k>        the model panicked / a model loop ran out of fuel in call k
            fuel@<k>                    the proviso check ran out of fuel (cannot happen: descB_fuel_suffices)
      dump = the nodes reachable from root in depth-first preorder, joined by `;`,
             node = <id>:<parent>:<ChildCount>:<children from FirstChild by NextSibling>:<children from
             LastChild by PreviousSibling>  (ids joined by `,`; `-` = nil / none; `*` = walk cut after N+1 nodes)
-/
import Driver.Common
import GM.Model.AstTrace
namespace Driver.AstTrace
open GM GM.Spec GM.AstHeap GM.AstTrace
open GM.Spec.Forest (Op)

def id? (n : Nat) (s : String) : Option Nat :=
  match s.toNat? with
  | some i => if i < n then some i else none
  | none => none

def ref? (n : Nat) (s : String) : Option (Option Nat) :=
  if s == "n" then some none else (id? n s).map some

/-- comparator that reproduces a recorded order: compare positions in `order` -/
def orderCmp (order : List Nat) : Nat → Nat → Int :=
  let pos : Nat → Nat := fun a => order.idxOf a
  fun a b => (pos a : Int) - (pos b : Int)

def parseOp (n : Nat) (s : String) : Option Op :=
  match s.splitOn "." with
  | ["a", p, c] => do let p ← id? n p; let c ← ref? n c; pure (.append p c)
  | ["b", p, v, c] => do let p ← id? n p; let v ← ref? n v; let c ← ref? n c; pure (.insertBefore p v c)
  | ["f", p, v, c] => do let p ← id? n p; let v ← ref? n v; let c ← ref? n c; pure (.insertAfter p v c)
  | ["r", p, v, c] => do let p ← id? n p; let v ← ref? n v; let c ← ref? n c; pure (.replace p v c)
  | ["d", p, c] => do let p ← id? n p; let c ← ref? n c; pure (.remove p c)
  | ["x", p] => do let p ← id? n p; pure (.removeChildren p)
  | ["s", p, order] => do
      let p ← id? n p
      let ids ← (order.splitOn ",").mapM (id? n)
      pure (.sort p (orderCmp ids))
  | _ => none

def refStr : Option Nat → String
  | some i => toString i
  | none => "-"

def chainStr (r : List Nat × Bool) : String :=
  let s := if r.1.isEmpty then "-" else String.intercalate "," (r.1.map toString)
  if r.2 then s ++ "*" else s

def nodeStr (n : Nat) (h : Heap) (x : Nat) : String :=
  String.intercalate ":" [toString x, refStr (parentNode h x), toString (childCount h x),
    chainStr (chain h.next (n + 1) (firstChild h x)), chainStr (chain h.prev (n + 1) (lastChild h x))]

def dump (n : Nat) (h : Heap) (root : Nat) : String :=
  let r := reach h n (n + 1) [root]
  let parts := r.1.map (nodeStr n h)
  String.intercalate ";" (if r.2 then parts ++ ["*"] else parts)

def run (n root : Nat) (toks : List String) : String :=
  match toks.mapM (parseOp n) with
  | none => bad
  | some ops =>
    match runChecked n (2 * n + 2) 0 Heap.empty ops with
    | .ok h => "ok " ++ dump n h root
    | .preViolated k => "pre-violated@" ++ toString k ++ ":" ++ toks.getD k "?"
    | .preFuel k => "fuel@" ++ toString k
    | .fault k .nilDeref => "panic@" ++ toString k
    | .fault k .fuel => "loop@" ++ toString k

end Driver.AstTrace

namespace Driver
def handleAstTrace : List String → String
  | ["run", n, root, ops] =>
    match n.toNat? with
    | none => bad
    | some n =>
      match Driver.AstTrace.id? n root with
      | none => bad
      | some root => Driver.AstTrace.run n root (if ops == "-" then [] else ops.splitOn ";")
  | _ => bad
end Driver
