import Driver.Common
import GM.Spec.AstWF
namespace Driver.WfD
open GM GM.Spec Driver

def natListTok (s : String) : Option (List Nat) :=
  if s == "_" then some [] else (s.splitOn ",").mapM (·.toNat?)

def segTok (s : String) : Option Seg :=
  match s.splitOn ":" with
  | [a, b, c] => do pure ⟨← a.toInt?, ← b.toInt?, ← c.toInt?⟩
  | _ => none

def segListTok (s : String) : Option (List Seg) :=
  if s == "_" then some [] else (s.splitOn ",").mapM segTok

def ntypeTok : String → Option NType
  | "d" => some .document | "b" => some .block | "i" => some .inline | _ => none

mutual
def pNode : Nat → List String → Option (PNode × List String)
  | 0, _ => none
  | fuel + 1, kind :: t :: id :: par :: cnt :: has :: fwd :: bwd :: segs :: isl :: xs :: lvl :: rest => do
    let info : PInfo := {
      kind := kind, ntype := ← ntypeTok t, id := ← id.toNat?, parent := ← par.toInt?, count := ← cnt.toInt?,
      hasChildren := has == "1", fwd := ← natListTok fwd, bwd := ← natListTok bwd, segs := ← segListTok segs,
      isLines := isl == "1", xsegs := ← segListTok xs, level := ← lvl.toInt? }
    let (cs, r) ← pChildren fuel rest
    pure (.mk info cs, r)
  | _, _ => none
def pChildren : Nat → List String → Option (List PNode × List String)
  | 0, _ => none
  | _ + 1, ")" :: r => some ([], r)
  | fuel + 1, toks => do
    let (c, r) ← pNode fuel toks
    let (cs, r') ← pChildren fuel r
    pure (c :: cs, r')
end

end Driver.WfD

namespace Driver
open GM GM.Spec Driver.WfD

def handleWfAst : List String → String
  | "check" :: len :: toks =>
    match len.toNat?, pNode (toks.length + 1) toks with
    | some n, some (t, []) =>
      match wfAst n t with
      | none => "ok"
      | some c => "fail:" ++ c
    | _, _ => bad
  | _ => bad

end Driver
