import Driver.Common
import GM.Model.Render
import GM.Spec.RenderInv
namespace Driver.Rend
open GM Driver

/-! Tree token format (must match harness/cmd/gmharness/dump.go):
    `<Kind> <fields…> <attrs> <children…> )` ; lists `_` or hex items joined by `,` ; optional bytes `~` = nil. -/

def optHex (s : String) : Option (Option Bytes) :=
  if s == "~" then some none else (bytesOfHex s).map some

def hexList (s : String) : Option (List Bytes) :=
  if s == "_" then some [] else (s.splitOn ",").mapM bytesOfHex

def parseAttr (s : String) : Option Attr :=
  match s.splitOn "=" with
  | [n, v] => do
    let n ← bytesOfHex n
    let v ← optHex v
    pure ⟨n, v⟩
  | _ => none

def parseAttrs (s : String) : Option (Option (List Attr)) :=
  if s == "~" then some none
  else if s == "_" then some (some [])
  else ((s.splitOn ";").mapM parseAttr).map some

def bit (c : Char) : Bool := c == '1'

/-- kind + its field tokens → (Kind, remaining tokens) -/
def parseKind : List String → Option (Kind × List String)
  | "Document" :: r => some (.document, r)
  | "Heading" :: l :: r => l.toNat?.map fun l => (.heading l, r)
  | "Blockquote" :: r => some (.blockquote, r)
  | "CodeBlock" :: ls :: r => (hexList ls).map fun ls => (.codeBlock ls, r)
  | "FencedCodeBlock" :: i :: ls :: r => do
    let i ← optHex i; let ls ← hexList ls; pure (.fencedCodeBlock i ls, r)
  | "HTMLBlock" :: ls :: c :: r => do
    let ls ← hexList ls; let c ← optHex c; pure (.htmlBlock ls c, r)
  | "List" :: o :: s :: r => s.toNat?.map fun s => (.list (o == "1") s, r)
  | "ListItem" :: r => some (.listItem, r)
  | "Paragraph" :: r => some (.paragraph, r)
  | "TextBlock" :: r => some (.textBlock, r)
  | "ThematicBreak" :: r => some (.thematicBreak, r)
  | "AutoLink" :: e :: u :: l :: r => do
    let u ← bytesOfHex u; let l ← bytesOfHex l; pure (.autoLink (e == "1") u l, r)
  | "CodeSpan" :: r => some (.codeSpan, r)
  | "Emphasis" :: l :: r => l.toNat?.map fun l => (.emphasis l, r)
  | "Image" :: d :: t :: r => do
    let d ← bytesOfHex d; let t ← optHex t; pure (.image d t, r)
  | "Link" :: d :: t :: r => do
    let d ← bytesOfHex d; let t ← optHex t; pure (.link d t, r)
  | "RawHTML" :: s :: r => (hexList s).map fun s => (.rawHTML s, r)
  | "Text" :: v :: f :: r => do
    let v ← bytesOfHex v
    match f.toList with
    | [a, b, c, d] => pure (.text v (bit a) (bit b) (bit c) (bit d), r)
    | _ => none
  | "String" :: v :: f :: r => do
    let v ← bytesOfHex v
    match f.toList with
    | [a, b] => pure (.string v (bit a) (bit b), r)
    | _ => none
  | "Table" :: r => some (.table, r)
  | "TableHeader" :: r => some (.tableHeader, r)
  | "TableRow" :: r => some (.tableRow, r)
  | "TableCell" :: a :: r => a.toNat?.map fun a => (.tableCell a, r)
  | "Strikethrough" :: r => some (.strikethrough, r)
  | "TaskCheckBox" :: c :: r => some (.taskCheckBox (c == "1"), r)
  | "DefinitionList" :: r => some (.definitionList, r)
  | "DefinitionTerm" :: r => some (.definitionTerm, r)
  | "DefinitionDescription" :: t :: r => some (.definitionDescription (t == "1"), r)
  | "FootnoteLink" :: i :: c :: x :: r => do
    let i ← i.toNat?; let c ← c.toNat?; let x ← x.toNat?; pure (.footnoteLink i c x, r)
  | "FootnoteBacklink" :: i :: c :: x :: r => do
    let i ← i.toNat?; let c ← c.toNat?; let x ← x.toNat?; pure (.footnoteBacklink i c x, r)
  | "Footnote" :: i :: r => i.toNat?.map fun i => (.footnote i, r)
  | "FootnoteList" :: r => some (.footnoteList, r)
  | "Other" :: r => some (.other, r)
  | _ => none

mutual
def parseNode : Nat → List String → Option (Node × List String)
  | 0, _ => none
  | fuel + 1, toks => do
    let (k, r) ← parseKind toks
    match r with
    | a :: r' =>
      let attrs ← parseAttrs a
      let (cs, r'') ← parseChildren fuel r'
      pure (.mk k attrs cs, r'')
    | [] => none
def parseChildren : Nat → List String → Option (List Node × List String)
  | 0, _ => none
  | _ + 1, ")" :: r => some ([], r)
  | fuel + 1, toks => do
    let (c, r) ← parseNode fuel toks
    let (cs, r') ← parseChildren fuel r
    pure (c :: cs, r')
end

def parseTree (toks : List String) : Option Node :=
  match parseNode (toks.length + 1) toks with
  | some (n, []) => some n
  | _ => none

/-- `<unsafe><xhtml><hardwraps><ea><esc><align>` (digits) and `<table><strike><task><dl><foot>` (bits) -/
def parseCfg (o e : String) : Option RCfg :=
  match o.toList, e.toList with
  | [u, x, h, ea, s, a], t :: st :: k :: d :: f :: more =>
    let dig (c : Char) : Nat := c.toNat - 48
    let opts : Opts := {
      unsafe_ := bit u, xhtml := bit x, hardWraps := bit h,
      ea := if dig ea == 0 then none else some (dig ea),
      writerEsc := if bit s then some true else none,
      tableAlign := if dig a == 0 then none else some (dig a) }
    let rc := mkRCfg opts { table := bit t, strike := bit st, task := bit k, dl := bit d, foot := bit f }
    -- `F`: the harness' templated footnote options (docs.go, Cfg letter F)
    if more == ['F'] then
      some { rc with footc := { idPrefix := some (strBytes "p-"), linkTitle := strBytes "note ^^ of %%",
                                backlinkTitle := strBytes "back ^^ (%% refs)", linkClass := strBytes "fr fr-^^",
                                backlinkClass := strBytes "fb fb-%%", backlinkHTML := strBytes "^^/%%" } }
    else if more == [] then some rc else none
  | _, _ => none

end Driver.Rend

namespace Driver
open GM Driver.Rend

def handleRender : List String → String
  | "html" :: o :: e :: toks =>
    match parseCfg o e, parseTree toks with
    | some rc, some t =>
      match renderPanics rc t with
      | some .index => "panic:index"
      | some .assert => "panic:assert"
      | none => hexOfBytes (render rc t)
    | _, _ => bad
  | "inv" :: o :: e :: toks =>
    match parseCfg o e, parseTree toks with
    | some rc, some t => if GM.Spec.Inv rc t then "ok" else "fail:assumption:render-inv"
    | _, _ => bad
  | ["write", e, v] => hx v fun b => hexOfBytes (write (e == "1") b)
  | ["rawWrite", v] => hx v fun b => hexOfBytes (rawWrite b)
  | ["secureWrite", v] => hx v fun b => hexOfBytes (secureWrite b)
  | _ => bad

end Driver
