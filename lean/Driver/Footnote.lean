import Driver.Common
import GM.Model.Footnote
namespace Driver
open GM GM.Footnote GM.Spec.Footnote

/-- ids are ASCII by construction of the harness' prefixes -/
def asciiStr (b : Bytes) : String := String.ofList (b.map fun c => Char.ofNat c.toNat)

def hexList (s : String) : Option (List Bytes) :=
  if s == "_" then some [] else (s.splitOn ",").mapM bytesOfHex

def parseEvent (s : String) : Option Event :=
  match s.splitOn ":" with
  | [l, d, h] => do
    let l ← bytesOfHex l
    let host ← if h == "-1" then some none else h.toNat?.map some
    if d == "0" then pure { label := l, dropped := false, host := host }
    else if d == "1" then pure { label := l, dropped := true, host := host }
    else none
  | _ => none

def eventList (s : String) : Option (List Event) :=
  if s == "_" then some [] else (s.splitOn ",").mapM parseEvent

def linkStr (l : Link) : String := s!"{l.index}.{l.refCount}.{l.refIndex}"

def footnoteOut (pre : Bytes) (labels : List Bytes) (evs : List Event) : String :=
  let t := transform labels evs
  let o := render pre labels evs
  let items := o.items.map fun it => s!"{it.src}:{asciiStr it.id}[{" ".intercalate (it.backs.map asciiStr)}]"
  let refs := o.refs.map fun r => s!"{asciiStr r.id}>{asciiStr r.href}>{asciiStr r.text}"
  let links := (allLinkFields t.defs t.created t.links).map fun p => linkStr p.2
  let bl := if t.listed then t.nodes.flatMap fun n => n.backs.map linkStr else []
  s!"items={",".intercalate items};refs={",".intercalate refs};links={",".intercalate links};bl={",".intercalate bl};vis={boolStr (allVisible labels evs)}"

/-- `footnote render <prefix> <labels> <events> [<source, ignored>]` -/
def handleFootnote : List String → String
  | "render" :: pre :: labels :: evs :: _ =>
    match bytesOfHex pre, hexList labels, eventList evs with
    | some p, some ls, some es => footnoteOut p ls es
    | _, _, _ => bad
  | _ => bad

end Driver
