import Driver.Common
import Driver.Inlines
import Driver.Convert
import GM.Model.ConvertH
/-!
  `converth html <hex source> <unicode classes>` → `g<0|1> c<0|1> <r0> <r1>` | `g<0|1> c<0|1> err:<outcome>`:
  the model of `goldmark.New(WithParserOptions(WithAutoHeadingID()), WithRendererOptions(…)).Convert`
  (GM.ConvertH.convertH true) for two renderer option sets: `r0` = default, `r1` = Unsafe + XHTML + HardWraps (lower-case hex
  of the HTML; `=0` when `r1` is byte-identical to `r0`).
  `g0`: the guarded composition answered. `g1`: a run-time check fired (`blocks:pre` / `pre:lines-not-WF0`) and the answer is
  the unguarded composition's (as in `convert html`).
  `c1`: the hypotheses `headingsClosedB` and `headingsOnceB` of the end-to-end theorems (GM.Props.C15E2E) hold of the block phase's result; `c0`: it
  does not (or the block phase did not return).
  `converth ids <hex source>` → the `Generate` calls of the block phase in order: `<node>:<hex text>:<hex id>,…` | `-`.
-/
namespace Driver.ConvH
open GM GM.Text GM.Convert GM.ConvertH Driver

def chOpts : List ROpts := [{}, { unsafe_ := true, xhtml := true, hardWraps := true }]

def chRenderAll (t : GM.Node) : String :=
  let rs := chOpts.map fun o => renderDoc o t
  match rs.mapM (fun r => match r with | .ok b => some b | .error _ => none) with
  | some bs => " ".intercalate (Driver.Conv.dedup [] bs)
  | none =>
    match rs.findSome? (fun r => match r with | .error e => some e | .ok _ => none) with
    | some e => "err:" ++ e.str
    | none => "err:?"

def chClosed (guard : Bool) (src : Bytes) : String :=
  match blockPhaseH true guard src with
  | .ok (h, st) => if headingsClosedB h (finalTree st) && headingsOnceB (finalTree st) then "c1 " else "c0 "
  | .error _ => "c0 "

def chHtml (uc : List (Nat × (Bool × Bool))) (src : Bytes) : String :=
  match parseDocH true true uc src with
  | .ok t => "g0 " ++ chClosed true src ++ chRenderAll t
  | .error e =>
    if Driver.Conv.isGuardErr e then
      match parseDocH true false uc src with
      | .ok t => "g1 " ++ chClosed false src ++ chRenderAll t
      | .error e' => "g1 " ++ chClosed false src ++ "err:" ++ e'.str
    else "g0 " ++ chClosed true src ++ "err:" ++ e.str

def chGen (g : GenEv) : String := s!"{g.node}:{hexOfBytes g.text}:{hexOfBytes g.id}"

end Driver.ConvH

namespace Driver
open GM GM.Convert GM.ConvertH Driver.ConvH

def handleConvertH : List String → String
  | ["html", src, uc] =>
    match bytesOfHex src, Driver.Inl.ucsTok uc with
    | some src, some uc => chHtml uc src
    | _, _ => bad
  | ["ids", src] =>
    hx src fun src =>
      match blockPhaseH true false src with
      | .ok (h, _) => if h.gens.isEmpty then "-" else ",".intercalate (h.gens.map chGen)
      | .error e => e.str
  | _ => bad

end Driver
