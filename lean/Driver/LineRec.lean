import Driver.Common
import GM.Model.LineRec
namespace Driver
open GM GM.LineRec

/-! Component `linerec`: one op per line recogniser of GM.Model.LineRec. Byte strings are hex, ints decimal.
    Reader-based ops take `<src> <advance> <padding>`: the one-line reader state the Go hook builds with
    `NewReader(src).AdvanceAndSetPadding(advance, padding)`. -/

namespace LineRecDrv

def res {α} (r : Res α) (k : α → String) : String :=
  match r with
  | .ok a => k a
  | .error e => "panic:" ++ e

def lr (src adv pad : String) (k : LR → String) : String :=
  hx src fun s => nat adv fun a => nat pad fun p => k { src := s, start := a, padding := p }

def pairII (p : Int × Int) : String := s!"{p.1} {p.2}"

def which? : String → Option Which
  | "thematic" => some .thematic
  | "atx" => some .atx
  | "fence" => some .fence
  | "code" => some .code
  | "none" => some .noParser
  | _ => none

def m6 (r : M6 × ListTyp) : String :=
  s!"{r.1.r0} {r.1.r1} {r.1.r2} {r.1.r3} {r.1.r4} {r.1.r5} {r.2.code}"

def natsOf (s : String) : Option (List Nat) :=
  if s == "-" then some [] else (s.splitOn ",").mapM (·.toNat?)

end LineRecDrv
open LineRecDrv

def handleLineRec : List String → String
  | ["tabw", n] => nat n fun n => toString (tabWidth n)
  | ["ipp", v, cur, padv, w] => hx v fun b => nat cur fun c => nat padv fun p => nat w fun w =>
      pairII (indentPositionPadding b c p w)
  | ["ip", v, cur, w] => hx v fun b => nat cur fun c => nat w fun w => pairII (indentPosition b c w)
  | ["dedent", v, cur, w] => hx v fun b => nat cur fun c => nat w fun w =>
      let r := dedentPosition b c w; s!"{r.1} {r.2}"
  | ["dedentp", v, cur, padv, w] => hx v fun b => nat cur fun c => nat padv fun p => nat w fun w =>
      let r := dedentPositionPadding b c p w; s!"{r.1} {r.2}"
  | ["rstate", src, adv, pad] => lr src adv pad fun r => s!"{hexOfBytes r.peek} {r.start} {r.padding} {r.lineOffset}"
  | ["tb", v, off] => hx v fun b => nat off fun o => boolStr (isThematicBreak b o)
  | ["pli", v] => hx v fun b => m6 (parseListItem b)
  | ["mli", v, strict] => hx v fun b => m6 (matchesListItem b (strict == "1"))
  | ["clo", v, m4, lo] => hx v fun b => int m4 fun m => nat lo fun lo => res (calcListOffset b m lo) toString
  | ["lastoff", os] => match natsOf os with
      | some l => toString (lastOffset l)
      | none => bad
  | ["setext", v] => hx v fun b => res (setextBar b) fun
      | some c => s!"1 {c.toNat}"
      | none => "0"
  | ["listopen", v, para] => hx v fun b => match listOpen b (para == "1") with
      | some o => s!"1 {o.marker.toNat} {o.start} {boolStr o.ordered}"
      | none => "0"
  | ["liopen", src, adv, pad, last] => lr src adv pad fun r => int last fun lo =>
      -- a list without items has lastOffset 0
      res (listItemOpen r.peek lo.toNat r.lineOffset) fun
      | none => s!"0 {r.start} {r.padding}"
      | some io =>
        match io.child with
        | none => s!"1 {io.offset} 0 {r.start} {r.padding}"
        | some (child, padding) =>
          if child < 0 || padding < 0 then "unmodelled:negative-advance"
          else match r.advanceAndSetPadding child.toNat padding.toNat with
            | some r' => s!"1 {io.offset} 1 {r'.start} {r'.padding}"
            | none => "unmodelled:left-line"
  | ["atx", v, pos] => hx v fun b => int pos fun p =>
      if p < 0 then "0" else res (atxOpen b p.toNat) fun
      | none => "0"
      | some a => match a.content with
        | none => s!"1 {a.level} 0"
        | some (s, e) => s!"1 {a.level} 1 {s} {e}"
  | ["fopen", v, pos] => hx v fun b => int pos fun p =>
      if p < 0 then "0" else res (fenceOpen b p.toNat) fun
      | none => "0"
      | some f => match f.info with
        | none => s!"1 {f.char.toNat} {f.indent} {f.length} 0"
        | some (s, e) => s!"1 {f.char.toNat} {f.indent} {f.length} 1 {s} {e}"
  | ["fclose", src, adv, pad, ch, len] => lr src adv pad fun r => nat ch fun c => nat len fun n =>
      res (fenceClose r.peek r.lineOffset (UInt8.ofNat c) n) boolStr
  | ["quote", src, adv, pad] => lr src adv pad fun r => match quoteProcess r with
      | none => "unmodelled:left-line"
      | some (ok, r') => s!"{boolStr ok} {r'.start} {r'.padding} {r'.lineOffset} {hexOfBytes r'.peek}"
  | ["codeopen", src, adv, pad] => lr src adv pad fun r => boolStr (codeOpen r.peek r.lineOffset)
  | ["codecont", src, adv, pad] => lr src adv pad fun r => boolStr (codeContinue r.peek r.lineOffset)
  | ["openline", w, src, adv, pad] => lr src adv pad fun r => match which? w with
      | none => bad
      | some wh =>
        let bo := blockOffset r.peek r.lineOffset
        res (openLine wh r.peek r.lineOffset) fun (kind, level) =>
          s!"{bo.1} {bo.2} {if kind.isEmpty then "-" else kind} {level}"
  | _ => bad

end Driver
