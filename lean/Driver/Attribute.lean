import Driver.Common
import GM.Model.Attribute
import GM.Spec.RenderInv
namespace Driver.AttrD
open GM GM.Attr GM.Text Driver

/-! Protocol of component `attribute` (must match harness/cmd/gmharness/comp_attribute.go):
    value  `b<hex>` | `n<float64 bits, decimal>` | `t` | `f` | `z` | `{<attrs>}` | `[v,v,…]`
    attrs  `_` (none) or `<hexname>=<value>` joined by `;` -/

mutual
def serVal : Val → String
  | .bytes b => "b" ++ hexOfBytes b
  | .num bits => "n" ++ toString bits
  | .bool true => "t"
  | .bool false => "f"
  | .null => "z"
  | .attrs as => "{" ++ (match as with | [] => "_" | _ => serAttrsAux as) ++ "}"
  | .arr vs => "[" ++ serValsAux vs ++ "]"
def serAttrsAux : List (Bytes × Val) → String
  | [] => ""
  | [(n, v)] => hexOfBytes n ++ "=" ++ serVal v
  | (n, v) :: rest => hexOfBytes n ++ "=" ++ serVal v ++ ";" ++ serAttrsAux rest
def serValsAux : List Val → String
  | [] => ""
  | [v] => serVal v
  | v :: rest => serVal v ++ "," ++ serValsAux rest
end

def serAttrs (as : List PAttr) : String :=
  match as with
  | [] => "_"
  | _ => serAttrsAux as

def serOptAttrs : Option (List PAttr) → String
  | none => "~"
  | some as => serAttrs as

def serLines (ls : List (Nat × Nat)) : String :=
  match ls with
  | [] => "_"
  | _ => String.intercalate "," (ls.map fun (a, b) => s!"{a}-{b}")

def posStr (src : Bytes) (p : Nat) : String := s!"{lineOf src p} {p} {lineEnd src p}"

def headingStr : Except Panic (Option Heading) → String
  | .error k => k.str
  | .ok none => "none"
  | .ok (some h) => s!"H {h.level} {serLines h.lines} {serOptAttrs h.attrs}"

end Driver.AttrD

namespace Driver
open GM GM.Attr GM.Text Driver.AttrD

def handleAttribute : List String → String
  -- ParseAttributes on text.NewReader(src) after Advance(k)
  | ["pa", v, k] => hx v fun src => nat k fun k =>
    let p := adv src 0 k
    match parseAttributes src p with
    | .ok as p' => s!"ok {posStr src p'} {serAttrs as}"
    | .fail => s!"fail {posStr src p} _"
    | .panic e => e.str
    | .fuel => "loop"
  -- first block of a document that starts with an ATX heading line; flags: a = WithAttribute, i = WithAutoHeadingID
  | ["atx", flags, v] => hx v fun src =>
    headingStr (atxHeading src (flags.contains 'a') (flags.contains 'i'))
  -- Close of a heading whose (only) line is the whole of `v`, Attribute on
  | ["lastline", flags, v] => hx v fun line =>
    headingStr (do
      let h ← closeHeading line true (flags.contains 'i') { level := 1, lines := [(0, line.length)], attrs := none }
      pure (some h))
  -- the attribute clauses of Spec.Inv on a list of names (hex, comma separated; `_` = none)
  | ["names", ns] =>
    if ns == "_" then "ok" else
    match (ns.splitOn ",").mapM bytesOfHex with
    | none => bad
    | some names =>
      if !(names.all GM.Spec.attrNameOK) then "fail:attr-name-not-lexical"
      else if names.eraseDups.length != names.length then "fail:attr-name-duplicate"
      else "ok"
  | _ => bad

end Driver
