import Driver.Common
import GM.Model.Blocks
import GM.Spec.QuoteHyp
namespace Driver
open GM

/-- `blocks parse <hex source>` → canonical one-line dump of the block tree;
    `blocks lines <hex source>` → `ok` when every line segment of the model's tree is in range and increasing;
    `blocks quotesimhyp <hex source>` → `ok` when the hypotheses of GM.Props.C08.quote_prefix_simulation_partial hold
    for the source (`n-a` outside its class);
    `blocks indep <hexA> <hexH> <hexB>` → `ok` / `n-a` / `fail:indep-tree …` (C09 first half on block trees) -/
def handleBlocks : List String → String
  | ["parse", v] => hx v fun b => GM.Blocks.dump b
  | ["lines", v] => hx v fun b => GM.Blocks.checkLines b
  | ["quotesim", v] => hx v fun b => GM.Blocks.quoteSim b
  | ["quotesimhyp", v] => hx v fun b => GM.Blocks.quoteHypStr b
  | ["indep", a, h, b] => hx a fun a => hx h fun h => hx b fun b => GM.Blocks.indepCheck a h b
  | _ => bad

end Driver
