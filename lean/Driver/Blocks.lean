import Driver.Common
import GM.Model.Blocks
namespace Driver
open GM

/-- `blocks parse <hex source>` → canonical one-line dump of the block tree;
    `blocks lines <hex source>` → `ok` when every line segment of the model's tree is in range and increasing -/
def handleBlocks : List String → String
  | ["parse", v] => hx v fun b => GM.Blocks.dump b
  | ["lines", v] => hx v fun b => GM.Blocks.checkLines b
  | ["quotesim", v] => hx v fun b => GM.Blocks.quoteSim b
  | _ => bad

end Driver
