import Driver.Common
import GM.Model.Reader
import GM.Spec.Cursor
namespace Driver
open GM GM.Text

def rdSegStr (s : Segment) : String := s!"{s.start}:{s.stop}:{s.padding}:{boolStr s.forceNewline}"

def optHex : Option Bytes → String
  | some b => hexOfBytes b
  | none => "~"

def rdSegsStr : Option (List Segment) → String
  | none => "~"
  | some l => String.intercalate "|" (l.map rdSegStr)

def parseSeg4 (a b c d : String) : Option Segment := do
  let a ← a.toInt?; let b ← b.toInt?; let c ← c.toInt?
  pure { start := a, stop := b, padding := c, forceNewline := d == "1" }

def parseKind (k : String) : Option (Option (List Segment)) :=
  if k == "r" then some none
  else if k == "b:_" then some (some [])
  else if k.startsWith "b:" then
    ((k.drop 2).toString.splitOn ",").mapM (fun (s : String) =>
      match s.splitOn ":" with
      | [a, b, c] => parseSeg4 a b c "0"
      | _ => none) |>.map some
  else none

/-- either reader, behind the calls the protocol can make -/
inductive RS
  | src (r : Reader)
  | blk (r : BlockReader)

structure RunState where
  rs : RS
  saved : List (Int × Segment) := []

def threeStr (x : Segment × Int × Bool) : String := s!"{rdSegStr x.1},{x.2.1},{boolStr x.2.2}"

def outStr : Out → String
  | .unit => "."
  | .byte b => toString b.toNat
  | .line l s => s!"{optHex l}@{rdSegStr s}"
  | .pos l s => s!"{l}@{rdSegStr s}"
  | .int v => toString v
  | .bytes b => hexOfBytes b
  | .skip r => threeStr r
  | .rune x => s!"{x.1},{x.2.1},{boolStr x.2.2}"
  | .closure x => s!"{rdSegsStr x.1},{boolStr x.2}"
  | .char v => toString v

/-- protocol token → call (`rs:k` = SetPosition to the k-th value returned by Position so far) -/
def parseOp (saved : List (Int × Segment)) (op : String) : Option (Option Op) :=
  match op.splitOn ":" with
  | ["pk"] => some (some .peek)
  | ["pl"] => some (some .peekLine)
  | ["ad", n] => n.toInt?.map fun n => some (.advance n)
  | ["ap", n, p] => do let n ← n.toInt?; let p ← p.toInt?; pure (some (.advanceAndSetPadding n p))
  | ["al"] => some (some .advanceLine)
  | ["po"] => some (some .position)
  | ["rs", k] => do
      let k ← k.toNat?
      match saved[k]? with
      | some (l, p) => pure (some (.setPosition l p))
      | none => pure none
  | ["sp", l, a, b, c, d] => do let l ← l.toInt?; let p ← parseSeg4 a b c d; pure (some (.setPosition l p))
  | ["pd", v] => v.toInt?.map fun v => some (.setPadding v)
  | ["lo"] => some (some .lineOffset)
  | ["pc"] => some (some .precendingCharacter)
  | ["va", a, b, c, d] => (parseSeg4 a b c d).map fun p => some (.value p)
  | ["ss"] => some (some .skipSpaces)
  | ["sl"] => some (some .skipBlankLines)
  | ["rr"] => some (some .readRune)
  | ["fc", o, c, fl] => do
      let o ← o.toNat?; let c ← c.toNat?; let fl ← fl.toNat?
      let opts : FindClosureOptions := { codeSpan := fl % 2 == 1, nesting := fl / 2 % 2 == 1, newline := fl / 4 % 2 == 1, advance := fl / 8 % 2 == 1 }
      pure (some (.findClosure (UInt8.ofNat o) (UInt8.ofNat c) opts))
  | ["rp"] => some (some .resetPosition)
  | _ => none

/-- one call: output token and the state afterwards -/
def stepOp (st : RunState) (op : String) : Except Panic (String × RunState) :=
  match parseOp st.saved op with
  | none => pure (bad, st)
  | some none => pure ("x", st)
  | some (some o) => do
    let (out, rs) ← match st.rs with
      | .src r => do let (out, r) ← r.step o; pure (out, RS.src r)
      | .blk r => do let (out, r) ← r.step o; pure (out, RS.blk r)
    let saved := match out with
      | .pos l s => st.saved ++ [(l, s)]
      | _ => st.saved
    pure (outStr out, { rs := rs, saved := saved })

def runOps (st : RunState) : List String → List String → List String
  | [], acc => acc.reverse
  | op :: rest, acc =>
    match stepOp st op with
    | .ok (out, st) => runOps st rest (out :: acc)
    | .error e => (e.str :: acc).reverse

def handleSeg : List String → String
  | op :: src :: a :: b :: c :: d :: extra =>
    hx src fun buf =>
      match parseSeg4 a b c d with
      | none => bad
      | some t =>
        let res (r : Except Panic String) : String := match r with | .ok s => s | .error e => e.str
        match op, extra with
        | "value", [] => res (hexOfBytes <$> t.value buf)
        | "len", [] => toString t.len
        | "isEmpty", [] => boolStr t.isEmpty
        | "between", [x, y, z, w] => match parseSeg4 x y z w with
            | some o => res (rdSegStr <$> t.between o)
            | none => bad
        | "trimRight", [] => res (rdSegStr <$> t.trimRightSpace buf)
        | "trimLeft", [] => res (rdSegStr <$> t.trimLeftSpace buf)
        | "trimLeftWidth", [w] => int w fun w => res (rdSegStr <$> t.trimLeftSpaceWidth w buf)
        | "withStart", [v] => int v fun v => rdSegStr (t.withStart v)
        | "withStop", [v] => int v fun v => rdSegStr (t.withStop v)
        | "concatPadding", [v] => hx v fun v => hexOfBytes (t.concatPadding v)
        | _, _ => bad
  | _ => bad

/-- the specification cursor run on a call sequence (same protocol, `pre` where it is undefined) -/
inductive CS
  | src (c : GM.Spec.RCur)
  | blk (c : GM.Spec.BCur)

def specRun (src : Bytes) (segs : Option (List Segment)) (ops : List String) : List String :=
  let rec go (cs : CS) (saved : List (Int × Segment)) : List String → List String → List String
    | [], acc => acc.reverse
    | op :: rest, acc =>
      match parseOp saved op with
      | none => (bad :: acc).reverse
      | some none => go cs saved rest ("x" :: acc)
      | some (some o) =>
        let res : Except Panic (Out × CS) := match cs, segs with
          | .src c, _ => do let (out, c) ← GM.Spec.RCur.step src c o; pure (out, CS.src c)
          | .blk c, some sg => do let (out, c) ← GM.Spec.BCur.step src sg c o; pure (out, CS.blk c)
          | .blk _, none => .error .pre
        match res with
        | .error e => (e.str :: acc).reverse
        | .ok (out, cs) =>
          let saved := match out with
            | .pos l s => saved ++ [(l, s)]
            | _ => saved
          go cs saved rest (outStr out :: acc)
  match segs with
  | none => go (.src GM.Spec.RCur.init) [] ops []
  | some sg => go (.blk (GM.Spec.BCur.init sg)) [] ops []

def handleReader : List String → String
  | ["run", src, kind, ops] =>
    hx src fun src =>
      match parseKind kind with
      | none => bad
      | some k =>
        let ops := if ops.startsWith "!" then (ops.drop 1).toString else ops
        let st0 : Except Panic RunState := match k with
          | none => .ok { rs := .src (Reader.new src) }
          | some segs => do let r ← BlockReader.new src segs; pure { rs := .blk r }
        match st0 with
        | .error e => e.str
        | .ok st => String.intercalate ";" (runOps st (ops.splitOn ";") [])
  | ["speccheck", src, kind, ops, expected] =>
    -- Lean-defined oracle: the implementation's outputs must be exactly what the specification cursor says
    hx src fun src =>
      match parseKind kind with
      | none => bad
      | some k =>
        let got := String.intercalate ";" (specRun src k (ops.splitOn ";"))
        if got == expected then "ok" else s!"fail:spec-cursor spec={got}"
  | "seg" :: rest => handleSeg rest
  | _ => bad

end Driver
