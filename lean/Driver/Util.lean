import Driver.Common
import GM.Model.Util
namespace Driver
open GM

def handleUtil : List String → String
  | ["escapeHTML", v] => hx v fun b => hexOfBytes (escapeHTML b)
  | ["unescapePunct", v] => hx v fun b => hexOfBytes (unescapePunct b)
  | ["resolveNumeric", v] => hx v fun b => hexOfBytes (resolveNumeric b)
  | ["resolveEntities", v] => hx v fun b => hexOfBytes (resolveEntities b)
  | ["urlEscape", v, r] => hx v fun b => hexOfBytes (urlEscape b (r == "1"))
  | ["caseFold", v] => hx v fun b => hexOfBytes (caseFold b)
  | ["replaceSpaces", v, r] => hx v fun b => nat r fun n => hexOfBytes (replaceSpaces b (UInt8.ofNat n))
  | ["toLinkRef", v] => hx v fun b => hexOfBytes (toLinkReference b)
  | ["trimLeftSpace", v] => hx v fun b => hexOfBytes (trimLeftSpace b)
  | ["trimRightSpace", v] => hx v fun b => hexOfBytes (trimRightSpace b)
  | ["trimLeftSpaceLength", v] => hx v fun b => toString (trimLeftSpaceLength b)
  | ["trimRightSpaceLength", v] => hx v fun b => toString (trimRightSpaceLength b)
  | ["isBlank", v] => hx v fun b => boolStr (isBlank b)
  | ["isDangerousURL", v] => hx v fun b => boolStr (isDangerousURL b)
  | ["indentWidth", v, p] => hx v fun b => nat p fun n => let r := indentWidth b n; s!"{r.1} {r.2}"
  | ["firstNonSpace", v] => hx v fun b => optNat (firstNonSpacePosition b 0)
  | ["decodeRune", v] => hx v fun b => let r := decodeRune b; s!"{r.1} {r.2}"
  | ["encodeRune", r] => nat r fun n => hexOfBytes (encodeRune n)
  | ["validUtf8", v] => hx v fun b => boolStr (validUtf8 b)
  | ["byteClass", c] => nat c fun n =>
      let c := UInt8.ofNat n
      s!"{boolStr (isSpace c)} {boolStr (isPunct c)} {boolStr (urlSafe c)} {utf8len c} {urlTbl c} {emailTbl c} {hexOfBytes (htmlEsc c)}"
  | ["lookupEntity", v] => hx v fun b => match lookupEntity b with
      | some cs => hexOfBytes cs
      | none => "none"
  | _ => bad

end Driver
