import Driver.Util
import Driver.Filter
import Driver.Render
import Driver.Tok
import Driver.WfAst
import Driver.Registry
import Driver.Table
import Driver.Footnote
import Driver.Url
import Driver.Ast
import Driver.Ids
import Driver.Bufio
import Driver.LineRec
import Driver.InlineLoop
import Driver.Reader
import Driver.CMSpec
import Driver.Blocks
import Driver.Inlines
import Driver.AstTrace
import Driver.Attribute
import Driver.ExtDecline
import Driver.Convert
import Driver.ConvertH
import Driver.ConvertX
import Driver.ConvertF
import Driver.CMFrag
namespace Driver

def handle (line : String) : String :=
  match (line.trimAscii.toString.splitOn " ") with
  | "util" :: rest => handleUtil rest
  | "filter" :: rest => handleFilter rest
  | "render" :: rest => handleRender rest
  | "tok" :: rest => handleTok rest
  | "wfast" :: rest => handleWfAst rest
  | "registry" :: rest => handleRegistry rest
  | "table" :: rest => handleTable rest
  | "footnote" :: rest => handleFootnote rest
  | "url" :: rest => handleUrl rest
  | "ast" :: rest => handleAst rest
  | "walk" :: rest => handleWalk rest
  | "ids" :: rest => handleIds rest
  | "bufio" :: rest => handleBufio rest
  | "linerec" :: rest => handleLineRec rest
  | "inlineloop" :: rest => handleInlineLoop rest
  | "reader" :: rest => handleReader rest
  | "cmspec" :: rest => handleCMSpec rest
  | "blocks" :: rest => handleBlocks rest
  | "inlines" :: rest => handleInlines rest
  | "asttrace" :: rest => handleAstTrace rest
  | "attribute" :: rest => handleAttribute rest
  | "extdecline" :: rest => handleExtDecline rest
  | "convert" :: rest => handleConvert rest
  | "converth" :: rest => handleConvertH rest
  | "convertx" :: rest => handleConvertX rest
  | "convertf" :: rest => handleConvertF rest
  | "cmfrag" :: rest => handleCMFrag rest
  | _ => bad

partial def loop (hin hout : IO.FS.Stream) : IO Unit := do
  let line ← hin.getLine
  if line.isEmpty then return ()
  hout.putStrLn (handle line)
  if line.trimAscii.toString == "sync" then hout.flush
  loop hin hout

end Driver

def main : IO Unit := do
  let hin ← IO.getStdin
  let hout ← IO.getStdout
  Driver.loop hin hout
  hout.flush
