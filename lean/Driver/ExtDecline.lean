/-
  Driver.ExtDecline — line protocol of component `extdecline` (C11): the early-exit models of the built-in
  extensions (GM.Model.ExtDecline) and the regenerated trigger facts (GM.Gen.ExtFacts).
    trig <pkg> <type>                                  → hex of the Trigger() literals | nil | unknown
    linkify <inLabel> <line>                           → IRes
    fnparse <none | ref,ref,…> <line>                  → IRes
    fnopen <line> <blockOffset>                        → BRes
    fntr <doc> / tbtr <doc>                            → same   (Ext.footnoteTransformNoList / tableTransformNoList = id)
    dlopen <parentIsDL> <line> <pos> <indent> <last>   → BRes      last ∈ none para0 para1 dl other
    ddopen <parentIsDL> <line> <pos> <indent>          → BRes
    task <ctx> <line>                                  → IRes      ctx = item | anything else
    typo <line>                                        → IRes
    slb <style> <a> <b> <bitsA> <bitsB>                → 0|1       bits: 1 wide, 2 F/W/H, 4 hangul, 8 space-discarding, 16 punct
    sbw <style> <valueEmpty> <last> <next|-1> <bitsLast> <bitsNext> → 0|1
    wr <bytes>                                         → hex(write true) | hex(write false)   (GM.Model.Writer)
    loop <ext> <escapedSpace> <src> <segs/segs…>       → inlineloop's answer format, per block, for the run with
                                                         ONLY the extension's parser (GM.Model.ExtLoop.extOf)
-/
import Driver.Common
import GM.Model.ExtDecline
import GM.Gen.ExtFacts
import GM.Model.ExtLoop
import GM.Model.Writer
import Driver.InlineLoop

namespace Driver
open GM

namespace ExtDecline

def bit (bits k : Nat) : Bool := bits / k % 2 == 1

/-- the rune classes of (at most) two runes, given as bit sets by the harness from the real Unicode tables -/
def classOf (a bitsA b bitsB : Nat) : Ext.RuneClass :=
  let pick (k : Nat) (r : Nat) : Bool := if r == a then bit bitsA k else if r == b then bit bitsB k else false
  { wide := pick 1, fwh := pick 2, hangul := pick 4, spaceDiscarding := pick 8, punct := pick 16 }

def refsOf (s : String) : Option (Option (List Bytes)) :=
  if s == "none" then some none
  else (s.splitOn ",").foldr (fun x acc => match acc, bytesOfHex x with
      | some (some l), some b => some (some (b :: l))
      | _, _ => none) (some (some []))

def lastOf : String → Option Ext.LastChild
  | "none" => some .none
  | "para0" => some (.paragraph false)
  | "para1" => some (.paragraph true)
  | "dl" => some .defList
  | "other" => some .other
  | _ => none

def trigAnswer (pkg typ : String) : String :=
  match Gen.parserTriggers.find? fun t => t.pkg == pkg && t.typ == typ with
  | none => "unknown"
  | some t => if !t.understood then "unknown" else if t.isNil then "nil" else hexOfBytes t.bytes

end ExtDecline

open ExtDecline in
def handleExtDecline : List String → String
  | ["trig", pkg, typ] => trigAnswer pkg typ
  | ["linkify", lbl, line] => hx line fun l => (Ext.linkifyParse (lbl == "1") l).str
  | ["fnparse", refs, line] =>
    match refsOf refs with
    | some r => hx line fun l => (Ext.footnoteParse r l).str
    | none => bad
  | ["fnopen", line, pos] => hx line fun l => int pos fun p => (Ext.footnoteOpen l p).str
  | ["fntr", _] => "same"
  | ["tbtr", _] => "same"
  | ["dlopen", pdl, line, pos, indent, last] =>
    match lastOf last with
    | some la => hx line fun l => int pos fun p => int indent fun i => (Ext.defListOpen (pdl == "1") l p i la).str
    | none => bad
  | ["ddopen", pdl, line, pos, indent] =>
    hx line fun l => int pos fun p => int indent fun i => (Ext.defDescOpen (pdl == "1") l p i).str
  | ["task", ctx, line] => hx line fun l => (Ext.taskParse (ctx == "item") l).str
  | ["typo", line] => hx line fun l => (Ext.typoParse l).str
  | ["slb", style, a, b, ba, bb] =>
    nat style fun s => nat a fun a => nat b fun b => nat ba fun ba => nat bb fun bb =>
      boolStr (Ext.softLineBreak (classOf a ba b bb) s a b)
  | ["sbw", style, ve, last, next, bl, bn] =>
    nat style fun s => nat last fun a => int next fun nx => nat bl fun bl => nat bn fun bn =>
      boolStr (Ext.softBreakWritten (classOf a bl nx.toNat bn) s (ve == "1") a (if nx < 0 then none else some nx.toNat))
  | ["wr", v] => hx v fun b => hexOfBytes (write true b) ++ "|" ++ hexOfBytes (write false b)
  | ["loop", ext, esc, src, blocks] =>
    match bytesOfHex src, (blocks.splitOn "/").mapM InlineLoopDrv.parseSegs with
    | some src, some blocks =>
      let outs := blocks.map fun segs =>
        let b : InlineLoop.Block := ⟨src, segs⟩
        match ExtLoop.extOf ext b with
        | some q => InlineLoopDrv.showOut (InlineLoop.run ⟨[q], esc == "1"⟩ b)
        | none => bad
      match outs.find? (·.startsWith "panic:") with
      | some p => p
      | none => String.intercalate "/" outs
    | _, _ => bad
  | _ => bad

end Driver
