import Driver.Common
import GM.Model.InlinesLoop
/-!
  `inlines parse <hex source> <segments> <refs> <unicode classes>` → one-line dump of the inline tree of the block.
  segments: `start:stop:padding,…` | `-`;  refs: `<hex key>:<hex dest>:<hex title|~>;…` | `-` (keys normalised);
  unicode classes: `<rune>:<1 punct + 2 space>,…` | `-`.
-/
namespace Driver.Inl
open GM GM.Text GM.Inl Driver

def segTok (s : String) : Option Segment :=
  match s.splitOn ":" with
  | [a, b, c] => do pure { start := ← a.toInt?, stop := ← b.toInt?, padding := ← c.toInt? }
  | _ => none

def segsTok (s : String) : Option (List Segment) :=
  if s == "-" then some [] else (s.splitOn ",").mapM segTok

def refTok (s : String) : Option (Bytes × (Bytes × Option Bytes)) :=
  match s.splitOn ":" with
  | [k, d, t] => do
    let k ← bytesOfHex k
    let d ← bytesOfHex d
    let t ← if t == "~" then pure none else (bytesOfHex t).map some
    pure (k, (d, t))
  | _ => none

def refsTok (s : String) : Option (List (Bytes × (Bytes × Option Bytes))) :=
  if s == "-" then some [] else (s.splitOn ";").mapM refTok

def ucTok (s : String) : Option (Nat × (Bool × Bool)) :=
  match s.splitOn ":" with
  | [r, f] => do
    let r ← r.toNat?
    let f ← f.toNat?
    pure (r, (f % 2 == 1, f / 2 % 2 == 1))
  | _ => none

def ucsTok (s : String) : Option (List (Nat × (Bool × Bool))) :=
  if s == "-" then some [] else (s.splitOn ",").mapM ucTok

def segStr (s : Segment) : String := s!"{s.start}:{s.stop}:{s.padding}"

mutual
def dumpNode : Node → String
  | .text seg soft hard raw =>
    "T" ++ segStr seg ++ (if soft then "s" else "") ++ (if hard then "h" else "") ++ (if raw then "r" else "")
  | .codeSpan kids => "C[" ++ dumpNodes kids ++ "]"
  | .emphasis lv kids => "E" ++ toString lv ++ "[" ++ dumpNodes kids ++ "]"
  | .link im d t kids =>
    (if im then "I" else "L") ++ hexOfBytes d ++ ":" ++ (match t with | some t => hexOfBytes t | none => "~") ++
      "[" ++ dumpNodes kids ++ "]"
  | .autoLink email seg => "A" ++ (if email then "e" else "u") ++ segStr seg
  | .rawHTML segs => "H" ++ ";".intercalate (segs.map segStr)
  | .delim _ d => "D" ++ segStr d.seg
  | .label _ seg _ => "S" ++ segStr seg
def dumpNodes : List Node → String
  | [] => ""
  | [n] => dumpNode n
  | n :: rest => dumpNode n ++ "," ++ dumpNodes rest
end

end Driver.Inl

namespace Driver
open GM GM.Text GM.Inl Driver.Inl

def handleInlines : List String → String
  | ["parse", src, segs, refs, uc] =>
    match bytesOfHex src, segsTok segs, refsTok refs, ucsTok uc with
    | some src, some segs, some refs, some uc =>
      match parseBlock { refs := refs, uc := uc } src segs with
      | .ok kids => "ok [" ++ dumpNodes kids ++ "]"
      | .error e => e.str
    | _, _, _, _ => bad
  | _ => bad

end Driver
