import Driver.Common
import GM.Spec.CMGen
import GM.Spec.CMEnum
import GM.Spec.CMEmph
import GM.Spec.CMLink
namespace Driver
open GM GM.Spec.CM

namespace CMSpec
/-- Respellings used to ATTRIBUTE a difference (asked for only when goldmark's HTML differs): the same document
    respelled along some choice axes; the tag lists the axes: `t` leading indentation without tabs, `l` white
    space after list markers without tabs, `d` white space after block-quote markers before link reference
    definitions without tabs, `p` "space then tab" after a block-quote marker written as a plain tab (the tab
    then no longer follows a consumed marker space), `q` white space after block-quote markers (other lines)
    without tabs (2.2), `e` `&`/`"` of destinations and titles as entities instead of backslash escapes (2.4/2.5). -/
def cmsRespell (tag : String) (d : Doc) : Doc :=
  let d := if tag.contains 't' then { d with tabMode := 0 } else d
  let d := if tag.contains 'l' then { d with tabList := 0 } else d
  let d := if tag.contains 'd' then { d with tabQuoteD := 0 } else d
  let d := if tag.contains 'p' && d.tabQuote % 3 == 2 then { d with tabQuote := 1 } else d
  let d := if tag.contains 'p' && d.tabQuoteD % 3 == 2 then { d with tabQuoteD := 1 } else d
  let d := if tag.contains 'q' then { d with tabQuote := 0 } else d
  if tag.contains 'e' then entAllDoc d else d

/-- single axes along which deviations are known, all of them together, then the `q` axis -/
def cmsTags : List String := ["e", "t", "l", "d", "p", "tldpe", "q", "tldpeq"]

def cmsAnswer (d : Doc) : String := s!"{hexOfBytes (spell d)} {hexOfBytes (expected d)}"

def cmsAlts (d : Doc) : String :=
  let s := spell d
  let alts := cmsTags.filterMap fun tag =>
    let s' := spell (cmsRespell tag d)
    if s' == s then none else some s!"{tag}:{hexOfBytes s'}"
  if alts.isEmpty then "-" else " ".intercalate alts
end CMSpec

/-- `cmspec gen <seed> <size>` → `<hex spell> <hex expected>`; `cmspec enum <i>` → the i-th document of the
    exhaustive small scope (`skip` if that combination is not wellFormed, `end` past the last index);
    `cmspec count` → size of the enumerated index space; `cmspec emph|emphi <hex>` → emphasis reference; `cmspec alts gen|enum …` → `tag:<hex spell>` respellings -/
def handleCMSpec : List String → String
  | ["gen", s, z] => nat s fun seed => nat z fun size => CMSpec.cmsAnswer (gen seed size)
  | ["enum", i] => nat i fun i =>
      match enumDoc i with
      | none => "end"
      | some d => if wellFormed d then CMSpec.cmsAnswer d else "skip"
  | ["alts", "gen", s, z] => nat s fun seed => nat z fun size => CMSpec.cmsAlts (gen seed size)
  | ["alts", "enum", i] => nat i fun i =>
      match enumDoc i with
      | none => "end"
      | some d => CMSpec.cmsAlts d
  | ["count"] => toString enumCount
  -- spec-side emphasis reference (GM.Spec.CMEmph): `cmspec emph <hex source>` → `<hex prescribed HTML>` or `n-a`
  -- (outside `emphOnly` / not a sequence of paragraphs); `cmspec emphi <hex inline content>` → HTML of the inline content
  | ["emph", h] => hx h fun src =>
      match GM.Spec.CMEmph.emphDoc GM.Spec.CMEmph.ucls0 src with
      | some out => hexOfBytes out
      | none => "n-a"
  -- spec-side inline-link reference (GM.Spec.CMLink): `cmspec link <hex source>` → `<hex prescribed HTML>` or `n-a`
  | ["link", h] => hx h fun src =>
      match GM.Spec.CMLink.linkDoc src with
      | some out => hexOfBytes out
      | none => "n-a"
  -- attribution: `cmspec linkattr <0 document | 1 document + `[a]: /u` | 2 definition axis> <hex source> <hex goldmark output>` → the smallest set of deviation switches (mask: 1 ctl,
  -- 2 unbal, 4 pointyLt, 8 noSep) under which the reference reproduces the output, or `none`
  | ["linkattr", r, h, g] => hx h fun src => hx g fun got =>
      match GM.Spec.CMLink.attributeDev (r.toNat?.getD 0) src got with
      | some m => toString m
      | none => "none"
  -- step two: `cmspec linkr <hex body>` → prescribed HTML of body + blank line + `[a]: /u`
  -- `cmspec linkrx <hex body> <hex label> <hex destination> <hex title | none>`: one definition given explicitly (spec examples)
  | ["linkrx", h, l, d, ti] => hx h fun src => hx l fun lab => hx d fun dest =>
      let title : Option (Option GM.Bytes) := if ti == "none" then some none else (GM.bytesOfHex ti).map some
      match title with
      | none => bad
      | some title =>
        match GM.Spec.CMLink.linkDocRefX src lab dest title with
        | some out => hexOfBytes out
        | none => "n-a"
  -- link reference definitions: `cmspec linkdef <hex X>` → prescribed HTML of `[a]: X` + blank line + `[a]`
  | ["linkdef", h] => hx h fun x =>
      match GM.Spec.CMLink.defDoc x with
      | some out => hexOfBytes out
      | none => "n-a"
  | ["linkr", h] => hx h fun src =>
      match GM.Spec.CMLink.linkDocRef src with
      | some out => hexOfBytes out
      | none => "n-a"
  | ["emphi", h] => hx h fun src =>
      if GM.Spec.CMEmph.emphOnly GM.Spec.CMEmph.ucls0 src && !src.contains 10 then
        hexOfBytes (GM.Spec.CMEmph.emphInline GM.Spec.CMEmph.ucls0 src)
      else "n-a"
  | ["wf", s, z] => nat s fun seed => nat z fun size => boolStr (wellFormed (genOnce seed size))
  | _ => bad

end Driver
