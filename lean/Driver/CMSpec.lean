import Driver.Common
import GM.Spec.CMGen
import GM.Spec.CMEnum
namespace Driver
open GM GM.Spec.CM

namespace CMSpec
/-- extra fields (only when they differ from the spelling): the same document respelled along one choice
    axis, so that a difference can be attributed to that axis alone: `t:` without tabs (2.2), `e:` with `&`/`"` of
    destinations and titles as entities instead of backslash escapes (2.4/2.5), `te:` both -/
def cmsAnswer (d : Doc) : String :=
  let s := spell d
  let alt (tag : String) (d' : Doc) : String := if spell d' == s then "" else s!" {tag}:{hexOfBytes (spell d')}"
  s!"{hexOfBytes s} {hexOfBytes (expected d)}" ++ alt "t" { d with tabMode := 0 } ++ alt "e" (entAllDoc d) ++
    alt "te" (entAllDoc { d with tabMode := 0 })
end CMSpec

/-- `cmspec gen <seed> <size>` → `<hex spell> <hex expected>`; `cmspec enum <i>` → the i-th document of the
    exhaustive small scope (`skip` if that combination is not wellFormed, `end` past the last index);
    `cmspec count` → size of the enumerated index space -/
def handleCMSpec : List String → String
  | ["gen", s, z] => nat s fun seed => nat z fun size => CMSpec.cmsAnswer (gen seed size)
  | ["enum", i] => nat i fun i =>
      match enumDoc i with
      | none => "end"
      | some d => if wellFormed d then CMSpec.cmsAnswer d else "skip"
  | ["count"] => toString enumCount
  | ["wf", s, z] => nat s fun seed => nat z fun size => boolStr (wellFormed (genOnce seed size))
  | _ => bad

end Driver
