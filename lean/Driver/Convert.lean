import Driver.Common
import Driver.Inlines
import GM.Model.Convert
/-!
  `convert html <hex source> <unicode classes>` → `g<0|1> <r0> … <r7>` | `g<0|1> err:<outcome>`:
  the model of `goldmark.New(WithRendererOptions(…)).Convert` for the eight option sets, index
  `i = 4·unsafe + 2·xhtml + hardWraps`; `r_i` = lower-case hex of the HTML, or `=j` when it is byte-identical to `r_j`, `j < i`.
  `g0`: the guarded composition `convertCore` answered this. `g1`: a run-time check of `convertCore` fired (`blocks:pre`
  or `pre:lines-not-WF0`) and the answer is `convertUnguarded`'s.
  `convert refs <hex source>` → the reference map the block phase builds: `<hex key>:<hex dest>:<hex title|~>;…` | `-`.
  `convert tree <hex source>` → the block tree dump of the block phase with the link-reference transformer.
-/
namespace Driver.Conv
open GM GM.Text GM.Convert Driver

def allOpts : List ROpts :=
  [false, true].flatMap fun u => [false, true].flatMap fun x => [false, true].map fun h =>
    { unsafe_ := u, xhtml := x, hardWraps := h }

def dedup : List Bytes → List Bytes → List String
  | _, [] => []
  | seen, b :: rest =>
    (match seen.findIdx? (· == b) with
     | some j => s!"={j}"
     | none => hexOfBytes b) :: dedup (seen ++ [b]) rest

def renderAll (t : GM.Node) : String :=
  let rs := allOpts.map fun o => renderDoc o t
  match rs.mapM (fun r => match r with | .ok b => some b | .error _ => none) with
  | some bs => " ".intercalate (dedup [] bs)
  | none =>
    match rs.findSome? (fun r => match r with | .error e => some e | .ok _ => none) with
    | some e => "err:" ++ e.str
    | none => "err:?"

def isGuardErr : Err → Bool
  | .blocks .pre => true
  | .linesNotWF0 => true
  | _ => false

def convHtml (uc : List (Nat × (Bool × Bool))) (src : Bytes) : String :=
  match parseDoc true uc src with
  | .ok t => "g0 " ++ renderAll t
  | .error e =>
    if isGuardErr e then
      match parseDoc false uc src with
      | .ok t => "g1 " ++ renderAll t
      | .error e' => "g1 err:" ++ e'.str
    else "g0 err:" ++ e.str

def refStr (r : Bytes × (Bytes × Option Bytes)) : String :=
  hexOfBytes r.1 ++ ":" ++ hexOfBytes r.2.1 ++ ":" ++ (match r.2.2 with | some t => hexOfBytes t | none => "~")

end Driver.Conv

namespace Driver
open GM GM.Convert Driver.Conv

def handleConvert : List String → String
  | ["html", src, uc] =>
    match bytesOfHex src, Driver.Inl.ucsTok uc with
    | some src, some uc => convHtml uc src
    | _, _ => bad
  | ["refs", src] =>
    hx src fun src =>
      match blockPhase false src with
      | .ok st => if st.pc.refs.isEmpty then "-" else ";".intercalate (st.pc.refs.map refStr)
      | .error e => e.str
  | ["tree", src] =>
    hx src fun src =>
      match blockPhase false src with
      | .ok st => (GM.Blocks.treeOf st.nodes st.nodes.length 0).str
      | .error e => e.str
  | _ => bad

end Driver
