import Driver.Common
import GM.Model.Registry
namespace Driver
open GM GM.Registry

/-! Component `registry`. A registration is `<cat><id>:<prio>:<carrier>:<trig>:<flags>`:
    cat B|I|P|A|R, carrier c (constructor option) | o (WithParserOptions/WithRendererOptions) | e (Extender),
    trig: B: `n` nil, `-` empty non-nil, else hex bytes; I: hex bytes or `-`; R: kinds `3.17` or `-`; P/A: `-`;
    flags: B: canInterrupt, canAcceptIndentedLine as two 0/1 digits; any category: a trailing `x` marks a value
    that does not implement the interface. -/

structure RegTok where
  cat : Char
  id : Nat
  prio : Int
  carrier : Char
  trig : String
  flags : String

def parseReg (s : String) : Option RegTok :=
  match s.splitOn ":" with
  | [h, prio, car, trig, flags] =>
    match h.toList, car.toList with
    | c :: idcs, [k] => do
      let id ← (String.ofList idcs).toNat?
      let p ← prio.toInt?
      pure ⟨c, id, p, k, trig, flags⟩
    | _, _ => none
  | _ => none

def parseRegs (s : String) : Option (List RegTok) :=
  if s == "_" then some [] else (s.splitOn ";").mapM parseReg

def natList (s : String) : Option (List Nat) :=
  if s == "-" then some [] else (s.splitOn ".").mapM (·.toNat?)

/-- the configuration slice of one category as `goldmark.New` leaves it -/
def configOf {α} (regs : List RegTok) (cat : Char) (mk : RegTok → Option α) : Option (List (PV (Option α))) := do
  let mine := regs.filter (·.cat == cat)
  let pvs ← mine.mapM fun r =>
    if r.flags.endsWith "x" then some (r.carrier, (⟨r.prio, none⟩ : PV (Option α)))
    else (mk r).map fun v => (r.carrier, ⟨r.prio, some v⟩)
  let ctor := (pvs.filter (·.1 == 'c')).map (·.2)
  let opts := (pvs.filter (·.1 != 'c')).map fun (k, pv) =>
    if k == 'o' then MdOption.withOptions [pv] else MdOption.withExtensions [[pv]]
  pure (mdNew ctor opts)

def mkBlock (r : RegTok) : Option BlockParser := do
  let trig ← if r.trig == "n" then some none else (bytesOfHex r.trig).map some
  match r.flags.toList with
  | a :: b :: _ => pure ⟨r.id, trig, a == '1', b == '1'⟩
  | _ => none

def mkInline (r : RegTok) : Option InlineParser := (bytesOfHex r.trig).map fun t => ⟨r.id, t⟩
def mkId (r : RegTok) : Option Nat := some r.id
def mkRenderer (r : RegTok) : Option NodeRenderer := (natList r.trig).map fun ks => ⟨r.id, ks⟩

/-- `id=digits,id=digits` → digit of `id` at index `i` (0 when absent) -/
def parseScript (s : String) : Option (Nat → Nat → Nat) :=
  if s == "_" then some (fun _ _ => 0) else do
    let ents ← (s.splitOn ",").mapM fun e =>
      match e.splitOn "=" with
      | [a, b] => do
        let id ← a.toNat?
        pure (id, b.toList.map fun c => c.toNat - 48)
      | _ => none
    pure fun id i => match ents.find? (·.1 == id) with
      | some (_, ds) => ds.getD i 0
      | none => 0

def parseLines (s : String) : Option (List Line) :=
  if s == "_" then some [] else (s.splitOn ";").mapM fun t =>
    match t.splitOn "." with
    | [w, c] => do
      let w ← w.toNat?
      if c == "_" then pure ⟨w, none⟩ else
        match bytesOfHex c with
        | some [b] => pure ⟨w, some b⟩
        | _ => none
    | _ => none

def dots (l : List Nat) : String := String.intercalate "." (l.map toString)
def optId : Option Nat → String
  | some n => toString n
  | none => "-"

def parseRegTree (toks : List String) : Option Tree := go toks []
where
  go : List String → List (Nat × List Tree) → Option Tree
    | [], _ => none
    | t :: ts, stack =>
      if t == ")" then
        match stack with
        | [(k, cs)] => if ts.isEmpty then some (.node k cs.reverse) else none
        | (k, cs) :: (k', cs') :: st => go ts ((k', Tree.node k cs.reverse :: cs') :: st)
        | [] => none
      else if t.startsWith "(" then
        match (t.drop 1).toString.toNat? with
        | some k => go ts ((k, []) :: stack)
        | none => none
      else none

def decisionOf : Nat → Decision
  | 1 => .leaf
  | 2 => .para
  | _ => .decline

def statusOf : Nat → Status
  | 1 => .skipChildren
  | 2 => .stop
  | _ => .continue

/-- priorities / triggers / (CanInterruptParagraph, CanAcceptIndentedLine) of the shipped defaults
    (parser.go DefaultBlockParsers, DefaultInlineParsers, DefaultParagraphTransformers; markdown.go DefaultRenderer);
    the harness reads them from the real objects at run time and reports any difference -/
def expectedDefaults : String :=
  "B:100/2d3d/10,200/2d2a5f/10,300/2d2b2a30313233343536373839/10,400/2d2b2a30313233343536373839/10,500/n/01,600/23/10,700/7e60/10,800/3e/10,900/3c/10,1000/n/00" ++
  "|I:100/60,200/215b5d,300/3c,400/3c,500/2a5f|P:100|R:1000"

def handleRegistry : List String → String
  | ["block", regs, lines, script] =>
    match parseRegs regs, parseLines lines, parseScript script with
    | some regs, some lines, some sc =>
      match configOf regs 'B' mkBlock, configOf regs 'P' mkId, configOf regs 'A' mkId with
      | some cb, some cp, some ca =>
        match checkAll cb, checkAll cp, checkAll ca with
        | some cb, some cp, some ca =>
          let t := buildBlock (isort cb)
          let pts := buildTransformers (isort cp)
          let ats := buildTransformers (isort ca)
          let log := runBlocks t pts (fun id i => decisionOf (sc id i)) (fun id n => sc id n != 0) lines 0 0 none
          -- a consultation in which nobody was asked and a paragraph nobody transformed leave no trace
          let gs := (log.groups.filter (!·.asked.isEmpty)).map fun g => s!"[{g.line}/{dots g.asked}/{optId g.winner}]"
          let ps := (log.paras.filter (!·.isEmpty)).map fun p => s!"[{dots p}]"
          s!"B:{String.join gs}|P:{String.join ps}|A:{dots ats}"
        | _, _, _ => "panic:explicit"
      | _, _, _ => bad
    | _, _, _ => bad
  | ["inline", regs, esc, line, script] =>
    match parseRegs regs, bytesOfHex line, parseScript script with
    | some regs, some line, some sc =>
      match configOf regs 'I' mkInline with
      | some ci =>
        match checkAll ci with
        | some ci =>
          let tab := buildInline (isort ci)
          let gs := scanInline tab (esc == "1") sc line 0 true false
          "I:" ++ String.join (gs.map fun g => s!"[{g.off}/{dots g.asked}/{optId g.winner}]")
        | none => "panic:explicit"
      | none => bad
    | _, _, _ => bad
  | ["render", regs, tree, script] =>
    match parseRegs regs, parseRegTree (tree.splitOn ","), parseScript script with
    | some regs, some tree, some sc =>
      match configOf regs 'R' mkRenderer with
      | some cr =>
        match checkAll cr with
        | some cr =>
          let table := buildRenderer (isort cr)
          let r := walk table (fun id _ e => statusOf (sc id (if e then 0 else 1))) tree
          "R:" ++ String.intercalate "," (r.1.map fun e => s!"{e.id}.{e.kind}.{boolStr e.entering}")
        | none => "panic:nil"
      | none => bad
    | _, _, _ => bad
  | ["defaults"] => expectedDefaults
  | ["lateadd", _] =>
    match addOptions (none : Option (List (PV Nat))) [⟨0, 0⟩] with
    | .error .nilDeref => "panic:nil"
    | .error .explicit => "panic:explicit"
    | .ok _ => "ok"
  | _ => bad

end Driver
