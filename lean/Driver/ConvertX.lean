import Driver.Common
import Driver.Inlines
import Driver.Convert
import GM.Model.ConvertX
import GM.Model.ConvertL
import GM.Model.ConvertXRect
/-!
  `convertx html <cfg> <hex source> <unicode classes>` → `g<0|1> <r0> … <r7>` | `g<0|1> err:<outcome>`:
  the model GM.ConvertX.convertX of `goldmark.New(WithExtensions(members), WithRendererOptions(…)).Convert`;
  `cfg` = 1·strikethrough + 2·tasklist + 4·table; option set index `i = 4·unsafe + 2·xhtml + hardWraps`; `r_i` = lower-case
  hex of the HTML, or `=j` when byte-identical to `r_j`, `j < i`. `g0`: the guarded composition answered; `g1`: a run-time
  check fired and the answer is `convertXUnguarded`'s.
  `convertx htmll <cfg> <hex source> <unicode classes>` → the same for GM.ConvertX.convertL: `cfg` as above + 8·linkify (15 = the
  member set of extension.GFM).
  `convertx htmlf <cfg> <hex source> <unicode classes>` → the same for GM.ConvertX.convertFlush (`cfg` < 8: the member set next to
  a parser with Linkify's triggers and priority whose Parse returns nil).
  `convertx rect <cfg> <hex source> <unicode classes>` → `ok` when every Table node of the tree `convertX` renders is rectangular
  (GM.ConvertX.rectB: the Lean-defined C17 oracle on the model's tree) AND the block tree read out of the store is rectangular in
  the store's encoding (GM.ConvertX.rectT, the hypothesis of GM.Props.ConvertX.tables_rectangular_of_store), else
  `not-rectangular` | `store-not-rectangular` | `err:<outcome>`.
  `convertx tree <cfg> <hex source>` → the block tree dump of the block phase with the members' paragraph transformers.
-/
namespace Driver.ConvX
open GM GM.Text GM.Convert GM.ConvertX Driver Driver.Conv

def cfgOf (n : Nat) : XCfg := { strikethrough := n % 2 == 1, tasklist := n / 2 % 2 == 1, table := n / 4 % 2 == 1 }

def renderAllX (c : XCfg) (t : GM.Node) : String :=
  let rs := allOpts.map fun o => renderDocX c o t
  match rs.mapM (fun r => match r with | .ok b => some b | .error _ => none) with
  | some bs => " ".intercalate (dedup [] bs)
  | none =>
    match rs.findSome? (fun r => match r with | .error e => some e | .ok _ => none) with
    | some e => "err:" ++ e.str
    | none => "err:?"

def convHtmlX (c : XCfg) (uc : List (Nat × (Bool × Bool))) (src : Bytes) : String :=
  match parseDocX c true uc src with
  | .ok t => "g0 " ++ renderAllX c t
  | .error e =>
    if isGuardErr e then
      match parseDocX c false uc src with
      | .ok t => "g1 " ++ renderAllX c t
      | .error e' => "g1 err:" ++ e'.str
    else "g0 err:" ++ e.str

def cfgOfL (n : Nat) : GCfg := { base := cfgOf n, linkify := n / 8 % 2 == 1 }

def convHtmlL (c : GCfg) (uc : List (Nat × (Bool × Bool))) (src : Bytes) : String :=
  match parseDocL c true uc src with
  | .ok t => "g0 " ++ renderAllX c.base t
  | .error e =>
    if isGuardErr e then
      match parseDocL c false uc src with
      | .ok t => "g1 " ++ renderAllX c.base t
      | .error e' => "g1 err:" ++ e'.str
    else "g0 err:" ++ e.str

def convHtmlF (c : XCfg) (uc : List (Nat × (Bool × Bool))) (src : Bytes) : String :=
  match parseDocF c true uc src with
  | .ok t => "g0 " ++ renderAllX c t
  | .error e =>
    if isGuardErr e then
      match parseDocF c false uc src with
      | .ok t => "g1 " ++ renderAllX c t
      | .error e' => "g1 err:" ++ e'.str
    else "g0 err:" ++ e.str

end Driver.ConvX

namespace Driver
open GM GM.Convert GM.ConvertX Driver.ConvX

def handleConvertX : List String → String
  | ["html", cfg, src, uc] =>
    match cfg.toNat?, bytesOfHex src, Driver.Inl.ucsTok uc with
    | some cfg, some src, some uc => convHtmlX (cfgOf cfg) uc src
    | _, _, _ => bad
  | ["htmll", cfg, src, uc] =>
    match cfg.toNat?, bytesOfHex src, Driver.Inl.ucsTok uc with
    | some cfg, some src, some uc => convHtmlL (cfgOfL cfg) uc src
    | _, _, _ => bad
  | ["htmlf", cfg, src, uc] =>
    match cfg.toNat?, bytesOfHex src, Driver.Inl.ucsTok uc with
    | some cfg, some src, some uc => convHtmlF (cfgOf cfg) uc src
    | _, _, _ => bad
  | ["rect", cfg, src, uc] =>
    match cfg.toNat?, bytesOfHex src, Driver.Inl.ucsTok uc with
    | some cfg, some src, some uc =>
      match parseDocX (cfgOf cfg) true uc src with
      | .ok t =>
        if !rectB t then "not-rectangular"
        else
          match storeRect (cfgOf cfg) src with
          | .ok true => "ok"
          | .ok false => "store-not-rectangular"
          | .error e => "err:" ++ e.str
      | .error e => "err:" ++ e.str
    | _, _, _ => bad
  | ["tree", cfg, src] =>
    match cfg.toNat? with
    | some cfg =>
      hx src fun src =>
        match blockPhaseX (cfgOf cfg) false src with
        | .ok st => (GM.Blocks.treeOf st.nodes st.nodes.length 0).str
        | .error e => e.str
    | none => bad
  | _ => bad

end Driver
