import Driver.Common
import GM.Model.Render
import GM.Spec.Url
namespace Driver
open GM GM.Spec

/-- `url emit <kind> <hex>`: exactly the href/src value expressions of GM.Props.C04 (safe mode), for a node that
    holds the given bytes as destination / autolink URL; then the spec's verdict on that value.
    `url guard <hex>`: the spec's scheme reader and html.IsDangerousURL side by side on one (cleaned) value. -/
def handleUrl : List String → String
  | ["emit", k, v] => hx v fun b =>
    let val : Option Bytes :=
      if k == "link" || k == "image" then some (urlOut false (urlEscape b true))
      else if k == "auto" || k == "email" then
        some ((if (k == "email") && !mailtoPrefixed b (strBytes "mailto:") then strBytes "mailto:" else []) ++
          urlOut false (urlEscape b false))
      else none
    match val with
    | some x => hexOfBytes x ++ " " ++ boolStr (hrefDangerous lookupEntity x)
    | none => bad
  | ["guard", v] => hx v fun b => boolStr (dangerousUrl b) ++ " " ++ boolStr (isDangerousURL b)
  | _ => bad

end Driver
