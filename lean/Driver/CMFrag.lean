/-
  Driver.CMFrag — line protocol for the FRAGMENT of CommonMark documents of GM.Spec.CMFrag (the documents for which
  conformance of the goldmark model is proved): a pseudo-random generator and an exhaustive small scope of fragment
  documents, served to the harness component `cmfrag`, which converts their source with the real goldmark and compares
  with `expectedF`; plus two self checks evaluated in Lean (the goldmark model on the same document, and the fragment
  against the spec-side model GM.Spec.CommonMark through `embed`). Core Lean only; imports no proof module.

  Adding a block kind to the fragment: one alternative in `genBlock`, one or two `Family` entries in `families`.
  Stage 4 (`GDoc`: paragraphs, ATX headings, thematic breaks): `genGDoc`, `gfamilies`, ops `ggen` / `genum` / `gcount`.
  Stage 5 (`HDoc`: the same plus fenced code blocks): `genHDoc`, `hfamilies`, ops `hgen` / `henum` / `hcount`.
  Stage 6 (`KDoc`: the same blocks without a blank line in between where allowed): `genKDoc`, `kfamilies`, ops `kgen` /
  `kenum` / `kcount`. Stage 7 (the same documents, `trail` forced to 0, without the final line feed): ops `egen` /
  `eenum` / `ecount`. Stage 8 (`RDoc`: paragraphs whose lines contain code spans): `genRDoc`, `rfamilies`, ops `rgen` /
  `renum` / `rcount`. Stage 9 (`BDoc`: paragraphs whose lines may end in a backslash hard line break): `genBDoc`,
  `bfamilies`, ops `bgen` / `benum` / `bcount`.
-/
import Driver.Common
import GM.Spec.CMFrag
import GM.Spec.CMGen
import GM.Spec.CommonMark
import GM.Model.Convert
namespace Driver
namespace CMFrag
open GM GM.Spec.CM GM.Spec.CMFrag

/-! ## random fragment documents (SplitMix generator monad `G` of GM.Spec.CMGen) -/

def lit (c : UInt8) : TChar := ⟨c, .lit⟩

def lits (s : String) : FLine := (strBytes s).map lit

def punct : List UInt8 := printableAll.filter isAsciiPunct

def alnums : List UInt8 := letters ++ strBytes "0123456789"

/-- every spelling: literal, backslash, decimal (0..6 zeros; `spellChar` caps the total at 7 digits), hexadecimal
    (0..5 zeros, either `x`, either digit case), named -/
def genSpelling : G Esc := do
  let r ← below 100
  if r < 28 then return .lit
  else if r < 46 then return .bs
  else if r < 62 then return .dec (← below 7)
  else if r < 82 then return .hex (← below 6) (← chance 50) (← chance 50)
  else return .named

/-- a literal `!` is the one spelling outside the fragment (`charOK`): write it with a backslash -/
def inFrag (t : TChar) : TChar := if charOK t then t else ⟨t.c, .bs⟩

/-- one step of the interior of a line: usually one character, sometimes a run of spaces -/
def genPiece : G (List TChar) := do
  let r ← below 100
  if r < 32 then return [lit (← pickL letters)]
  else if r < 42 then return [lit (UInt8.ofNat (48 + (← below 10)))]
  else if r < 56 then return List.replicate (1 + (← below 3)) (lit 32)
  else if r < 60 then return [⟨32, ← genSpelling⟩]
  else if r < 66 then return [⟨← pickL alnums, ← genSpelling⟩]
  else return [inFrag ⟨← pickL punct, ← genSpelling⟩]

def genPieces : Nat → G (List TChar)
  | 0 => return []
  | n + 1 => do
    let p ← genPiece
    let rest ← genPieces n
    return p ++ rest

/-- 1..12 characters: a literal letter, anything `charOK`, a literal letter or digit -/
def genLine : G FLine := do
  let more ← below 12
  let a := lit (← pickL letters)
  if more == 0 then return [a]
  let mid := (← genPieces (more - 1)).take (more - 1)
  let z := lit (← pickL alnums)
  return [a] ++ mid ++ [z]

def genLines : Nat → G (List FLine)
  | 0 => return []
  | n + 1 => do
    let l ← genLine
    let rest ← genLines n
    return l :: rest

def genPara : G FBlock := do return .para (← genLines (1 + (← below 4)))

/-- the block kinds of the fragment (one line per kind) -/
def genBlock : G FBlock := do
  let kinds : List (G FBlock) := [genPara]
  let k ← below kinds.length
  kinds.getD k genPara

def genItems : Nat → G (List FItem)
  | 0 => return []
  | n + 1 => do
    let gap ← below 4
    let b ← genBlock
    let rest ← genItems n
    return { gap := gap, block := b } :: rest

def genDocM (size : Nat) : G FDoc := do
  let n ← below (max size 1)
  let items ← genItems (n + 1)
  let trail ← below 4
  return { items := items, trail := trail }

def genFrag (seed size : Nat) : FDoc :=
  (genDocM size |>.run { s := UInt64.ofNat (seed * 2654435761 + size) }).1

/-! ## the exhaustive small scope: a list of finite families, indexed one after the other -/

structure Family where
  count : Nat
  doc : Nat → FDoc

def oneLine (l : FLine) : FDoc := { items := [{ block := .para [l] }] }

/-- (a) `a` X `z` for each of the 95 printable characters × 8 spellings (the last: literal behind a space);
    the two literal spellings of `!` are outside the fragment and answered `skip` -/
def famChars : Family where
  count := 95 * 8
  doc i :=
    let c := UInt8.ofNat (32 + i / 8)
    let mid : List TChar := match i % 8 with
      | 0 => [⟨c, .lit⟩]
      | 1 => [⟨c, .bs⟩]
      | 2 => [⟨c, .dec 0⟩]
      | 3 => [⟨c, .dec 3⟩]
      | 4 => [⟨c, .hex 0 false false⟩]
      | 5 => [⟨c, .hex 2 true true⟩]
      | 6 => [⟨c, .named⟩]
      | _ => [lit 32, ⟨c, .lit⟩]
    oneLine ([lit 97] ++ mid ++ [lit 122])

/-- (a') the longest numeric references: `a` X `z` with 7 decimal digits, 6 hexadecimal digits (both cases), and one
    zero less (`spellChar` caps the padding) -/
def famPads : Family where
  count := 95 * 4
  doc i :=
    let c := UInt8.ofNat (32 + i / 4)
    let e : Esc := match i % 4 with
      | 0 => .dec 7
      | 1 => .hex 6 false true
      | 2 => .hex 6 true false
      | _ => .dec (6 - (decDigits c.toNat).length)
    oneLine [lit 97, ⟨c, e⟩, lit 122]

def linePool : List FLine := [lits "ab", lits "c d", [lit 101, ⟨38, .named⟩, lit 102], lits "g"]

def poolLine (k : Nat) : FLine := linePool.getD (k % linePool.length) (lits "q")

/-- paragraphs from base-9 digits: digit % 3 + 1 lines, digit / 3 extra blank lines in front -/
def shapeItems (off : Nat) : Nat → Nat → Nat → List FItem
  | 0, _, _ => []
  | n + 1, p, code =>
    let d := code % 9
    let lines := (List.range (d % 3 + 1)).map fun j => poolLine (off + 3 * p + j)
    { gap := d / 3, block := .para lines } :: shapeItems off n (p + 1) (code / 9)

/-- (b) all shapes of `n` paragraphs: 1..3 lines each × gap 0..2 each × trail 0..2 × 3 rotations of the line pool -/
def famShapes (n : Nat) : Family where
  count := 9 ^ n * 9
  doc i := { items := shapeItems (i / 3 % 3) n 0 (i / 9), trail := i % 3 }

/-- (c) one-character lines -/
def famOne : Family where
  count := letters.length
  doc i := oneLine [lit (letters.getD i 97)]

/-- (c) two-character lines -/
def famTwo : Family where
  count := letters.length * alnums.length
  doc i := oneLine [lit (letters.getD (i / alnums.length) 97), lit (alnums.getD (i % alnums.length) 97)]

/-- characters that open, close or belong to some construct of the specification, in a spelling that keeps them text -/
def notable : List TChar :=
  (strBytes " \\&*_`[]<>()\"#-=:/.;'~|+1x@{!").map (fun c => inFrag (lit c)) ++
    [⟨38, .named⟩, ⟨38, .dec 0⟩, ⟨33, .named⟩, ⟨32, .dec 0⟩, ⟨92, .hex 0 false false⟩, ⟨59, .bs⟩]

/-- (d) `a` X Y `z` for all pairs of notable characters -/
def famPairs : Family where
  count := notable.length * notable.length
  doc i :=
    oneLine [lit 97, notable.getD (i / notable.length) (lit 120), notable.getD (i % notable.length) (lit 120), lit 122]

/-- (e) two lines / two paragraphs whose first ends and whose second begins with each letter class -/
def famJoin : Family where
  count := 4 * 9
  doc i :=
    let l1 := poolLine (i % 4)
    let l2 := poolLine (i / 4 % 3 + 1)
    if i / 12 == 0 then { items := [{ block := .para [l1, l2] }] }
    else if i / 12 == 1 then { items := [{ block := .para [l1] }, { block := .para [l2] }] }
    else { items := [{ gap := 1, block := .para [l1] }, { gap := 2, block := .para [l2, l1] }], trail := 1 }

def families : List Family :=
  [famChars, famPads, famShapes 1, famShapes 2, famShapes 3, famOne, famTwo, famPairs, famJoin]

def enumCount : Nat := families.foldl (fun acc f => acc + f.count) 0

def enumIn : List Family → Nat → Option FDoc
  | [], _ => none
  | f :: rest, i => if i < f.count then some (f.doc i) else enumIn rest (i - f.count)

def enumDoc (i : Nat) : Option FDoc := enumIn families i

/-! ## answers -/

/-- the renderer options of the proved statement: `html.WithUnsafe(), html.WithXHTML()` -/
def ropts : GM.Convert.ROpts := { unsafe_ := true, xhtml := true, hardWraps := false }

def answer (d : FDoc) : String :=
  if fragB d then s!"{hexOfBytes (spellF d)} {hexOfBytes (expectedF d)}" else "skip"

/-- the goldmark model on the document's source against the prescribed HTML -/
def modelAnswer (d : FDoc) : String :=
  if !fragB d then "skip" else
  match GM.Convert.convertCore [] ropts (spellF d) with
  | .ok h => if h == expectedF d then "ok" else s!"fail:model-differs {hexOfBytes h}"
  | .error e => s!"fail:model-differs {e.str}"

/-- the fragment against the spec-side model: same HTML; same source when there are no extra blank lines; the embedded
    document satisfies the spec model's side condition -/
def specAnswer (d : FDoc) : String :=
  if !fragB d then "skip" else
  let e := embed d
  if expectedF d != expected e then s!"fail:spec-expected {hexOfBytes (expected e)}"
  else if noExtraBlanks d && spellF d != spell e then s!"fail:spec-spell {hexOfBytes (spell e)}"
  else if !wellFormed e then "fail:spec-wellformed"
  else "ok"

/-! ## stage 4: paragraphs, ATX headings and thematic breaks (`GDoc`) -/

/-- paragraph 50 %, heading 30 % (level 1..6, text = a fragment line), thematic break 20 % (3 characters, 3..7 long) -/
def genGBlock : G GBlock := do
  let r ← below 100
  if r < 50 then return .para (← genLines (1 + (← below 4)))
  else if r < 80 then
    let level ← below 6
    return .heading (level + 1) (← genLine)
  else
    let c ← below 3
    return .thematic c (← below 5)

def genGItems : Nat → G (List GItem)
  | 0 => return []
  | n + 1 => do
    let gap ← below 4
    let b ← genGBlock
    let rest ← genGItems n
    return { gap := gap, block := b } :: rest

def genGDocM (size : Nat) : G GDoc := do
  let n ← below (max size 1)
  let items ← genGItems (n + 1)
  let trail ← below 4
  return { items := items, trail := trail }

def genGDoc (seed size : Nat) : GDoc :=
  (genGDocM size |>.run { s := UInt64.ofNat (seed * 2654435761 + size + 77) }).1

structure GFamily where
  count : Nat
  doc : Nat → GDoc

/-- heading texts: one letter, plain, interior spaces, `#` in its three escaped spellings (alone, between spaces, as a
    would-be closing sequence in front of a final digit), a final digit, other escaped punctuation -/
def headingPool : List FLine :=
  [ lits "a", lits "ab", lits "c d e", lits "f  g", lits "h1",
    [lit 97, ⟨35, .bs⟩, lit 98],
    [lit 97, ⟨35, .named⟩, lit 98],
    [lit 97, ⟨35, .dec 0⟩, lit 98],
    [lit 97, ⟨35, .hex 0 false false⟩, lit 98],
    [lit 97, lit 32, ⟨35, .bs⟩, lit 32, lit 98],
    [lit 97, lit 32, ⟨35, .bs⟩, ⟨35, .bs⟩, lit 32, lit 49],
    [lit 97, lit 32, ⟨35, .dec 0⟩, ⟨35, .named⟩, lit 32, lit 122],
    [lit 101, ⟨38, .named⟩, lit 102],
    [lit 120, lit 32, ⟨42, .bs⟩, lit 32, lit 121, ⟨95, .bs⟩, lit 122],
    [lit 97, lit 32, ⟨60, .named⟩, lit 32, ⟨45, .lit⟩, ⟨45, .lit⟩, ⟨45, .lit⟩, lit 32, lit 98] ]

def poolHeading (k : Nat) : FLine := headingPool.getD (k % headingPool.length) (lits "q")

/-- (g-a) one heading: 6 levels × the text pool × trail 0..1 × gap 0..1 -/
def gfamHeadings : GFamily where
  count := 6 * headingPool.length * 4
  doc i :=
    let j := i / 4
    { items := [{ gap := i / 2 % 2, block := .heading (j % 6 + 1) (poolHeading (j / 6)) }], trail := i % 2 }

def thematicLens : List Nat := [0, 1, 2, 5]

/-- (g-b) one thematic break: 3 characters × 4 lengths × trail 0..1 × gap 0..1 -/
def gfamThematic : GFamily where
  count := 3 * thematicLens.length * 4
  doc i :=
    let j := i / 4
    { items := [{ gap := i / 2 % 2, block := .thematic (j % 3) (thematicLens.getD (j / 3) 0) }], trail := i % 2 }

/-- the six block kinds of the sequences: paragraph of 1 line, of 2 lines, heading (level = position + 1), `---`,
    `***`, `___` -/
def kindBlock (pos kind : Nat) : GBlock :=
  match kind with
  | 0 => .para [poolLine pos]
  | 1 => .para [poolLine pos, poolLine (pos + 1)]
  | 2 => .heading (pos % 6 + 1) (poolHeading (pos + 2))
  | 3 => .thematic 1 0
  | 4 => .thematic 0 0
  | _ => .thematic 2 0

/-- base-12 digits: kind = digit % 6, gap = digit / 6 -/
def seqItems : Nat → Nat → Nat → List GItem
  | 0, _, _ => []
  | n + 1, pos, code =>
    { gap := code % 12 / 6, block := kindBlock pos (code % 12 % 6) } :: seqItems n (pos + 1) (code / 12)

/-- (g-c) every sequence of `n` block kinds × gap 0..1 each × trail 0..1 -/
def gfamSeq (n : Nat) : GFamily where
  count := 12 ^ n * 2
  doc i := { items := seqItems n 0 (i / 2), trail := i % 2 }

/-- (g-d) the empty document and blank lines only -/
def gfamEmpty : GFamily where
  count := 3
  doc i := { items := [], trail := i }

def gfamilies : List GFamily := [gfamHeadings, gfamThematic, gfamSeq 1, gfamSeq 2, gfamSeq 3, gfamEmpty]

def countG : Nat := gfamilies.foldl (fun acc f => acc + f.count) 0

def enumGIn : List GFamily → Nat → Option GDoc
  | [], _ => none
  | f :: rest, i => if i < f.count then some (f.doc i) else enumGIn rest (i - f.count)

def enumG (i : Nat) : Option GDoc := enumGIn gfamilies i

def answerG (d : GDoc) : String :=
  if gfragB d then s!"{hexOfBytes (spellG d)} {hexOfBytes (expectedG d)}" else "skip"

def modelAnswerG (d : GDoc) : String :=
  if !gfragB d then "skip" else
  match GM.Convert.convertCore [] ropts (spellG d) with
  | .ok h => if h == expectedG d then "ok" else s!"fail:model-differs {hexOfBytes h}"
  | .error e => s!"fail:model-differs {e.str}"

def specAnswerG (d : GDoc) : String :=
  if !gfragB d then "skip" else
  let e := gembed d
  if expectedG d != expected e then s!"fail:spec-expected {hexOfBytes (expected e)}"
  else if gnoExtraBlanks d && !d.items.isEmpty && spellG d != spell e then s!"fail:spec-spell {hexOfBytes (spell e)}"
  else if !wellFormed e then "fail:spec-wellformed"
  else "ok"

/-! ## stage 5: fenced code blocks (`HDoc`) -/

/-- characters with a meaning somewhere in Markdown or HTML: they are plain content inside a fence -/
def codeSpecial : List UInt8 := strBytes "<&>\"`~ #-*\\_[]!"

def genCodeChars : Nat → G Bytes
  | 0 => return []
  | n + 1 => do
    let c ← if (← chance 40) then pickL codeSpecial else pickL printableAll
    let rest ← genCodeChars n
    return c :: rest

/-- lines that would open a block outside a fence -/
def codeFixed : List Bytes :=
  [strBytes "# x", strBytes "- y", strBytes "> z", strBytes "***", strBytes "---", strBytes "1. a", strBytes "<div>",
   strBytes "&amp;", strBytes "[a]: /u", strBytes "x  ", strBytes "\\", strBytes "a\\"]

/-- a content line: empty 20 %, a run of the OTHER fence character 8 %, a would-be block opener 12 %, else 1..12
    printable characters whose first is neither a space nor the fence character (15 % of them end with spaces) -/
def genCodeLine (tilde : Bool) : G Bytes := do
  let fc := fenceChar tilde
  let r ← below 100
  if r < 20 then return []
  else if r < 28 then return List.replicate (3 + (← below 3)) (fenceChar (!tilde))
  else if r < 40 then pickL codeFixed
  else
    let first ← pickL (printableAll.filter fun c => c != 32 && c != fc)
    let more ← below 12
    let rest ← genCodeChars more
    let sp ← if (← chance 15) then below 3 else pure 0
    return (first :: rest ++ List.replicate sp 32).take 12

def genCodeLines (tilde : Bool) : Nat → G (List Bytes)
  | 0 => return []
  | n + 1 => do
    let l ← genCodeLine tilde
    let rest ← genCodeLines tilde n
    return l :: rest

def genInfo : Nat → G Bytes
  | 0 => return []
  | n + 1 => do
    let c ← pickL alnums
    let rest ← genInfo n
    return c :: rest

/-- base block 65 %, fenced code 35 % (either fence character, 3..6 long, info empty 40 % or 1..6 letters/digits,
    0..5 content lines) -/
def genHBlock : G HBlock := do
  if (← chance 65) then return .base (← genGBlock)
  let tilde ← chance 50
  let n ← below 4
  let info ← if (← chance 40) then pure [] else genInfo (1 + (← below 6))
  let lines ← genCodeLines tilde (← below 6)
  return .fcode tilde n info lines

def genHItems : Nat → G (List HItem)
  | 0 => return []
  | n + 1 => do
    let gap ← below 4
    let b ← genHBlock
    let rest ← genHItems n
    return { gap := gap, block := b } :: rest

def genHDocM (size : Nat) : G HDoc := do
  let n ← below (max size 1)
  let items ← genHItems (n + 1)
  let trail ← below 4
  return { items := items, trail := trail }

def genHDoc (seed size : Nat) : HDoc :=
  (genHDocM size |>.run { s := UInt64.ofNat (seed * 2654435761 + size + 555) }).1

structure HFamily where
  count : Nat
  doc : Nat → HDoc

/-- content of the single fences: zero lines, one empty line, plain, escaped output, trailing space, would-be heading /
    list item / quote, a run of the other fence character, two lines, line + empty + line, two empty lines -/
def codePool (tilde : Bool) : List (List Bytes) :=
  [ [], [[]], [strBytes "x"], [strBytes "<a&b>"], [strBytes "t \"q\" "], [strBytes "# h"], [strBytes "- i"],
    [strBytes "> q"], [List.replicate 3 (fenceChar (!tilde))], [strBytes "x", strBytes "y z"],
    [strBytes "x", [], strBytes "y"], [[], []] ]

def infoPool : List Bytes := [[], strBytes "go", strBytes "x1"]

/-- (h-a) one fence: 2 fence characters × 3 lengths × 3 infos × 12 contents × trail 0..1 -/
def hfamFence : HFamily where
  count := 2 * 3 * 3 * 12 * 2
  doc i :=
    let tilde := i / 2 % 2 == 1
    let n := i / 4 % 3
    let info := infoPool.getD (i / 12 % 3) []
    let lines := (codePool tilde).getD (i / 36 % 12) []
    { items := [{ block := .fcode tilde n info lines }], trail := i % 2 }

/-- the five block kinds of the pairs: paragraph, heading, `---`, backtick fence with info and one line, tilde fence
    without lines -/
def hkindBlock (pos kind : Nat) : HBlock :=
  match kind with
  | 0 => .base (.para [poolLine pos])
  | 1 => .base (.heading (pos + 2) (poolHeading (pos + 2)))
  | 2 => .base (.thematic 1 0)
  | 3 => .fcode false 0 (strBytes "go") [strBytes "x"]
  | _ => .fcode true 0 [] []

/-- (h-b) every ordered pair of kinds × gap 0..1 each × trail 0..1 -/
def hfamPairs : HFamily where
  count := 25 * 4 * 2
  doc i :=
    let j := i / 8
    { items := [{ gap := i / 2 % 2, block := hkindBlock 0 (j / 5) }, { gap := i / 4 % 2, block := hkindBlock 1 (j % 5) }],
      trail := i % 2 }

/-- (h-c) fence of length 4, one blank line, fence of the same / the other character of length 3..5 whose content
    starts with an empty line -/
def hfamTwoFences : HFamily where
  count := 2 * 2 * 3 * 2
  doc i :=
    let t1 := i / 2 % 2 == 1
    let t2 := i / 4 % 2 == 1
    let n2 := i / 8 % 3
    { items := [{ block := .fcode t1 1 [] [strBytes "a"] }, { block := .fcode t2 n2 (strBytes "x1") [[], strBytes "b"] }],
      trail := i % 2 }

def hfamilies : List HFamily := [hfamFence, hfamPairs, hfamTwoFences]

def countH : Nat := hfamilies.foldl (fun acc f => acc + f.count) 0

def enumHIn : List HFamily → Nat → Option HDoc
  | [], _ => none
  | f :: rest, i => if i < f.count then some (f.doc i) else enumHIn rest (i - f.count)

def enumH (i : Nat) : Option HDoc := enumHIn hfamilies i

def answerH (d : HDoc) : String :=
  if hfragB d then s!"{hexOfBytes (spellH d)} {hexOfBytes (expectedH d)}" else "skip"

def modelAnswerH (d : HDoc) : String :=
  if !hfragB d then "skip" else
  match GM.Convert.convertCore [] ropts (spellH d) with
  | .ok h => if h == expectedH d then "ok" else s!"fail:model-differs {hexOfBytes h}"
  | .error e => s!"fail:model-differs {e.str}"

def specAnswerH (d : HDoc) : String :=
  if !hfragB d then "skip" else
  let e := hembed d
  if expectedH d != expected e then s!"fail:spec-expected {hexOfBytes (expected e)}"
  else if hnoExtraBlanks d && !d.items.isEmpty && spellH d != spell e then s!"fail:spec-spell {hexOfBytes (spell e)}"
  else if !wellFormed e then "fail:spec-wellformed"
  else "ok"

/-! ## stage 6: blocks directly behind each other (`KDoc`) -/

/-- blocks as in `genHDoc`; a later block follows without a blank line with probability 50 % where `kabutOK` allows
    it, else behind 1..3 blank lines; 0..2 blank lines in front of the first block -/
def genKItems : Option HBlock → Nat → G (List KItem)
  | _, 0 => return []
  | prev, n + 1 => do
    let b ← genHBlock
    let sep ← match prev with
      | none => below 3
      | some a => do
        let abut ← chance 50
        let k ← below 3
        pure (if abut && kabutOK a b then 0 else 1 + k)
    let rest ← genKItems (some b) n
    return { sep := sep, block := b } :: rest

def genKDocM (size : Nat) : G KDoc := do
  let n ← below (max size 1)
  let items ← genKItems none (n + 1)
  let trail ← below 3
  return { items := items, trail := trail }

def genKDoc (seed size : Nat) : KDoc :=
  (genKDocM size |>.run { s := UInt64.ofNat (seed * 2654435761 + size + 6006) }).1

structure KFamily where
  count : Nat
  doc : Nat → KDoc

/-- the nine block kinds of the stage-6 scope: paragraph of 1 line, of 2 lines, heading (level = position + 1), `---`,
    `***`, `___`, backtick fence with one line, tilde fence without lines, backtick fence with info -/
def kkindBlock (pos kind : Nat) : HBlock :=
  match kind with
  | 0 => .base (.para [poolLine pos])
  | 1 => .base (.para [poolLine pos, poolLine (pos + 1)])
  | 2 => .base (.heading (pos % 6 + 1) (poolHeading (pos + 2)))
  | 3 => .base (.thematic 1 0)
  | 4 => .base (.thematic 0 0)
  | 5 => .base (.thematic 2 0)
  | 6 => .fcode false 0 [] [strBytes "x"]
  | 7 => .fcode true 0 [] []
  | _ => .fcode false 1 (strBytes "go") [strBytes "# h", []]

/-- base-18 digits: kind = digit % 9, sep = digit / 9 (the first block: sep 0) -/
def kseqItems : Nat → Nat → Nat → List KItem
  | 0, _, _ => []
  | n + 1, pos, code =>
    { sep := if pos == 0 then 0 else code % 18 / 9, block := kkindBlock pos (code % 18 % 9) } ::
      kseqItems n (pos + 1) (code / 18)

/-- (k-a) every sequence of `n` block kinds × sep 0..1 for each later block × trail 0..1; the combinations outside the
    fragment (text line or `---` directly behind a paragraph) are answered `skip` -/
def kfamSeq (n : Nat) : KFamily where
  count := 9 * 18 ^ (n - 1) * 2
  doc i := { items := kseqItems n 0 ((i / 2) % 9 + (i / 2) / 9 * 18), trail := i % 2 }

/-- four blocks without any blank line -/
def kchains : List (List Nat) :=
  [ [2, 0, 6, 2], [0, 6, 0, 7], [3, 0, 4, 0], [0, 2, 3, 0], [6, 7, 8, 6], [2, 2, 2, 2], [0, 5, 1, 4], [4, 5, 3, 3],
    [1, 8, 1, 2], [7, 0, 2, 6], [2, 3, 2, 0], [0, 4, 5, 1] ]

def kchainItems : Nat → List Nat → List KItem
  | _, [] => []
  | pos, k :: rest => { sep := 0, block := kkindBlock pos k } :: kchainItems (pos + 1) rest

/-- (k-b) the chains × trail 0..1 -/
def kfamChains : KFamily where
  count := kchains.length * 2
  doc i := { items := kchainItems 0 (kchains.getD (i / 2) []), trail := i % 2 }

def kfamilies : List KFamily := [kfamSeq 2, kfamSeq 3, kfamChains]

def countK : Nat := kfamilies.foldl (fun acc f => acc + f.count) 0

def enumKIn : List KFamily → Nat → Option KDoc
  | [], _ => none
  | f :: rest, i => if i < f.count then some (f.doc i) else enumKIn rest (i - f.count)

def enumK (i : Nat) : Option KDoc := enumKIn kfamilies i

def answerK (d : KDoc) : String :=
  if kfragB d then s!"{hexOfBytes (spellK d)} {hexOfBytes (expectedK d)}" else "skip"

def modelAnswerK (d : KDoc) : String :=
  if !kfragB d then "skip" else
  match GM.Convert.convertCore [] ropts (spellK d) with
  | .ok h => if h == expectedK d then "ok" else s!"fail:model-differs {hexOfBytes h}"
  | .error e => s!"fail:model-differs {e.str}"

def specAnswerK (d : KDoc) : String :=
  if !kfragB d then "skip" else
  let e := kembed d
  if expectedK d != expected e then s!"fail:spec-expected {hexOfBytes (expected e)}"
  else if knoExtraBlanks d && !d.items.isEmpty && spellK d != spell e then s!"fail:spec-spell {hexOfBytes (spell e)}"
  else if !wellFormed e then "fail:spec-wellformed"
  else "ok"

/-! stage 7: the stage-6 documents with `trail` forced to 0, written without the final line feed -/

def noTrailE (d : KDoc) : KDoc := { d with trail := 0 }

def answerE (d : KDoc) : String :=
  if kfragEB d then s!"{hexOfBytes (spellKE d)} {hexOfBytes (expectedK d)}" else "skip"

def modelAnswerE (d : KDoc) : String :=
  if !kfragEB d then "skip" else
  match GM.Convert.convertCore [] ropts (spellKE d) with
  | .ok h => if h == expectedK d then "ok" else s!"fail:model-differs {hexOfBytes h}"
  | .error e => s!"fail:model-differs {e.str}"

def specAnswerE (d : KDoc) : String :=
  if !kfragEB d then "skip" else
  let e := kembedE d
  if expectedK d != expected e then s!"fail:spec-expected {hexOfBytes (expected e)}"
  else if knoExtraBlanks d && spellKE d != spell e then s!"fail:spec-spell {hexOfBytes (spell e)}"
  else if !wellFormed e then "fail:spec-wellformed"
  else "ok"

/-! ## stage 8: code spans inside the text lines (`RDoc`, paragraphs only) -/

/-- characters that are suspicious directly next to a code-span delimiter, in a spelling that keeps them text:
    backtick and backslash (written with a backslash), both as references, space, `*`, `_`, `[`, `<`, `&` -/
def edgeChars : List TChar :=
  [lit 96, lit 92, ⟨96, .bs⟩, ⟨92, .bs⟩, ⟨96, .named⟩, ⟨92, .named⟩, ⟨96, .dec 0⟩, ⟨92, .hex 0 false false⟩,
   lit 32, lit 42, lit 95, lit 91, lit 60, lit 38, ⟨33, .bs⟩, lit 93, lit 62, lit 35]

/-- 0..4 steps of `genPiece`, with probability 25 % an `edgeChars` character at the front / at the end -/
def genEdgeText (front back : Bool) : G (List TChar) := do
  let mid ← genPieces (← below 5)
  let f ← if front && (← chance 25) then (do return [← pickL edgeChars]) else pure []
  let b ← if back && (← chance 25) then (do return [← pickL edgeChars]) else pure []
  return f ++ mid ++ b

def genCodeSpan : G RAtom := do return .code (← genInfo (1 + (← below 6)))

/-- `n` further code spans, each followed by a text atom (the last one ends with a literal letter or digit) -/
def genRTail : Nat → G (List RAtom)
  | 0 => return []
  | n + 1 => do
    let c ← genCodeSpan
    let t ← genEdgeText true (n != 0)
    let t ← if n == 0 then (do return t ++ [lit (← pickL alnums)])
      else if t.isEmpty then (do return [lit (← pickL (32 :: alnums))]) else pure t
    let rest ← genRTail n
    return c :: .txt t :: rest

/-- a line with 1..3 code spans -/
def genRLine : G RLine := do
  let a := lit (← pickL letters)
  let t ← genEdgeText false true
  let rest ← genRTail (1 + (← below 3))
  return .txt (a :: t) :: rest

def genRLines : Nat → G (List RLine)
  | 0 => return []
  | n + 1 => do
    let l ← genRLine
    let rest ← genRLines n
    return l :: rest

def genRItems : Nat → G (List RItem)
  | 0 => return []
  | n + 1 => do
    let gap ← below 3
    let ls ← genRLines (1 + (← below 3))
    let rest ← genRItems n
    return { gap := gap, lines := ls } :: rest

def genRDocM (size : Nat) : G RDoc := do
  let n ← below (max size 1)
  let items ← genRItems (n + 1)
  let trail ← below 3
  return { items := items, trail := trail }

def genRDoc (seed size : Nat) : RDoc :=
  (genRDocM size |>.run { s := UInt64.ofNat (seed * 2654435761 + size + 8008) }).1

structure RFamily where
  count : Nat
  doc : Nat → RDoc

def oneRLine (l : RLine) : RDoc := { items := [{ lines := [l] }] }

def rcode (s : String) : RAtom := .code (strBytes s)

def rtxt (s : String) : RAtom := .txt (lits s)

/-- lines of the fixed shapes: `a`x`b`, spaces around the span, two spans (text / a space between them), the span as
    second and as last-but-one atom of a longer line, longer contents, digits only, escaped output next to a span -/
def rlinePool : List RLine :=
  [ [rtxt "a", rcode "x", rtxt "b"],
    [rtxt "a ", rcode "x", rtxt " b"],
    [rtxt "a", rcode "x", rtxt "b", rcode "y", rtxt "c"],
    [rtxt "a", rcode "x", rtxt " ", rcode "y", rtxt "c"],
    [rtxt "a ", rcode "x1", rtxt " b ", rcode "Yz", rtxt " c ", rcode "q", rtxt " d"],
    [rtxt "ab cd", rcode "code", rtxt "e"],
    [rtxt "a", rcode "code", rtxt "bc de"],
    [rtxt "a", rcode "123456", rtxt "7"],
    [rtxt "a", rcode "x", .txt [⟨38, .named⟩, lit 98]],
    [.txt [lit 97, ⟨60, .named⟩], rcode "x", .txt [⟨62, .lit⟩, lit 98]],
    [.txt [lit 97, lit 96], rcode "x", .txt [lit 96, lit 98]],
    [.txt [lit 97, lit 92], rcode "x", .txt [lit 92, lit 98]],
    [rtxt "a", rcode "x", .txt [lit 96], rcode "y", rtxt "c"],
    [rtxt "a", rcode "x", .txt [lit 92], rcode "y", rtxt "c"],
    [rtxt "g"] ]

def poolRLine (k : Nat) : RLine := rlinePool.getD (k % rlinePool.length) [rtxt "q"]

/-- (r-a) every pool line alone × gap 0..1 × trail 0..1 -/
def rfamLines : RFamily where
  count := rlinePool.length * 4
  doc i := { items := [{ gap := i / 2 % 2, lines := [poolRLine (i / 4)] }], trail := i % 2 }

def spellings8 (c : UInt8) : List TChar :=
  [⟨c, .lit⟩, ⟨c, .bs⟩, ⟨c, .dec 0⟩, ⟨c, .dec 3⟩, ⟨c, .hex 0 false false⟩, ⟨c, .hex 2 true true⟩, ⟨c, .named⟩]

/-- (r-b) each of the 95 printable characters in 7 spellings directly BEFORE (`a` X `x` `z`) and directly AFTER
    (`a` `x` X `z`) a code span; a literal `!` is outside the fragment and answered `skip` -/
def rfamEdges : RFamily where
  count := 95 * 7 * 2
  doc i :=
    let c := UInt8.ofNat (32 + i / 14)
    let t := (spellings8 c).getD (i / 2 % 7) (lit 120)
    if i % 2 == 0 then oneRLine [.txt [lit 97, t], rcode "x", rtxt "z"]
    else oneRLine [rtxt "a", rcode "x", .txt [t, lit 122]]

/-- (r-c) each of the 95 printable characters in 7 spellings ALONE between two code spans -/
def rfamBetween : RFamily where
  count := 95 * 7
  doc i :=
    let c := UInt8.ofNat (32 + i / 7)
    let t := (spellings8 c).getD (i % 7) (lit 120)
    oneRLine [rtxt "a", rcode "x", .txt [t], rcode "y", rtxt "z"]

/-- paragraphs from base-6 digits: digit % 3 + 1 lines, digit / 3 extra blank lines in front -/
def rshapeItems (off : Nat) : Nat → Nat → Nat → List RItem
  | 0, _, _ => []
  | n + 1, p, code =>
    let d := code % 6
    let lines := (List.range (d % 3 + 1)).map fun j => poolRLine (off + 3 * p + j)
    { gap := d / 3, lines := lines } :: rshapeItems off n (p + 1) (code / 6)

/-- (r-d) all shapes of `n` paragraphs: 1..3 lines each × gap 0..1 each × trail 0..1 × 5 rotations of the line pool -/
def rfamShapes (n : Nat) : RFamily where
  count := 6 ^ n * 10
  doc i := { items := rshapeItems (i / 2 % 5 * 3) n 0 (i / 10), trail := i % 2 }

/-- (r-e) the empty document and blank lines only -/
def rfamEmpty : RFamily where
  count := 3
  doc i := { items := [], trail := i }

def rfamilies : List RFamily := [rfamLines, rfamEdges, rfamBetween, rfamShapes 1, rfamShapes 2, rfamEmpty]

def countR : Nat := rfamilies.foldl (fun acc f => acc + f.count) 0

def enumRIn : List RFamily → Nat → Option RDoc
  | [], _ => none
  | f :: rest, i => if i < f.count then some (f.doc i) else enumRIn rest (i - f.count)

def enumR (i : Nat) : Option RDoc := enumRIn rfamilies i

def answerR (d : RDoc) : String :=
  if rfragB d then s!"{hexOfBytes (spellR d)} {hexOfBytes (expectedR d)}" else "skip"

def modelAnswerR (d : RDoc) : String :=
  if !rfragB d then "skip" else
  match GM.Convert.convertCore [] ropts (spellR d) with
  | .ok h => if h == expectedR d then "ok" else s!"fail:model-differs {hexOfBytes h}"
  | .error e => s!"fail:model-differs {e.str}"

def specAnswerR (d : RDoc) : String :=
  if !rfragB d then "skip" else
  let e := rembed d
  if expectedR d != expected e then s!"fail:spec-expected {hexOfBytes (expected e)}"
  else if rnoExtraBlanks d && !d.items.isEmpty && spellR d != spell e then s!"fail:spec-spell {hexOfBytes (spell e)}"
  else if !wellFormed e then "fail:spec-wellformed"
  else "ok"

/-- the stage-8 ops; `none` for every other op -/
def withRDoc (k : RDoc → String) : List String → Option String
  | ["rgen", s, z] => some (nat s fun seed => nat z fun size => k (genRDoc seed size))
  | ["renum", i] => some (nat i fun i =>
      match enumR i with
      | none => "end"
      | some d => k d)
  | _ => none

/-! ## stage 9: hard line breaks written with a backslash (`BDoc`, paragraphs only) -/

/-- `n` lines as `genLine`; every line but the last is hard with probability 50 % -/
def genBLines : Nat → G (List BLine)
  | 0 => return []
  | n + 1 => do
    let l ← genLine
    let hard ← if n == 0 then pure false else chance 50
    let rest ← genBLines n
    return { cs := l, hard := hard } :: rest

def genBItems : Nat → G (List BItem)
  | 0 => return []
  | n + 1 => do
    let gap ← below 4
    let ls ← genBLines (1 + (← below 4))
    let rest ← genBItems n
    return { gap := gap, lines := ls } :: rest

def genBDocM (size : Nat) : G BDoc := do
  let n ← below (max size 1)
  let items ← genBItems (n + 1)
  let trail ← below 4
  return { items := items, trail := trail }

def genBDoc (seed size : Nat) : BDoc :=
  (genBDocM size |>.run { s := UInt64.ofNat (seed * 2654435761 + size + 9009) }).1

structure BFamily where
  count : Nat
  doc : Nat → BDoc

def onePara (ls : List BLine) : BDoc := { items := [{ lines := ls }] }

def bsoft (l : FLine) : BLine := { cs := l }

def bhard (l : FLine) : BLine := { cs := l, hard := true }

/-- (b-a) the LAST character of a hard line: each of the 95 printable characters in 7 spellings, as the end of the
    first line of two (`a` X `\` / `cd`), of the middle line of three, and of two hard lines behind each other; only a
    letter or digit written literally is inside the fragment (`lastOK`), the other indices are answered `skip` -/
def bfamLast : BFamily where
  count := 95 * 7 * 3
  doc i :=
    let c := UInt8.ofNat (32 + i / 21)
    let t := (spellings8 c).getD (i / 3 % 7) (lit 120)
    match i % 3 with
    | 0 => onePara [bhard [lit 97, t], bsoft (lits "cd")]
    | 1 => onePara [bsoft (lits "ab"), bhard [lit 99, t], bsoft (lits "ef")]
    | _ => onePara [bhard [lit 97, t], bhard [lit 98, t], bsoft (lits "g")]

/-- lines with the flags from the bits of `code` -/
def bflagLines (off : Nat) : Nat → Nat → Nat → List BLine
  | 0, _, _ => []
  | n + 1, j, code => { cs := poolLine (off + j), hard := code % 2 == 1 } :: bflagLines off n (j + 1) (code / 2)

/-- (b-b) one paragraph of 2 and of 3 lines × every combination of flags on ALL lines (a hard last line is outside
    the fragment: `skip`) × 4 rotations of the line pool × gap 0..1 × trail 0..1 -/
def bfamFlags : BFamily where
  count := (4 + 8) * 4 * 4
  doc i :=
    let j := i / 16
    let ls := if j < 4 then bflagLines (i / 4 % 4) 2 0 j else bflagLines (i / 4 % 4) 3 0 (j - 4)
    { items := [{ gap := i / 2 % 2, lines := ls }], trail := i % 2 }

/-- (b-c) two paragraphs of two lines × the flags of their first lines × gap 0..1 in between × 4 rotations; and a
    paragraph of one line in front of / behind a paragraph with a hard line -/
def bfamParas : BFamily where
  count := 4 * 2 * 4 + 8
  doc i :=
    if i < 32 then
      let r := i / 8
      { items := [{ lines := [{ cs := poolLine r, hard := i % 2 == 1 }, bsoft (poolLine (r + 1))] },
                  { gap := i / 4 % 2, lines := [{ cs := poolLine (r + 2), hard := i / 2 % 2 == 1 }, bsoft (poolLine (r + 3))] }] }
    else
      let k := i - 32
      let p1 : BItem := { lines := [bsoft (poolLine k)] }
      let p2 : BItem := { lines := [bhard (poolLine (k + 1)), bsoft (poolLine (k + 2))] }
      if k % 2 == 0 then { items := [p1, p2] } else { items := [p2, p1], trail := 1 }

/-- (b-d) hard lines of one character (each letter) and of two characters (each letter × each letter or digit) -/
def bfamShort : BFamily where
  count := letters.length + letters.length * alnums.length
  doc i :=
    if i < letters.length then onePara [bhard [lit (letters.getD i 97)], bsoft (lits "cd")]
    else
      let k := i - letters.length
      onePara [bhard [lit (letters.getD (k / alnums.length) 97), lit (alnums.getD (k % alnums.length) 97)], bsoft (lits "cd")]

/-- (b-e) the character in front of the last one of a hard line: `a` N `z` `\` and `a` N `1` `\` for every notable
    character (among them the escaped backslash: `a\\z\`), and two of them: `a` N M `z` `\` -/
def bfamBefore : BFamily where
  count := notable.length * 2 + notable.length * notable.length
  doc i :=
    if i < notable.length * 2 then
      onePara [bhard [lit 97, notable.getD (i / 2) (lit 120), lit (if i % 2 == 0 then 122 else 49)], bsoft (lits "cd")]
    else
      let k := i - notable.length * 2
      onePara [bhard [lit 97, notable.getD (k / notable.length) (lit 120), notable.getD (k % notable.length) (lit 120), lit 122],
               bsoft (lits "cd")]

/-- (b-f) the line behind a hard line: one letter (each letter), and a letter followed by each notable character -/
def bfamNext : BFamily where
  count := letters.length + notable.length
  doc i :=
    if i < letters.length then onePara [bhard (lits "ab"), bsoft [lit (letters.getD i 97)]]
    else onePara [bhard (lits "ab"), bsoft [lit 99, notable.getD (i - letters.length) (lit 120), lit 100]]

/-- (b-g) the empty document and blank lines only -/
def bfamEmpty : BFamily where
  count := 3
  doc i := { items := [], trail := i }

def bfamilies : List BFamily := [bfamLast, bfamFlags, bfamParas, bfamShort, bfamBefore, bfamNext, bfamEmpty]

def countB : Nat := bfamilies.foldl (fun acc f => acc + f.count) 0

def enumBIn : List BFamily → Nat → Option BDoc
  | [], _ => none
  | f :: rest, i => if i < f.count then some (f.doc i) else enumBIn rest (i - f.count)

def enumB (i : Nat) : Option BDoc := enumBIn bfamilies i

def answerB (d : BDoc) : String :=
  if bfragB d then s!"{hexOfBytes (spellBD d)} {hexOfBytes (expectedBD d)}" else "skip"

def modelAnswerB (d : BDoc) : String :=
  if !bfragB d then "skip" else
  match GM.Convert.convertCore [] ropts (spellBD d) with
  | .ok h => if h == expectedBD d then "ok" else s!"fail:model-differs {hexOfBytes h}"
  | .error e => s!"fail:model-differs {e.str}"

def specAnswerB (d : BDoc) : String :=
  if !bfragB d then "skip" else
  let e := bembed d
  if expectedBD d != expected e then s!"fail:spec-expected {hexOfBytes (expected e)}"
  else if bnoExtraBlanks d && !d.items.isEmpty && spellBD d != spell e then s!"fail:spec-spell {hexOfBytes (spell e)}"
  else if !wellFormed e then "fail:spec-wellformed"
  else "ok"

/-- the stage-9 ops; `none` for every other op -/
def withBDoc (k : BDoc → String) : List String → Option String
  | ["bgen", s, z] => some (nat s fun seed => nat z fun size => k (genBDoc seed size))
  | ["benum", i] => some (nat i fun i =>
      match enumB i with
      | none => "end"
      | some d => k d)
  | _ => none


def withDoc (k : FDoc → String) (kg : GDoc → String) (kh : HDoc → String) (kk : KDoc → String)
    (ke : KDoc → String) : List String → String
  | ["gen", s, z] => nat s fun seed => nat z fun size => k (genFrag seed size)
  | ["enum", i] => nat i fun i =>
      match enumDoc i with
      | none => "end"
      | some d => k d
  | ["ggen", s, z] => nat s fun seed => nat z fun size => kg (genGDoc seed size)
  | ["genum", i] => nat i fun i =>
      match enumG i with
      | none => "end"
      | some d => kg d
  | ["hgen", s, z] => nat s fun seed => nat z fun size => kh (genHDoc seed size)
  | ["henum", i] => nat i fun i =>
      match enumH i with
      | none => "end"
      | some d => kh d
  | ["kgen", s, z] => nat s fun seed => nat z fun size => kk (genKDoc seed size)
  | ["kenum", i] => nat i fun i =>
      match enumK i with
      | none => "end"
      | some d => kk d
  | ["egen", s, z] => nat s fun seed => nat z fun size => ke (noTrailE (genKDoc seed size))
  | ["eenum", i] => nat i fun i =>
      match enumK i with
      | none => "end"
      | some d => ke (noTrailE d)
  | _ => bad

/-! ## stage 10: a stage-6 document inside one block quote (`KDoc` with `qfragB`, `spellQ`, `expectedQ`, `qembed`) -/

/-- a character in a spelling whose source bytes are all `qcleanByte`: the character as it is when its spelling is
    clean already, else its named reference when that one is clean (`&ast;`, `&plus;`, `&lsqb;`), else a literal `x`
    (digits, `-`, numeric references) -/
def qcleanT (t : TChar) : TChar :=
  if (spellChar t).all qcleanByte then t
  else if (spellChar ⟨t.c, .named⟩).all qcleanByte then ⟨t.c, .named⟩
  else lit 120

def qcleanBytes (l : Bytes) : Bytes := l.map fun c => if qcleanByte c then c else 120

/-- thematic breaks are written with `_` -/
def qcleanBlock : HBlock → HBlock
  | .base (.para lines) => .base (.para (lines.map (·.map qcleanT)))
  | .base (.heading level text) => .base (.heading level (text.map qcleanT))
  | .base (.thematic _ n) => .base (.thematic 2 n)
  | .fcode tilde n info lines => .fcode tilde n (qcleanBytes info) (lines.map qcleanBytes)

/-- the stage-6 document with every excluded source byte replaced (block kinds, line counts, blank lines unchanged) -/
def qcleanDoc (d : KDoc) : KDoc := { d with items := d.items.map fun it => { it with block := qcleanBlock it.block } }

def genQDoc (seed size : Nat) : KDoc := qcleanDoc (genKDoc seed size)

/-- (q-a) one block of every stage-6 kind × 0..2 blank lines in front × 0..2 behind -/
def qfamEdge : KFamily where
  count := 9 * 3 * 3
  doc i := { items := [{ sep := i / 3 % 3, block := kkindBlock 0 (i / 9) }], trail := i % 3 }

/-- (q-b) fences with empty content lines, content lines that look like block starts or quote markers -/
def qcodePool : List (List Bytes) :=
  [ [[]], [[], []], [strBytes "x", [], strBytes "y"], [strBytes "> q"], [strBytes ">"], [strBytes "# h"], [strBytes "a "],
    [strBytes "<a&b>"], [strBytes "___"], [[], strBytes "x"], [strBytes "x", []] ]

def qfamCode : KFamily where
  count := 2 * qcodePool.length * 2 * 2
  doc i :=
    let tilde := i / 2 % 2 == 1
    let lines := qcodePool.getD (i / 4 % qcodePool.length) []
    let pre : List KItem := if i / (4 * qcodePool.length) % 2 == 1 then [{ sep := 0, block := .base (.para [poolLine 0]) }] else []
    { items := pre ++ [{ sep := 0, block := .fcode tilde 0 [] lines }], trail := i % 2 }

def qfamilies : List KFamily := kfamilies ++ [qfamEdge, qfamCode]

def countQ : Nat := qfamilies.foldl (fun acc f => acc + f.count) 0

def enumQ (i : Nat) : Option KDoc := (enumKIn qfamilies i).map qcleanDoc

def answerQ (d : KDoc) : String :=
  if qfragB d then s!"{hexOfBytes (spellQ d)} {hexOfBytes (expectedQ d)}" else "skip"

def modelAnswerQ (d : KDoc) : String :=
  if !qfragB d then "skip" else
  match GM.Convert.convertCore [] ropts (spellQ d) with
  | .ok h => if h == expectedQ d then "ok" else s!"fail:model-differs {hexOfBytes h}"
  | .error e => s!"fail:model-differs {e.str}"

def specAnswerQ (d : KDoc) : String :=
  if !qfragB d then "skip" else
  let e := qembed d
  if expectedQ d != expected e then s!"fail:spec-expected {hexOfBytes (expected e)}"
  else if !wellFormed e then "fail:spec-wellformed"
  else "ok"

/-- the source with every line `"> "` (marker, space, nothing else) written `">"` -/
def qtightBlank : Bytes → Bool → Bytes
  | [], _ => []
  | 62 :: 32 :: 10 :: cs, true => 62 :: 10 :: qtightBlank cs true
  | c :: cs, _ => c :: qtightBlank cs (c == 10)

/-- how the spec model spells the document (`spell (qembed d)`) compared with `spellQ d`: `same`; `blank` = the same
    except that blank lines inside the quote are `>` instead of `> `; `extra` = the document has blank lines the spec
    model does not spell (not `knoExtraBlanks`); else `differs` -/
def spellAnswerQ (d : KDoc) : String :=
  if !qfragB d then "skip" else
  let s := spell (qembed d)
  if s == spellQ d then "same"
  else if s == qtightBlank (spellQ d) true then "blank"
  else if !knoExtraBlanks d then "extra"
  else s!"differs {hexOfBytes s}"

/-- the stage-10 ops; `none` for every other op -/
def withQDoc (k : KDoc → String) : List String → Option String
  | ["qgen", s, z] => some (nat s fun seed => nat z fun size => k (genQDoc seed size))
  | ["qenum", i] => some (nat i fun i =>
      match enumQ i with
      | none => "end"
      | some d => k d)
  | _ => none

/-! ## stage 10 without the final line feed (`KDoc` with `qfragEB`, `spellQE`, `expectedQ`; `trail` forced to 0) -/

/-- the spec-model document with the choice "no final line ending" -/
def qembedE (d : KDoc) : Doc := { qembed d with finalNewline := false }

def answerQE (d : KDoc) : String :=
  if qfragEB d then s!"{hexOfBytes (spellQE d)} {hexOfBytes (expectedQ d)}" else "skip"

def modelAnswerQE (d : KDoc) : String :=
  if !qfragEB d then "skip" else
  match GM.Convert.convertCore [] ropts (spellQE d) with
  | .ok h => if h == expectedQ d then "ok" else s!"fail:model-differs {hexOfBytes h}"
  | .error e => s!"fail:model-differs {e.str}"

def specAnswerQE (d : KDoc) : String :=
  if !qfragEB d then "skip" else
  let e := qembedE d
  if expectedQ d != expected e then s!"fail:spec-expected {hexOfBytes (expected e)}"
  else if !wellFormed e then "fail:spec-wellformed"
  else "ok"

/-- the ops of stage 10 without the final line feed (the documents of `qgen` / `qenum` with `trail` forced to 0);
    `none` for every other op -/
def withQEDoc (k : KDoc → String) : List String → Option String
  | ["qegen", s, z] => some (nat s fun seed => nat z fun size => k (noTrailE (genQDoc seed size)))
  | ["qeenum", i] => some (nat i fun i =>
      match enumQ i with
      | none => "end"
      | some d => k (noTrailE d))
  | _ => none

/-! ## stage 11: simple emphasis next to code spans (`EDoc`, paragraphs only) -/

/-- a code span 30 %, `*x*` 35 %, `**x**` 35 %; content 1..6 letters and digits -/
def genEmAtom : G EAtomS := do
  let c ← genInfo (1 + (← below 6))
  let r ← below 100
  if r < 30 then return .code c else if r < 65 then return .em c else return .strong c

/-- `n` further atoms that are not text, each followed by a text atom (the last one ends with a literal letter or
    digit) -/
def genEmTail : Nat → G (List EAtomS)
  | 0 => return []
  | n + 1 => do
    let c ← genEmAtom
    let t ← genEdgeText true (n != 0)
    let t ← if n == 0 then (do return t ++ [lit (← pickL alnums)])
      else if t.isEmpty then (do return [lit (← pickL (32 :: alnums))]) else pure t
    let rest ← genEmTail n
    return c :: .txt t :: rest

/-- a line with 1..3 atoms that are not text -/
def genEmLine : G ELine := do
  let a := lit (← pickL letters)
  let t ← genEdgeText false true
  let rest ← genEmTail (1 + (← below 3))
  return .txt (a :: t) :: rest

def genEmLines : Nat → G (List ELine)
  | 0 => return []
  | n + 1 => do
    let l ← genEmLine
    let rest ← genEmLines n
    return l :: rest

def genEmItems : Nat → G (List EItem)
  | 0 => return []
  | n + 1 => do
    let gap ← below 3
    let ls ← genEmLines (1 + (← below 3))
    let rest ← genEmItems n
    return { gap := gap, lines := ls } :: rest

def genEmDocM (size : Nat) : G EDoc := do
  let n ← below (max size 1)
  let items ← genEmItems (n + 1)
  let trail ← below 3
  return { items := items, trail := trail }

def genEmDoc (seed size : Nat) : EDoc :=
  (genEmDocM size |>.run { s := UInt64.ofNat (seed * 2654435761 + size + 11011) }).1

structure EmFamily where
  count : Nat
  doc : Nat → EDoc

def oneEmLine (l : ELine) : EDoc := { items := [{ lines := [l] }] }

def emtxt (s : String) : EAtomS := .txt (lits s)
def emcode (s : String) : EAtomS := .code (strBytes s)
def emem (s : String) : EAtomS := .em (strBytes s)
def emstrong (s : String) : EAtomS := .strong (strBytes s)

/-- the four kinds of atoms that are not text, by index: `*x*`, `**x**`, a code span, `*xy*` -/
def emKind (k : Nat) (s : String) : EAtomS :=
  match k % 4 with
  | 0 => emem s
  | 1 => emstrong s
  | 2 => emcode s
  | _ => emem (s ++ "y")

/-- lines of the fixed shapes: emphasis touching text on both sides, between spaces, two emphases of either kind,
    emphasis next to a code span with one character between them, longer contents, digits only, an escaped `*`
    directly outside the delimiters -/
def emlinePool : List ELine :=
  [ [emtxt "a", emem "b", emtxt "c"],
    [emtxt "a", emstrong "b", emtxt "c"],
    [emtxt "a ", emem "b", emtxt " c"],
    [emtxt "a ", emstrong "b", emtxt " c"],
    [emtxt "a", emem "b", emtxt "c", emem "d", emtxt "e"],
    [emtxt "a", emem "b", emtxt "c", emstrong "d", emtxt "e"],
    [emtxt "a", emstrong "b", emtxt "c", emem "d", emtxt "e"],
    [emtxt "a", emstrong "b", emtxt "c", emstrong "d", emtxt "e"],
    [emtxt "a", emem "b", emtxt " ", emem "d", emtxt "e"],
    [emtxt "a", emstrong "b", emtxt " ", emem "d", emtxt "e"],
    [emtxt "a", emem "b", emtxt "c", emcode "d", emtxt "e"],
    [emtxt "a", emcode "b", emtxt "c", emem "d", emtxt "e"],
    [emtxt "a", emstrong "b", emtxt "c", emcode "d", emtxt "e"],
    [emtxt "a", emcode "b", emtxt " ", emstrong "d", emtxt "e"],
    [emtxt "a ", emem "x1", emtxt " b ", emstrong "Yz", emtxt " c ", emcode "q", emtxt " d"],
    [emtxt "ab cd", emem "word", emtxt "e"],
    [emtxt "a", emstrong "123456", emtxt "7"],
    [.txt [lit 97, lit 42], emem "x", .txt [lit 42, lit 98]],
    [.txt [lit 97, lit 42], emstrong "x", .txt [lit 42, lit 98]],
    [.txt [lit 97, lit 92], emem "x", .txt [lit 92, lit 98]],
    [.txt [lit 97, lit 95], emem "x", .txt [lit 95, lit 98]],
    [emtxt "a", emem "x", .txt [lit 42], emem "y", emtxt "c"],
    [emtxt "a", emem "x", .txt [lit 42], emstrong "y", emtxt "c"],
    [emtxt "a", emstrong "x", .txt [lit 42], emem "y", emtxt "c"],
    [emtxt "a", emem "b", emtxt "c", emem "d", emtxt "e", emem "f", emtxt "g"],
    [emtxt "a", emstrong "b", emtxt "c", emem "d", emtxt "e", emstrong "f", emtxt "g"],
    [emtxt "g"] ]

def poolEmLine (k : Nat) : ELine := emlinePool.getD (k % emlinePool.length) [emtxt "q"]

/-- (em-a) every pool line alone × gap 0..1 × trail 0..1 -/
def emfamLines : EmFamily where
  count := emlinePool.length * 4
  doc i := { items := [{ gap := i / 2 % 2, lines := [poolEmLine (i / 4)] }], trail := i % 2 }

/-- (em-b) each of the 95 printable characters in 7 spellings directly BEFORE the opening (`a` X `*x*` `z`) and
    directly AFTER the closing delimiter (`a` `*x*` X `z`), for `*` and for `**`; a literal `!` is outside the fragment
    and answered `skip` -/
def emfamEdges : EmFamily where
  count := 95 * 7 * 2 * 2
  doc i :=
    let c := UInt8.ofNat (32 + i / 28)
    let t := (spellings8 c).getD (i / 4 % 7) (lit 120)
    let e := emKind (i / 2 % 2) "x"
    if i % 2 == 0 then oneEmLine [.txt [lit 97, t], e, emtxt "z"]
    else oneEmLine [emtxt "a", e, .txt [t, lit 122]]

/-- (em-c) the same with the character ALONE in front of / behind the delimiter at the side of a space
    (`a ` X `*x*` `z` has X preceded by a space: the run then follows punctuation that follows white space) -/
def emfamEdgesSp : EmFamily where
  count := 95 * 7 * 2 * 2
  doc i :=
    let c := UInt8.ofNat (32 + i / 28)
    let t := (spellings8 c).getD (i / 4 % 7) (lit 120)
    let e := emKind (i / 2 % 2) "x"
    if i % 2 == 0 then oneEmLine [.txt [lit 97, lit 32, t], e, emtxt " z"]
    else oneEmLine [emtxt "a ", e, .txt [t, lit 32, lit 122]]

/-- (em-d) each of the 95 printable characters in 7 spellings ALONE between two atoms: all 16 ordered pairs of
    {`*x*`, `**x**`, code span, `*xy*`} -/
def emfamBetween : EmFamily where
  count := 95 * 7 * 16
  doc i :=
    let c := UInt8.ofNat (32 + i / 112)
    let t := (spellings8 c).getD (i / 16 % 7) (lit 120)
    oneEmLine [emtxt "a", emKind (i / 4 % 4) "x", .txt [t], emKind (i % 4) "w", emtxt "z"]

/-- paragraphs from base-6 digits: digit % 3 + 1 lines, digit / 3 extra blank lines in front -/
def emshapeItems (off : Nat) : Nat → Nat → Nat → List EItem
  | 0, _, _ => []
  | n + 1, p, code =>
    let d := code % 6
    let lines := (List.range (d % 3 + 1)).map fun j => poolEmLine (off + 3 * p + j)
    { gap := d / 3, lines := lines } :: emshapeItems off n (p + 1) (code / 6)

/-- (em-e) all shapes of `n` paragraphs: 1..3 lines each × gap 0..1 each × trail 0..1 × 9 rotations of the line pool -/
def emfamShapes (n : Nat) : EmFamily where
  count := 6 ^ n * 18
  doc i := { items := emshapeItems (i / 2 % 9 * 3) n 0 (i / 18), trail := i % 2 }

/-- (em-f) the empty document and blank lines only -/
def emfamEmpty : EmFamily where
  count := 3
  doc i := { items := [], trail := i }

def emfamilies : List EmFamily :=
  [emfamLines, emfamEdges, emfamEdgesSp, emfamBetween, emfamShapes 1, emfamShapes 2, emfamEmpty]

def countEm : Nat := emfamilies.foldl (fun acc f => acc + f.count) 0

def enumEmIn : List EmFamily → Nat → Option EDoc
  | [], _ => none
  | f :: rest, i => if i < f.count then some (f.doc i) else enumEmIn rest (i - f.count)

def enumEm (i : Nat) : Option EDoc := enumEmIn emfamilies i

def answerEm (d : EDoc) : String :=
  if efragB d then s!"{hexOfBytes (spellE d)} {hexOfBytes (expectedE d)}" else "skip"

def modelAnswerEm (d : EDoc) : String :=
  if !efragB d then "skip" else
  match GM.Convert.convertCore [] ropts (spellE d) with
  | .ok h => if h == expectedE d then "ok" else s!"fail:model-differs {hexOfBytes h}"
  | .error e => s!"fail:model-differs {e.str}"

def specAnswerEm (d : EDoc) : String :=
  if !efragB d then "skip" else
  let e := eembed d
  if expectedE d != expected e then s!"fail:spec-expected {hexOfBytes (expected e)}"
  else if enoExtraBlanks d && !d.items.isEmpty && spellE d != spell e then s!"fail:spec-spell {hexOfBytes (spell e)}"
  else if !wellFormed e then "fail:spec-wellformed"
  else "ok"

/-- the stage-11 ops; `none` for every other op -/
def withEmDoc (k : EDoc → String) : List String → Option String
  | ["emgen", s, z] => some (nat s fun seed => nat z fun size => k (genEmDoc seed size))
  | ["emenum", i] => some (nat i fun i =>
      match enumEm i with
      | none => "end"
      | some d => k d)
  | _ => none

/-! ## stage 12: indented code blocks (`IDoc`) -/

/-- a line of an indented code block (behind the four spaces): a would-be block opener 30 %, a run of fence characters
    8 %, else 1..12 printable characters whose first is not a space (15 % of them end with spaces) -/
def genIcLine : G Bytes := do
  let r ← below 100
  if r < 30 then pickL codeFixed
  else if r < 38 then return List.replicate (3 + (← below 3)) (if (← chance 50) then 96 else 126)
  else
    let first ← pickL (printableAll.filter fun c => c != 32)
    let more ← below 12
    let rest ← genCodeChars more
    let sp ← if (← chance 15) then below 3 else pure 0
    return (first :: rest ++ List.replicate sp 32).take 12

def genIcLines : Nat → G (List Bytes)
  | 0 => return []
  | n + 1 => do
    let l ← genIcLine
    let rest ← genIcLines n
    return l :: rest

/-- a block of stage 6 (65 %) or an indented code block of 1..4 lines (35 %; never behind an indented code block);
    a later block follows without a blank line with probability 50 % where `iabutOK` allows it, else behind 1..3 blank
    lines; 0..2 blank lines in front of the first block -/
def genIItems : Option IBlock → Nat → G (List IItem)
  | _, 0 => return []
  | prev, n + 1 => do
    let prevIc := match prev with | some a => a.isIc | none => false
    let ic ← chance 35
    let b ← if ic && !prevIc then do pure (IBlock.icode (← genIcLines (1 + (← below 4)))) else do pure (IBlock.h (← genHBlock))
    let sep ← match prev with
      | none => below 3
      | some a => do
        let abut ← chance 50
        let k ← below 3
        pure (if abut && iabutOK a b then 0 else 1 + k)
    let rest ← genIItems (some b) n
    return { sep := sep, block := b } :: rest

def genIDocM (size : Nat) : G IDoc := do
  let n ← below (max size 1)
  let items ← genIItems none (n + 1)
  let trail ← below 4
  return { items := items, trail := trail }

def genIDoc (seed size : Nat) : IDoc :=
  (genIDocM size |>.run { s := UInt64.ofNat (seed * 2654435761 + size + 121212) }).1

structure IFamily where
  count : Nat
  doc : Nat → IDoc

/-- the contents of the single indented code blocks -/
def icPool : List (List Bytes) :=
  [ [strBytes "x"], [strBytes "x", strBytes "y z"], [strBytes "# h"], [strBytes "- i", strBytes "> q"], [strBytes "<a&b>"],
    [strBytes "```"], [strBytes "***"], [strBytes "t \"q\"  "], [strBytes "1. a", strBytes "---", strBytes "~~~"],
    [strBytes "[a]: /u"], [strBytes "\\"], [strBytes "<div>"] ]

/-- the ten block kinds of the stage-12 scope: the nine of stage 6 and an indented code block -/
def ikindBlock (pos kind : Nat) : IBlock :=
  if kind < 9 then .h (kkindBlock pos kind) else .icode (icPool.getD (pos % icPool.length) [strBytes "x"])

/-- base-30 digits: kind = digit % 10, sep = digit / 10 (0..2; the first block: sep 0) -/
def iseqItems : Nat → Nat → Nat → List IItem
  | 0, _, _ => []
  | n + 1, pos, code =>
    { sep := if pos == 0 then 0 else code % 30 / 10, block := ikindBlock pos (code % 30 % 10) } ::
      iseqItems n (pos + 1) (code / 30)

/-- (i-a) one indented code block: 12 contents × 0..2 blank lines in front × 0..3 behind -/
def ifamOne : IFamily where
  count := 12 * 3 * 4
  doc i := { items := [{ sep := i / 4 % 3, block := .icode (icPool.getD (i / 12) []) }], trail := i % 4 }

/-- (i-b) every sequence of `n` block kinds × sep 0..2 for each later block × trail 0..2; the combinations outside the
    fragment (text line / `---` / indented code directly behind a paragraph, indented code behind indented code) are
    answered `skip` -/
def ifamSeq (n : Nat) : IFamily where
  count := 10 * 30 ^ (n - 1) * 3
  doc i := { items := iseqItems n 0 ((i / 3) % 10 + (i / 3) / 10 * 30), trail := i % 3 }

def ifamilies : List IFamily := [ifamOne, ifamSeq 2, ifamSeq 3]

def countI : Nat := ifamilies.foldl (fun acc f => acc + f.count) 0

def enumIIn : List IFamily → Nat → Option IDoc
  | [], _ => none
  | f :: rest, i => if i < f.count then some (f.doc i) else enumIIn rest (i - f.count)

def enumI (i : Nat) : Option IDoc := enumIIn ifamilies i

def answerI (d : IDoc) : String :=
  if ifragB d then s!"{hexOfBytes (spellIc d)} {hexOfBytes (expectedI d)}" else "skip"

def modelAnswerI (d : IDoc) : String :=
  if !ifragB d then "skip" else
  match GM.Convert.convertCore [] ropts (spellIc d) with
  | .ok h => if h == expectedI d then "ok" else s!"fail:model-differs {hexOfBytes h}"
  | .error e => s!"fail:model-differs {e.str}"

def specAnswerI (d : IDoc) : String :=
  if !ifragB d then "skip" else
  let e := iembed d
  if expectedI d != expected e then s!"fail:spec-expected {hexOfBytes (expected e)}"
  else if inoExtraBlanks d && !d.items.isEmpty && spellIc d != spell e then s!"fail:spec-spell {hexOfBytes (spell e)}"
  else if !wellFormed e then "fail:spec-wellformed"
  else "ok"

/-! stage 12 without the final line feed: the same documents with `trail` forced to 0 -/

def noTrailIE (d : IDoc) : IDoc := { d with trail := 0 }

def answerIE (d : IDoc) : String :=
  if ifragEB d then s!"{hexOfBytes (spellIcE d)} {hexOfBytes (expectedI d)}" else "skip"

def modelAnswerIE (d : IDoc) : String :=
  if !ifragEB d then "skip" else
  match GM.Convert.convertCore [] ropts (spellIcE d) with
  | .ok h => if h == expectedI d then "ok" else s!"fail:model-differs {hexOfBytes h}"
  | .error e => s!"fail:model-differs {e.str}"

def specAnswerIE (d : IDoc) : String :=
  if !ifragEB d then "skip" else
  let e := iembedE d
  if expectedI d != expected e then s!"fail:spec-expected {hexOfBytes (expected e)}"
  else if inoExtraBlanks d && spellIcE d != spell e then s!"fail:spec-spell {hexOfBytes (spell e)}"
  else if !wellFormed e then "fail:spec-wellformed"
  else "ok"

/-- the stage-12 ops; `none` for every other op -/
def withIDoc (k : IDoc → String) (ke : IDoc → String) : List String → Option String
  | ["igen", s, z] => some (nat s fun seed => nat z fun size => k (genIDoc seed size))
  | ["ienum", i] => some (nat i fun i =>
      match enumI i with
      | none => "end"
      | some d => k d)
  | ["iegen", s, z] => some (nat s fun seed => nat z fun size => ke (noTrailIE (genIDoc seed size)))
  | ["ieenum", i] => some (nat i fun i =>
      match enumI i with
      | none => "end"
      | some d => ke (noTrailIE d))
  | _ => none

/-- `icount` / `iecount`, `igen` / `ienum` / `iegen` / `ieenum` and their `model` / `spec` variants -/
def handleI : List String → Option String
  | ["icount"] => some (toString countI)
  | ["iecount"] => some (toString countI)
  | "model" :: rest => withIDoc modelAnswerI modelAnswerIE rest
  | "spec" :: rest => withIDoc specAnswerI specAnswerIE rest
  | rest => withIDoc answerI answerIE rest

/-! ## stage 13: the union (`UDocS`: the blocks of stage 6 / 7, rich lines, backslash hard breaks) -/

/-- a rich line: plain text 35 %, else the stage-11 line with 1..3 atoms that are not text -/
def genURich : G ELine := do
  if (← chance 35) then
    let l ← genLine
    return [.txt l]
  else genEmLine

/-- `n` paragraph lines; a line that is not the last one is hard with probability 40 % -/
def genULines : Nat → G (List ULineS)
  | 0 => return []
  | n + 1 => do
    let l ← genURich
    let hard ← chance 40
    let rest ← genULines n
    return { atoms := l, hard := hard && n != 0 } :: rest

/-- paragraph 40 % (1..4 rich lines), heading 22 % (level 1..6, a rich line), thematic break 13 %, fenced code 25 % -/
def genUBlock : G UBlockS := do
  let r ← below 100
  if r < 40 then
    let n ← below 4
    let ls ← genULines (1 + n)
    return .para ls
  else if r < 62 then
    let level ← below 6
    let l ← genURich
    return .heading (level + 1) l
  else if r < 75 then
    let c ← below 3
    let n ← below 5
    return .thematic c n
  else
    let tilde ← chance 50
    let n ← below 4
    let info ← if (← chance 40) then pure [] else genInfo (1 + (← below 6))
    let lines ← genCodeLines tilde (← below 6)
    return .fcode tilde n info lines

/-- as `genKItems` / `genIItems`: with probability 20 % an indented code block of 1..4 lines (never behind an indented
    code block; behind a paragraph always after a blank line: `uabutOK`) -/
def genUItems : Option UBlockS → Nat → G (List UItem)
  | _, 0 => return []
  | prev, n + 1 => do
    let prevIc := match prev with | some a => a.isIc | none => false
    let ic ← chance 20
    let b ← if ic && !prevIc then do pure (UBlockS.icode (← genIcLines (1 + (← below 4)))) else genUBlock
    let sep ← match prev with
      | none => below 3
      | some a => do
        let abut ← chance 50
        let k ← below 3
        pure (if abut && uabutOK a b then 0 else 1 + k)
    let rest ← genUItems (some b) n
    return { sep := sep, block := b } :: rest

def genUDocM (size : Nat) : G UDocS := do
  let n ← below (max size 1)
  let items ← genUItems none (n + 1)
  let trail ← below 3
  return { items := items, trail := trail }

def genUDoc (seed size : Nat) : UDocS :=
  (genUDocM size |>.run { s := UInt64.ofNat (seed * 2654435761 + size + 13013) }).1

structure UFamily where
  count : Nat
  doc : Nat → UDocS

def usoft (l : ELine) : ULineS := { atoms := l }

def uhard (l : ELine) : ULineS := { atoms := l, hard := true }

/-- rich lines that end in text: emphasis then text, `x*y*z`, a code span between letters, all kinds of atoms, plain
    text, an escaped `#` and an escaped backslash inside the text, a `#` written as a reference -/
def ulinePool : List ELine :=
  [ [emtxt "a ", emem "b", emtxt " c"],
    [emtxt "x", emem "y", emtxt "z"],
    [emtxt "a", emcode "x", emtxt "b"],
    [emtxt "p ", emstrong "q", emtxt " r ", emcode "s", emtxt " t"],
    [emtxt "g"],
    [.txt [lit 97, lit 32, lit 35, lit 32, lit 98], emem "c", emtxt "d"],
    [emtxt "e", emstrong "f", .txt [lit 92, lit 104]],
    [.txt [lit 105, lit 32, ⟨35, .dec 0⟩], emcode "j", emtxt "k9"] ]

def poolULine (k : Nat) : ELine := ulinePool.getD (k % ulinePool.length) [emtxt "q"]

/-- the seven block kinds of the stage-13 scope: rich paragraph of 1 line, of 2 lines with a hard break, rich heading
    (level = position + 1), `***`, backtick fence with one line, `---`, rich paragraph of 2 lines with a soft break -/
def ukindBlock (off pos kind : Nat) : UBlockS :=
  match kind with
  | 0 => .para [usoft (poolULine (off + pos))]
  | 1 => .para [uhard (poolULine (off + pos)), usoft (poolULine (off + pos + 1))]
  | 2 => .heading (pos % 6 + 1) (poolULine (off + pos + 2))
  | 3 => .thematic 0 0
  | 4 => .fcode false 0 [] [strBytes "x"]
  | 5 => .thematic 1 0
  | _ => .para [usoft (poolULine (off + pos)), usoft (poolULine (off + pos + 1))]

/-- digits in base `2 * nk`: kind = digit % nk, sep = digit / nk (the first block: sep 0) -/
def useqItems (off nk : Nat) : Nat → Nat → Nat → List UItem
  | 0, _, _ => []
  | n + 1, pos, code =>
    { sep := if pos == 0 then 0 else code % (2 * nk) / nk, block := ukindBlock off pos (code % (2 * nk) % nk) } ::
      useqItems off nk n (pos + 1) (code / (2 * nk))

/-- (u-a) every ordered pair of the seven block kinds × sep 0..1 for the second block × trail 0..1 × 8 rotations of the
    line pool; the combinations outside the fragment (text line or `---` directly behind a paragraph) are answered
    `skip` -/
def ufamPairs : UFamily where
  count := 7 * 14 * 2 * 8
  doc i :=
    let j := i / 16
    { items := useqItems (i / 2 % 8) 7 2 0 (j % 7 + j / 7 * 14), trail := i % 2 }

/-- (u-b) every ordered triple of the first five kinds × sep 0..1 for each later block × trail 0..1 -/
def ufamTriples : UFamily where
  count := 5 * 10 * 10 * 2
  doc i :=
    let j := i / 2
    { items := useqItems 0 5 3 0 (j % 5 + j / 5 * 10), trail := i % 2 }

/-- (u-c) one heading: 6 levels × the stage-11 line pool × trail 0..1 -/
def ufamHeadings : UFamily where
  count := 6 * emlinePool.length * 2
  doc i := { items := [{ block := .heading (i / 2 % 6 + 1) (poolEmLine (i / 12)) }], trail := i % 2 }

/-- (u-d) one paragraph of three lines from the stage-11 line pool × every combination of hard flags (a hard last
    line is outside the fragment: `skip`) × trail 0..1 -/
def ufamFlags : UFamily where
  count := emlinePool.length * 8 * 2
  doc i :=
    let k := i / 16
    let f := i / 2 % 8
    { items := [{ block := .para [{ atoms := poolEmLine k, hard := f % 2 == 1 },
                                  { atoms := poolEmLine (k + 1), hard := f / 2 % 2 == 1 },
                                  { atoms := poolEmLine (k + 2), hard := f / 4 == 1 }] }], trail := i % 2 }

/-- (u-e) fixed documents: headings `# a *b* c`, `# a **b** c`, ``## a `x` c``; heading texts that end in a code span,
    in emphasis, in strong emphasis, in `\#`, in a space (all outside the fragment: `skip`); a `#` inside a heading text
    (escaped, and as a reference); a paragraph line ending with emphasis-then-text; a hard break directly behind `x*y*z`,
    behind ``a`x`b``, behind a code span (outside: `skip`); two hard breaks; a heading, `***` and a fence directly
    behind a hard-broken paragraph -/
def ufixedDocs : List (List UItem) :=
  [ [{ block := .heading 1 [emtxt "a ", emem "b", emtxt " c"] }],
    [{ block := .heading 1 [emtxt "a ", emstrong "b", emtxt " c"] }],
    [{ block := .heading 2 [emtxt "a ", emcode "x", emtxt " c"] }],
    [{ block := .heading 1 [emtxt "a ", emcode "x"] }],
    [{ block := .heading 1 [emtxt "a ", emem "x"] }],
    [{ block := .heading 1 [emtxt "a ", emstrong "x"] }],
    [{ block := .heading 1 [.txt [lit 97, lit 32, ⟨35, .bs⟩]] }],
    [{ block := .heading 1 [emtxt "a "] }],
    [{ block := .heading 3 [.txt [lit 97, lit 32, ⟨35, .bs⟩, lit 32, lit 98], emem "c", emtxt "d"] }],
    [{ block := .heading 3 [.txt [lit 97, lit 32, ⟨35, .hex 0 false false⟩, ⟨35, .named⟩, lit 32, lit 98]] }],
    [{ block := .heading 6 [emtxt "a", emem "b", emtxt "c", emstrong "d", emtxt "e", emcode "f", emtxt "g"] }],
    [{ block := .para [usoft [emtxt "a ", emem "b", emtxt "c"]] }],
    [{ block := .para [uhard [emtxt "x", emem "y", emtxt "z"], usoft [emtxt "w"]] }],
    [{ block := .para [uhard [emtxt "a", emcode "x", emtxt "b"], usoft [emtxt "c"]] }],
    [{ block := .para [uhard [emtxt "a", emcode "x"], usoft [emtxt "c"]] }],
    [{ block := .para [uhard [emtxt "a", emem "x"], usoft [emtxt "c"]] }],
    [{ block := .para [uhard [emtxt "a", emstrong "x", emtxt "1"], uhard [emtxt "b2"], usoft [emtxt "c", emem "d", emtxt "e"]] }],
    [{ block := .para [uhard [emtxt "a"], usoft [emtxt "b", emcode "c", emtxt "d"]] }, { block := .heading 2 [emtxt "h", emem "i", emtxt "j"] }],
    [{ block := .para [uhard [emtxt "a"], usoft [emtxt "b"]] }, { block := .thematic 0 0 }],
    [{ block := .para [uhard [emtxt "a"], usoft [emtxt "b"]] }, { block := .fcode true 0 [] [] }],
    [{ block := .heading 1 [emtxt "a", emem "b", emtxt "c"] }, { block := .para [uhard [emtxt "d"], usoft [emtxt "e"]] }],
    [{ sep := 2, block := .heading 4 [emtxt "a", emcode "b", emtxt "c"] }, { sep := 2, block := .heading 5 [emtxt "d", emstrong "e", emtxt "f"] }] ]

def ufamFixed : UFamily where
  count := ufixedDocs.length * 2
  doc i := { items := ufixedDocs.getD (i / 2) [], trail := i % 2 }

/-- (u-f) the empty document and blank lines only -/
def ufamEmpty : UFamily where
  count := 3
  doc i := { items := [], trail := i }

/-- the eight block kinds with indented code: the seven of `ukindBlock` and (7) an indented code block from `icPool` -/
def ukindBlockI (off pos kind : Nat) : UBlockS :=
  if kind == 7 then .icode (icPool.getD ((off + pos) % icPool.length) [strBytes "x"]) else ukindBlock off pos kind

/-- digits in base `3 * ks.length`: kind = `ks[digit % ks.length]`, sep = digit / ks.length (0..2; the first block: 0) -/
def useqItemsI (off : Nat) (ks : List Nat) : Nat → Nat → Nat → List UItem
  | 0, _, _ => []
  | n + 1, pos, code =>
    let nk := ks.length
    { sep := if pos == 0 then 0 else code % (3 * nk) / nk, block := ukindBlockI off pos (ks.getD (code % (3 * nk) % nk) 0) } ::
      useqItemsI off ks n (pos + 1) (code / (3 * nk))

/-- (u-g) one indented code block: 12 contents × 0..2 blank lines in front × 0..2 behind -/
def ufamIcOne : UFamily where
  count := 12 * 3 * 3
  doc i := { items := [{ sep := i / 3 % 3, block := .icode (icPool.getD (i / 9) []) }], trail := i % 3 }

/-- (u-h) every ordered pair of the eight block kinds × sep 0..2 for the second block × trail 0..1 × 3 rotations of the
    pools; outside the fragment (`skip`): an indented code block directly behind a paragraph, an indented code block
    behind an indented code block (whatever the separation) -/
def ufamIcPairs : UFamily where
  count := 8 * 24 * 2 * 3
  doc i :=
    let j := i / 6
    { items := useqItemsI (i / 2 % 3) [0, 1, 2, 3, 4, 5, 6, 7] 2 0 (j % 8 + j / 8 * 24), trail := i % 2 }

/-- (u-i) every ordered triple of: rich paragraph, heading, fence, indented code, hard-broken paragraph × sep 0..2 for
    each later block × trail 0..1 -/
def ufamIcTriples : UFamily where
  count := 5 * 15 * 15 * 2
  doc i :=
    let j := i / 2
    { items := useqItemsI 0 [0, 2, 4, 7, 1] 3 0 (j % 5 + j / 5 * 15), trail := i % 2 }

def ufamilies : List UFamily :=
  [ufamFixed, ufamPairs, ufamTriples, ufamHeadings, ufamFlags, ufamEmpty, ufamIcOne, ufamIcPairs, ufamIcTriples]

def countU : Nat := ufamilies.foldl (fun acc f => acc + f.count) 0

def enumUIn : List UFamily → Nat → Option UDocS
  | [], _ => none
  | f :: rest, i => if i < f.count then some (f.doc i) else enumUIn rest (i - f.count)

def enumU (i : Nat) : Option UDocS := enumUIn ufamilies i

def answerU (d : UDocS) : String :=
  if ufragB d then s!"{hexOfBytes (spellU d)} {hexOfBytes (expectedU d)}" else "skip"

def modelAnswerU (d : UDocS) : String :=
  if !ufragB d then "skip" else
  match GM.Convert.convertCore [] ropts (spellU d) with
  | .ok h => if h == expectedU d then "ok" else s!"fail:model-differs {hexOfBytes h}"
  | .error e => s!"fail:model-differs {e.str}"

def specAnswerU (d : UDocS) : String :=
  if !ufragB d then "skip" else
  let e := uembed d
  if expectedU d != expected e then s!"fail:spec-expected {hexOfBytes (expected e)}"
  else if unoExtraBlanks d && !d.items.isEmpty && spellU d != spell e then s!"fail:spec-spell {hexOfBytes (spell e)}"
  else if !wellFormed e then "fail:spec-wellformed"
  else "ok"

/-- stage 13 without the final line feed: `trail` forced to 0 -/
def unoTrail (d : UDocS) : UDocS := { d with trail := 0 }

def answerUE (d : UDocS) : String :=
  if ufragEB d then s!"{hexOfBytes (spellUE d)} {hexOfBytes (expectedU d)}" else "skip"

def modelAnswerUE (d : UDocS) : String :=
  if !ufragEB d then "skip" else
  match GM.Convert.convertCore [] ropts (spellUE d) with
  | .ok h => if h == expectedU d then "ok" else s!"fail:model-differs {hexOfBytes h}"
  | .error e => s!"fail:model-differs {e.str}"

def specAnswerUE (d : UDocS) : String :=
  if !ufragEB d then "skip" else
  let e := uembedE d
  if expectedU d != expected e then s!"fail:spec-expected {hexOfBytes (expected e)}"
  else if unoExtraBlanks d && spellUE d != spell e then s!"fail:spec-spell {hexOfBytes (spell e)}"
  else if !wellFormed e then "fail:spec-wellformed"
  else "ok"

/-- the stage-13 ops; `none` for every other op -/
def withUDoc (k ke : UDocS → String) : List String → Option String
  | ["ugen", s, z] => some (nat s fun seed => nat z fun size => k (genUDoc seed size))
  | ["uenum", i] => some (nat i fun i =>
      match enumU i with
      | none => "end"
      | some d => k d)
  | ["uegen", s, z] => some (nat s fun seed => nat z fun size => ke (unoTrail (genUDoc seed size)))
  | ["ueenum", i] => some (nat i fun i =>
      match enumU i with
      | none => "end"
      | some d => ke (unoTrail d))
  | _ => none

/-- `ucount` / `uecount`, `ugen` / `uenum` / `uegen` / `ueenum` and their `model` / `spec` variants -/
def handleU : List String → Option String
  | ["ucount"] => some (toString countU)
  | ["uecount"] => some (toString countU)
  | "model" :: rest => withUDoc modelAnswerU modelAnswerUE rest
  | "spec" :: rest => withUDoc specAnswerU specAnswerUE rest
  | rest => withUDoc answerU answerUE rest

/-! ## stage 14: a stage-6 document inside `k + 1` nested block quotes (`spellNQ`, `expectedNQ`, `nqembed`; the
    documents of `qgen` / `qenum`; `k` = the number of EXTRA quotes) -/

def answerNQ (k : Nat) (d : KDoc) : String :=
  if qfragB d then s!"{hexOfBytes (spellNQ k d)} {hexOfBytes (expectedNQ k d)}" else "skip"

def modelAnswerNQ (k : Nat) (d : KDoc) : String :=
  if !qfragB d then "skip" else
  match GM.Convert.convertCore [] ropts (spellNQ k d) with
  | .ok h => if h == expectedNQ k d then "ok" else s!"fail:model-differs {hexOfBytes h}"
  | .error e => s!"fail:model-differs {e.str}"

def specAnswerNQ (k : Nat) (d : KDoc) : String :=
  if !qfragB d then "skip" else
  let e := nqembed k d
  if expectedNQ k d != expected e then s!"fail:spec-expected {hexOfBytes (expected e)}"
  else if !wellFormed e then "fail:spec-wellformed"
  else "ok"

/-- the indices behind `3 * countQ`: every 16th stage-10 index with `k = 0` (the cross-check with stage 10) -/
def countNQ0 : Nat := (countQ + 15) / 16

def countNQ : Nat := 3 * countQ + countNQ0

/-- `nqgen <seed> <size>`: the document of `qgen <seed> <size>` with `k = 0` when `seed % 16 = 0`, else
    `k = seed % 3 + 1`; `nqenum <i>`: for `i < 3 * countQ` the document of `qenum (i / 3)` with `k = i % 3 + 1`,
    behind that the document of `qenum (16 * (i - 3 * countQ))` with `k = 0`; `none` for every other op -/
def withNQDoc (f : Nat → KDoc → String) : List String → Option String
  | ["nqgen", s, z] => some (nat s fun seed => nat z fun size =>
      f (if seed % 16 == 0 then 0 else seed % 3 + 1) (genQDoc seed size))
  | ["nqenum", i] => some (nat i fun i =>
      if i < 3 * countQ then
        match enumQ (i / 3) with
        | none => "end"
        | some d => f (i % 3 + 1) d
      else if i < countNQ then
        match enumQ (16 * (i - 3 * countQ)) with
        | none => "end"
        | some d => f 0 d
      else "end")
  | _ => none

/-- `nqcount`, `nqgen` / `nqenum` and their `model` / `spec` variants -/
def handleNQ : List String → Option String
  | ["nqcount"] => some (toString countNQ)
  | "model" :: rest => withNQDoc modelAnswerNQ rest
  | "spec" :: rest => withNQDoc specAnswerNQ rest
  | rest => withNQDoc answerNQ rest

/-! ## stage 15: a stage-13 (union) document inside ONE block quote (`UDocS` with `uqfragB`, `spellUQ`, `expectedUQ`,
    `uqembed`): the documents of `ugen` / `uenum` made clean -/

/-- an atom in front of cleaned atoms: two text atoms next to each other become one -/
def uqconsAtom (a : EAtomS) (acc : List EAtomS) : List EAtomS :=
  match a, acc with
  | .txt x, .txt y :: rest => .txt (x ++ y) :: rest
  | a, acc => a :: acc

/-- an atom without any excluded byte: text character by character (`qcleanT`), a code span with its content cleaned;
    `*x*` becomes the code span of `x` (the line keeps its shape), `**x**` becomes the text `x` -/
def uqcleanAtom : EAtomS → EAtomS
  | .txt cs => .txt (cs.map qcleanT)
  | .code c => .code (qcleanBytes c)
  | .em c => .code (qcleanBytes c)
  | .strong c => .txt (elits (qcleanBytes c))

def uqcleanLine (l : ELine) : ELine := (l.map uqcleanAtom).foldr uqconsAtom []

/-- thematic breaks are written with `_` -/
def uqcleanBlock : UBlockS → UBlockS
  | .para lines => .para (lines.map fun x => { x with atoms := uqcleanLine x.atoms })
  | .heading level text => .heading level (uqcleanLine text)
  | .thematic _ n => .thematic 2 n
  | .fcode tilde n info lines => .fcode tilde n (qcleanBytes info) (lines.map qcleanBytes)
  | .icode lines => .fcode true 0 [] (lines.map qcleanBytes)   -- no indented code block inside the quote (`uqfragB`)

/-- the stage-13 document with every excluded source byte replaced and the emphasis atoms respelled (block kinds, line
    counts, hard flags, blank lines unchanged) -/
def uqcleanDoc (d : UDocS) : UDocS :=
  { d with items := d.items.map fun it => { it with block := uqcleanBlock it.block } }

def genUQDoc (seed size : Nat) : UDocS := uqcleanDoc (genUDoc seed size)

/-- lines for the quoted union: a literal `>` inside the text, next to a code span, two code spans, `&gt;`, an escaped
    backslash, one letter -/
def uqlinePool : List ELine :=
  [ [emtxt "a > b"],
    [emtxt "a ", emcode "x", emtxt " > c"],
    [emtxt "a", emcode "b", emtxt "c", emcode "d", emtxt "e"],
    [.txt [lit 97, ⟨62, .named⟩, lit 98]],
    [.txt [lit 97, ⟨92, .bs⟩, lit 98], emcode "q", emtxt "r"],
    [emtxt "g"] ]

def poolUQLine (k : Nat) : ELine := uqlinePool.getD (k % uqlinePool.length) [emtxt "q"]

/-- (uq-a) one block of every stage-13 kind × 0..2 blank lines in front × 0..2 behind -/
def uqfamEdge : UFamily where
  count := 7 * 3 * 3
  doc i := { items := [{ sep := i / 3 % 3, block := ukindBlock 0 0 (i / 9) }], trail := i % 3 }

/-- (uq-b) a hard break behind every pool line × the pool line behind it × what follows the paragraph directly
    (nothing, a heading with a code span, `___`, a fence) × trail 0..1: the break backslash is the last byte of a quoted
    line -/
def uqfamHard : UFamily where
  count := uqlinePool.length * uqlinePool.length * 4 * 2
  doc i :=
    let n := uqlinePool.length
    let a := poolUQLine (i / (8 * n))
    let b := poolUQLine (i / 8 % n)
    let next : List UItem :=
      match i / 2 % 4 with
      | 0 => []
      | 1 => [{ block := .heading 2 [emtxt "h ", emcode "i", emtxt " j"] }]
      | 2 => [{ block := .thematic 2 0 }]
      | _ => [{ block := .fcode false 0 [] [strBytes "> x", [], strBytes "y"] }]
    { items := { block := .para [uhard a, usoft b] } :: next, trail := i % 2 }

/-- (uq-c) one quoted heading: 6 levels × the pool lines × trail 0..1, alone and directly behind a paragraph -/
def uqfamHead : UFamily where
  count := 6 * uqlinePool.length * 2 * 2
  doc i :=
    let pre : List UItem := if i / 2 % 2 == 1 then [{ block := .para [usoft (poolUQLine 1)] }] else []
    { items := pre ++ [{ block := .heading (i / 4 % 6 + 1) (poolUQLine (i / 24)) }], trail := i % 2 }

def uqfamilies : List UFamily := ufamilies ++ [uqfamEdge, uqfamHard, uqfamHead]

def countUQ : Nat := uqfamilies.foldl (fun acc f => acc + f.count) 0

def enumUQ (i : Nat) : Option UDocS := (enumUIn uqfamilies i).map uqcleanDoc

def answerUQ (d : UDocS) : String :=
  if uqfragB d then s!"{hexOfBytes (spellUQ d)} {hexOfBytes (expectedUQ d)}" else "skip"

def modelAnswerUQ (d : UDocS) : String :=
  if !uqfragB d then "skip" else
  match GM.Convert.convertCore [] ropts (spellUQ d) with
  | .ok h => if h == expectedUQ d then "ok" else s!"fail:model-differs {hexOfBytes h}"
  | .error e => s!"fail:model-differs {e.str}"

def specAnswerUQ (d : UDocS) : String :=
  if !uqfragB d then "skip" else
  let e := uqembed d
  if expectedUQ d != expected e then s!"fail:spec-expected {hexOfBytes (expected e)}"
  else if !wellFormed e then "fail:spec-wellformed"
  else "ok"

/-- the stage-15 ops; `none` for every other op -/
def withUQDoc (k : UDocS → String) : List String → Option String
  | ["uqgen", s, z] => some (nat s fun seed => nat z fun size => k (genUQDoc seed size))
  | ["uqenum", i] => some (nat i fun i =>
      match enumUQ i with
      | none => "end"
      | some d => k d)
  | _ => none

/-- `uqcount`, `uqgen` / `uqenum` and their `model` / `spec` variants -/
def handleUQ : List String → Option String
  | ["uqcount"] => some (toString countUQ)
  | "model" :: rest => withUQDoc modelAnswerUQ rest
  | "spec" :: rest => withUQDoc specAnswerUQ rest
  | rest => withUQDoc answerUQ rest

/-! ## stage 16: inline links inside the text lines (`LDoc`, paragraphs only; `spellL`, `expectedL`, `lembed`) -/

/-- `n` destination bytes: `/` 30 %, else a letter or digit -/
def genDest16 : Nat → G Bytes
  | 0 => return []
  | n + 1 => do
    let c ← if (← chance 30) then pure 47 else pickL alnums
    let rest ← genDest16 n
    return c :: rest

/-- a link: text 1..6 letters and digits, destination 1..8 letters, digits and `/` -/
def genLinkAtom : G LAtomS := do
  let t ← genInfo (1 + (← below 6))
  let d ← genDest16 (1 + (← below 8))
  return .link t d

/-- `n` further links, each followed by a text atom (the last one ends with a literal letter or digit) -/
def genLTail : Nat → G (List LAtomS)
  | 0 => return []
  | n + 1 => do
    let c ← genLinkAtom
    let t ← genEdgeText true (n != 0)
    let t ← if n == 0 then (do return t ++ [lit (← pickL alnums)])
      else if t.isEmpty then (do return [lit (← pickL (32 :: alnums))]) else pure t
    let rest ← genLTail n
    return c :: .txt t :: rest

/-- a line with 0..3 links (plain text 20 %) -/
def genLLine : G LLine := do
  if (← chance 20) then
    let l ← genLine
    return [.txt l]
  else
    let a := lit (← pickL letters)
    let t ← genEdgeText false true
    let rest ← genLTail (1 + (← below 3))
    return .txt (a :: t) :: rest

def genLLines : Nat → G (List LLine)
  | 0 => return []
  | n + 1 => do
    let l ← genLLine
    let rest ← genLLines n
    return l :: rest

def genLItems : Nat → G (List LItem)
  | 0 => return []
  | n + 1 => do
    let gap ← below 3
    let ls ← genLLines (1 + (← below 3))
    let rest ← genLItems n
    return { gap := gap, lines := ls } :: rest

def genLDocM (size : Nat) : G LDoc := do
  let n ← below (max size 1)
  let items ← genLItems (n + 1)
  let trail ← below 3
  return { items := items, trail := trail }

def genLDoc (seed size : Nat) : LDoc :=
  (genLDocM size |>.run { s := UInt64.ofNat (seed * 2654435761 + size + 16016) }).1

structure LFamily where
  count : Nat
  doc : Nat → LDoc

def oneLLine (l : LLine) : LDoc := { items := [{ lines := [l] }] }

def ltxt16 (s : String) : LAtomS := .txt (lits s)
def llink16 (t d : String) : LAtomS := .link (strBytes t) (strBytes d)

/-- lines of the fixed shapes: a link touching text on both sides, between spaces, two links (text / a space between
    them), the destinations `c`, `/c`, `c/d`, `/`, `//`, `a/b/c/`, a text of several characters, digits only, escaped
    brackets next to a link (`a\[[b](c)\]d`, `a\][b](c)\[d`), parentheses next to a link, an escaped `!` and `&excl;`
    directly in front of a link, escaped output next to a link, three links -/
def llinePool : List LLine :=
  [ [ltxt16 "a", llink16 "b" "c", ltxt16 "d"],
    [ltxt16 "a ", llink16 "b" "c", ltxt16 " d"],
    [ltxt16 "a", llink16 "b" "c", ltxt16 "d", llink16 "e" "f", ltxt16 "g"],
    [ltxt16 "a", llink16 "b" "c", ltxt16 " ", llink16 "e" "f", ltxt16 "g"],
    [ltxt16 "a", llink16 "b" "/c", ltxt16 "d"],
    [ltxt16 "a", llink16 "b" "c/d", ltxt16 "e"],
    [ltxt16 "a", llink16 "b" "/", ltxt16 "d"],
    [ltxt16 "a", llink16 "b" "//", ltxt16 "d"],
    [ltxt16 "a", llink16 "b" "a/b/c/", ltxt16 "d"],
    [ltxt16 "see ", llink16 "word12" "path/to/page", ltxt16 " for more"],
    [ltxt16 "a", llink16 "123" "456", ltxt16 "7"],
    [.txt [lit 97, lit 91], llink16 "b" "c", .txt [lit 93, lit 100]],
    [.txt [lit 97, lit 93], llink16 "b" "c", .txt [lit 91, lit 100]],
    [ltxt16 "a(", llink16 "b" "c", ltxt16 ")d"],
    [ltxt16 "a", llink16 "b" "c", ltxt16 "(x)d"],
    [ltxt16 "a", llink16 "b" "c", .txt [lit 91, lit 120, lit 93, lit 100]],
    [.txt [lit 97, ⟨33, .bs⟩], llink16 "b" "c", ltxt16 "d"],
    [.txt [lit 97, ⟨33, .named⟩], llink16 "b" "c", ltxt16 "d"],
    [.txt [lit 97, ⟨33, .dec 0⟩], llink16 "b" "c", ltxt16 "d"],
    [.txt [lit 97, ⟨60, .named⟩], llink16 "b" "c", .txt [⟨38, .named⟩, lit 98]],
    [.txt [lit 97, lit 92], llink16 "b" "c", .txt [lit 92, lit 100]],
    [ltxt16 "a", llink16 "b" "c", .txt [lit 93], llink16 "e" "f", ltxt16 "g"],
    [ltxt16 "a", llink16 "b" "c", .txt [lit 91], llink16 "e" "f", ltxt16 "g"],
    [ltxt16 "a", llink16 "b" "c", .txt [lit 40], llink16 "e" "f", ltxt16 "g"],
    [ltxt16 "a", llink16 "b" "c", ltxt16 "d", llink16 "e" "/f", ltxt16 "g", llink16 "hi" "j/k", ltxt16 "l"],
    [ltxt16 "g"] ]

def poolLLine (k : Nat) : LLine := llinePool.getD (k % llinePool.length) [ltxt16 "q"]

/-- (l-a) every pool line alone × gap 0..1 × trail 0..1 -/
def lfamLines : LFamily where
  count := llinePool.length * 4
  doc i := { items := [{ gap := i / 2 % 2, lines := [poolLLine (i / 4)] }], trail := i % 2 }

/-- (l-b) each of the 95 printable characters in 7 spellings directly BEFORE `[` (`a` X `[b](c)` `z`) and directly
    AFTER `)` (`a` `[b](c)` X `z`); a literal `!` is outside the fragment and answered `skip` -/
def lfamEdges : LFamily where
  count := 95 * 7 * 2
  doc i :=
    let c := UInt8.ofNat (32 + i / 14)
    let t := (spellings8 c).getD (i / 2 % 7) (lit 120)
    if i % 2 == 0 then oneLLine [.txt [lit 97, t], llink16 "b" "c", ltxt16 "z"]
    else oneLLine [ltxt16 "a", llink16 "b" "c", .txt [t, lit 122]]

/-- (l-c) each of the 95 printable characters in 7 spellings ALONE between two links -/
def lfamBetween : LFamily where
  count := 95 * 7
  doc i :=
    let c := UInt8.ofNat (32 + i / 7)
    let t := (spellings8 c).getD (i % 7) (lit 120)
    oneLLine [ltxt16 "a", llink16 "x" "c", .txt [t], llink16 "y" "/d", ltxt16 "z"]

/-- paragraphs from base-6 digits: digit % 3 + 1 lines, digit / 3 extra blank lines in front -/
def lshapeItems (off : Nat) : Nat → Nat → Nat → List LItem
  | 0, _, _ => []
  | n + 1, p, code =>
    let d := code % 6
    let lines := (List.range (d % 3 + 1)).map fun j => poolLLine (off + 3 * p + j)
    { gap := d / 3, lines := lines } :: lshapeItems off n (p + 1) (code / 6)

/-- (l-d) all shapes of `n` paragraphs: 1..3 lines each × gap 0..1 each × trail 0..1 × 9 rotations of the line pool -/
def lfamShapes (n : Nat) : LFamily where
  count := 6 ^ n * 18
  doc i := { items := lshapeItems (i / 2 % 9 * 3) n 0 (i / 18), trail := i % 2 }

/-- (l-e) the empty document and blank lines only -/
def lfamEmpty : LFamily where
  count := 3
  doc i := { items := [], trail := i }

def lfamilies : List LFamily := [lfamLines, lfamEdges, lfamBetween, lfamShapes 1, lfamShapes 2, lfamEmpty]

def countL : Nat := lfamilies.foldl (fun acc f => acc + f.count) 0

def enumLIn : List LFamily → Nat → Option LDoc
  | [], _ => none
  | f :: rest, i => if i < f.count then some (f.doc i) else enumLIn rest (i - f.count)

def enumL (i : Nat) : Option LDoc := enumLIn lfamilies i

def answerL (d : LDoc) : String :=
  if lfragB d then s!"{hexOfBytes (spellL d)} {hexOfBytes (expectedL d)}" else "skip"

def modelAnswerL (d : LDoc) : String :=
  if !lfragB d then "skip" else
  match GM.Convert.convertCore [] ropts (spellL d) with
  | .ok h => if h == expectedL d then "ok" else s!"fail:model-differs {hexOfBytes h}"
  | .error e => s!"fail:model-differs {e.str}"

def specAnswerL (d : LDoc) : String :=
  if !lfragB d then "skip" else
  let e := lembed d
  if expectedL d != expected e then s!"fail:spec-expected {hexOfBytes (expected e)}"
  else if lnoExtraBlanks d && !d.items.isEmpty && spellL d != spell e then s!"fail:spec-spell {hexOfBytes (spell e)}"
  else if !wellFormed e then "fail:spec-wellformed"
  else "ok"

/-- the stage-16 ops; `none` for every other op -/
def withLDoc (k : LDoc → String) : List String → Option String
  | ["lgen", s, z] => some (nat s fun seed => nat z fun size => k (genLDoc seed size))
  | ["lenum", i] => some (nat i fun i =>
      match enumL i with
      | none => "end"
      | some d => k d)
  | _ => none

/-- `lcount`, `lgen` / `lenum` and their `model` / `spec` variants -/
def handleL : List String → Option String
  | ["lcount"] => some (toString countL)
  | "model" :: rest => withLDoc modelAnswerL rest
  | "spec" :: rest => withLDoc specAnswerL rest
  | rest => withLDoc answerL rest

/-! ## stage 17: images inside the text lines (`ImgDoc`, paragraphs only; `spellImg`, `expectedImg`, `imgembed`): the
    documents of stage 16 with every link `[t](d)` written as the image `![t](d)`, plus lines of their own -/

def imgOfL : LAtomS → ImgAtomS
  | .txt cs => .txt cs
  | .link t d => .img t d

def imgdocOfL (d : LDoc) : ImgDoc :=
  { items := d.items.map fun it => { gap := it.gap, lines := it.lines.map (·.map imgOfL) }, trail := d.trail }

def genImgDoc (seed size : Nat) : ImgDoc := imgdocOfL (genLDoc (seed + 17) size)

def itxt17 (s : String) : ImgAtomS := .txt (lits s)
def iimg17 (t d : String) : ImgAtomS := .img (strBytes t) (strBytes d)

/-- lines of their own: an escaped backslash, an escaped `!`, `&excl;`, `&#33;` directly in front of the image's `!`
    (`a\\![b](c)d`, `a\!![b](c)d`), an escaped `!` directly behind the image, an escaped `[` between `!`-text and
    nothing else, two images touching one `!`-text, an image between parentheses -/
def imglinePool : List ImgLine :=
  [ [.txt [lit 97, lit 92], iimg17 "b" "c", itxt17 "d"],
    [.txt [lit 97, ⟨33, .bs⟩], iimg17 "b" "c", itxt17 "d"],
    [.txt [lit 97, ⟨33, .named⟩], iimg17 "b" "c", itxt17 "d"],
    [.txt [lit 97, ⟨33, .dec 0⟩], iimg17 "b" "c", itxt17 "d"],
    [.txt [lit 97, ⟨33, .bs⟩, ⟨33, .bs⟩], iimg17 "b" "c", .txt [⟨33, .bs⟩, lit 100]],
    [.txt [lit 97, ⟨33, .bs⟩, lit 91], iimg17 "b" "c", .txt [lit 93, lit 100]],
    [itxt17 "a", iimg17 "b" "c", .txt [⟨33, .bs⟩], iimg17 "e" "/f", itxt17 "g"],
    [.txt [lit 97, lit 92, lit 92], iimg17 "b" "c", .txt [lit 92, lit 100]],
    [itxt17 "a(", iimg17 "alt12" "path/to/img", itxt17 ")d"] ]

/-- (img-own) every line of `imglinePool` alone × gap 0..1 × trail 0..1, and as the second of two lines -/
def imgfamOwnCount : Nat := imglinePool.length * 5

def imgfamOwn (i : Nat) : ImgDoc :=
  let l := imglinePool.getD (i / 5) [itxt17 "q"]
  if i % 5 == 4 then { items := [{ lines := [[itxt17 "x", iimg17 "y" "z", itxt17 "w"], l] }] }
  else { items := [{ gap := i / 2 % 2, lines := [l] }], trail := i % 2 }

def countImg : Nat := countL + imgfamOwnCount

def enumImg (i : Nat) : Option ImgDoc :=
  if i < countL then (enumL i).map imgdocOfL
  else if i < countImg then some (imgfamOwn (i - countL))
  else none

def answerImg (d : ImgDoc) : String :=
  if imgfragB d then s!"{hexOfBytes (spellImg d)} {hexOfBytes (expectedImg d)}" else "skip"

def modelAnswerImg (d : ImgDoc) : String :=
  if !imgfragB d then "skip" else
  match GM.Convert.convertCore [] ropts (spellImg d) with
  | .ok h => if h == expectedImg d then "ok" else s!"fail:model-differs {hexOfBytes h}"
  | .error e => s!"fail:model-differs {e.str}"

def specAnswerImg (d : ImgDoc) : String :=
  if !imgfragB d then "skip" else
  let e := imgembed d
  if expectedImg d != expected e then s!"fail:spec-expected {hexOfBytes (expected e)}"
  else if imgnoExtraBlanks d && !d.items.isEmpty && spellImg d != spell e then s!"fail:spec-spell {hexOfBytes (spell e)}"
  else if !wellFormed e then "fail:spec-wellformed"
  else "ok"

/-- the stage-17 ops; `none` for every other op -/
def withImgDoc (k : ImgDoc → String) : List String → Option String
  | ["imggen", s, z] => some (nat s fun seed => nat z fun size => k (genImgDoc seed size))
  | ["imgenum", i] => some (nat i fun i =>
      match enumImg i with
      | none => "end"
      | some d => k d)
  | _ => none

/-- `imgcount`, `imggen` / `imgenum` and their `model` / `spec` variants -/
def handleImg : List String → Option String
  | ["imgcount"] => some (toString countImg)
  | "model" :: rest => withImgDoc modelAnswerImg rest
  | "spec" :: rest => withImgDoc specAnswerImg rest
  | rest => withImgDoc answerImg rest

/-! ## stage 18: URI autolinks inside the text lines (`ADoc`, paragraphs only; `spellAD`, `expectedAD`, `aembed`): the
    documents of stage 16 with every link `[t](d)` written as the autolink `<t':d>` (`t'`: the digits of `t` replaced by
    letters, `x` appended to a single character), plus lines and random documents of their own -/

/-- letters only, at least two -/
def schemeOf18 (t : Bytes) : Bytes :=
  let s := t.map fun c => if isLetter c then c else if isDigit c then c + 49 else 113
  if s.length < 2 then s ++ [120] else s

def autoOfL : LAtomS → AAtomS
  | .txt cs => .txt cs
  | .link t d => .auto (schemeOf18 t) d

def adocOfL (d : LDoc) : ADoc :=
  { items := d.items.map fun it => { gap := it.gap, lines := it.lines.map (·.map autoOfL) }, trail := d.trail }

/-- `n` bytes behind the colon: `/` 20 %, `.` 15 %, else a letter or digit -/
def genRest18 : Nat → G Bytes
  | 0 => return []
  | n + 1 => do
    let r ← below 100
    let c ← if r < 20 then pure 47 else if r < 35 then pure 46 else pickL alnums
    let rest ← genRest18 n
    return c :: rest

def genLetters18 : Nat → G Bytes
  | 0 => return []
  | n + 1 => do
    let c ← pickL letters
    let rest ← genLetters18 n
    return c :: rest

/-- the scheme: 2..8 letters 80 %, 9..32 letters 20 % -/
def genScheme18 : G Bytes := do
  if (← chance 80) then genLetters18 (2 + (← below 7)) else genLetters18 (9 + (← below 24))

/-- every link of a stage-16 line replaced by a random autolink -/
def genAAtoms : List LAtomS → G (List AAtomS)
  | [] => return []
  | .txt cs :: rest => do
    let r ← genAAtoms rest
    return .txt cs :: r
  | .link _ _ :: rest => do
    let s ← genScheme18
    let u ← genRest18 (1 + (← below 8))
    let r ← genAAtoms rest
    return .auto s u :: r

def genALines : List LLine → G (List ALine)
  | [] => return []
  | l :: rest => do
    let a ← genAAtoms l
    let r ← genALines rest
    return a :: r

def genAItems : List LItem → G (List AItem)
  | [] => return []
  | it :: rest => do
    let ls ← genALines it.lines
    let r ← genAItems rest
    return { gap := it.gap, lines := ls } :: r

def genADoc (seed size : Nat) : ADoc :=
  let d := genLDoc (seed + 18) size
  { items := (genAItems d.items |>.run { s := UInt64.ofNat (seed * 2654435761 + size + 18018) }).1, trail := d.trail }

def atxt18 (s : String) : AAtomS := .txt (lits s)
def aauto18 (s r : String) : AAtomS := .auto (strBytes s) (strBytes r)

def letters32 : String := "abcdefghijklmnopqrstuvwxyzABCDEF"

/-- lines of their own: schemes of 1 (outside the fragment), 2, 3, 32 and 33 (outside) letters, upper case, well-known
    schemes, `javascript`; a rest ending in `.`, in `/`, `//host.tld/path`, a rest of one `.`, of one `/`, of digits; an
    escaped `<` / `>` / backslash next to the autolink, `&lt;` in front of it, two autolinks touching one character -/
def alinePool : List ALine :=
  [ [atxt18 "a", aauto18 "b" "c", atxt18 "d"],
    [atxt18 "a", aauto18 "ab" "c", atxt18 "d"],
    [atxt18 "a", aauto18 "abc" "c", atxt18 "d"],
    [atxt18 "a", aauto18 letters32 "c", atxt18 "d"],
    [atxt18 "a", aauto18 (letters32 ++ "G") "c", atxt18 "d"],
    [atxt18 "a", aauto18 "HTTP" "//EXAMPLE.COM/", atxt18 "d"],
    [atxt18 "see ", aauto18 "https" "//host.tld/path/to.html", atxt18 " for more"],
    [atxt18 "a", aauto18 "mailto" "me", atxt18 "d"],
    [atxt18 "a", aauto18 "javascript" "x", atxt18 "d"],
    [atxt18 "a", aauto18 "data" "x", atxt18 "d"],
    [atxt18 "a", aauto18 "ab" "c.", atxt18 "d"],
    [atxt18 "a", aauto18 "ab" "c/", atxt18 "d"],
    [atxt18 "a", aauto18 "ab" ".", atxt18 "d"],
    [atxt18 "a", aauto18 "ab" "/", atxt18 "d"],
    [atxt18 "a", aauto18 "ab" "..", atxt18 "d"],
    [atxt18 "a", aauto18 "ab" "123", atxt18 "4"],
    [.txt [lit 97, lit 60], aauto18 "ab" "c", .txt [lit 62, lit 100]],
    [.txt [lit 97, ⟨62, .lit⟩], aauto18 "ab" "c", .txt [lit 60, lit 100]],
    [.txt [lit 97, ⟨60, .named⟩], aauto18 "ab" "c", .txt [⟨62, .named⟩, lit 100]],
    [.txt [lit 97, lit 92], aauto18 "ab" "c", .txt [lit 92, lit 100]],
    [atxt18 "a", aauto18 "ab" "c", .txt [lit 60], aauto18 "de" "f", atxt18 "g"],
    [atxt18 "a", aauto18 "ab" "c", .txt [⟨62, .lit⟩], aauto18 "de" "f", atxt18 "g"],
    [atxt18 "a ", aauto18 "ab" "c", atxt18 " ", aauto18 "de" "f.g", atxt18 " h"] ]

/-- (a-own) every line of `alinePool` alone × gap 0..1 × trail 0..1, and as the second of two lines -/
def afamOwnCount : Nat := alinePool.length * 5

def afamOwn (i : Nat) : ADoc :=
  let l := alinePool.getD (i / 5) [atxt18 "q"]
  if i % 5 == 4 then { items := [{ lines := [[atxt18 "x", aauto18 "yy" "z", atxt18 "w"], l] }] }
  else { items := [{ gap := i / 2 % 2, lines := [l] }], trail := i % 2 }

def countA : Nat := countL + afamOwnCount

def enumA (i : Nat) : Option ADoc :=
  if i < countL then (enumL i).map adocOfL
  else if i < countA then some (afamOwn (i - countL))
  else none

def answerA (d : ADoc) : String :=
  if afragB d then s!"{hexOfBytes (spellAD d)} {hexOfBytes (expectedAD d)}" else "skip"

def modelAnswerA (d : ADoc) : String :=
  if !afragB d then "skip" else
  match GM.Convert.convertCore [] ropts (spellAD d) with
  | .ok h => if h == expectedAD d then "ok" else s!"fail:model-differs {hexOfBytes h}"
  | .error e => s!"fail:model-differs {e.str}"

def specAnswerA (d : ADoc) : String :=
  if !afragB d then "skip" else
  let e := aembed d
  if expectedAD d != expected e then s!"fail:spec-expected {hexOfBytes (expected e)}"
  else if anoExtraBlanks d && !d.items.isEmpty && spellAD d != spell e then s!"fail:spec-spell {hexOfBytes (spell e)}"
  else if !wellFormed e then "fail:spec-wellformed"
  else "ok"

/-- the stage-18 ops; `none` for every other op -/
def withADoc (k : ADoc → String) : List String → Option String
  | ["agen", s, z] => some (nat s fun seed => nat z fun size => k (genADoc seed size))
  | ["aenum", i] => some (nat i fun i =>
      match enumA i with
      | none => "end"
      | some d => k d)
  | _ => none

/-- `acount`, `agen` / `aenum` and their `model` / `spec` variants -/
def handleA : List String → Option String
  | ["acount"] => some (toString countA)
  | "model" :: rest => withADoc modelAnswerA rest
  | "spec" :: rest => withADoc specAnswerA rest
  | rest => withADoc answerA rest

/-! ## stage 19: raw inline HTML tags inside the text lines (`H19Doc`, paragraphs only; `spellH19`, `expectedH19`,
    `h19embed`): the documents of stage 16 with every link `[t](d)` written as the tag `<t'>` (destination of odd length)
    or `</t'>` (`t'`: `t` with `h` in front when it begins with a digit), plus lines of their own -/

def tagOf19 (t : Bytes) : Bytes :=
  match t with
  | c :: _ => if isLetter c then t else 104 :: t
  | [] => [104]

def h19OfL : LAtomS → H19AtomS
  | .txt cs => .txt cs
  | .link t d => if d.length % 2 == 1 then .open (tagOf19 t) else .close (tagOf19 t)

def h19docOfL (d : LDoc) : H19Doc :=
  { items := d.items.map fun it => { gap := it.gap, lines := it.lines.map (·.map h19OfL) }, trail := d.trail }

def genH19Doc (seed size : Nat) : H19Doc := h19docOfL (genLDoc (seed + 19) size)

def htxt19 (s : String) : H19AtomS := .txt (lits s)
def hopen19 (s : String) : H19AtomS := .open (strBytes s)
def hclose19 (s : String) : H19AtomS := .close (strBytes s)

/-- lines of their own: an open and a closing tag around text, tag names of 1, 2 and 10 characters, upper case, with
    digits, the names of block-level elements (`div`, `p`, `pre`, `script`, `style`, `textarea`) in inline position,
    `<a>` (no autolink), a closing tag first, escaped `<` / `>` / backslash and `&lt;` next to a tag, tags between spaces,
    a name that begins with a digit or contains `-` (outside the fragment) -/
def h19linePool : List H19Line :=
  [ [htxt19 "a", hopen19 "b", htxt19 "c", hclose19 "b", htxt19 "d"],
    [htxt19 "a", hopen19 "x", htxt19 "d"],
    [htxt19 "a", hclose19 "x", htxt19 "d"],
    [htxt19 "a", hopen19 "em", htxt19 "c", hclose19 "em", htxt19 "d"],
    [htxt19 "a", hopen19 "abcdefghij", htxt19 "c", hclose19 "abcdefghij", htxt19 "d"],
    [htxt19 "a", hopen19 "SPAN", htxt19 "c", hclose19 "Span", htxt19 "d"],
    [htxt19 "a", hopen19 "h1", htxt19 "c", hclose19 "h1", htxt19 "d"],
    [htxt19 "a", hopen19 "x2y3", htxt19 "c", hclose19 "z9", htxt19 "d"],
    [htxt19 "a", hopen19 "div", htxt19 "c", hclose19 "div", htxt19 "d"],
    [htxt19 "a", hopen19 "p", htxt19 "c", hclose19 "p", htxt19 "d"],
    [htxt19 "a", hopen19 "pre", htxt19 "c", hclose19 "pre", htxt19 "d"],
    [htxt19 "a", hopen19 "script", htxt19 "c", hclose19 "script", htxt19 "d"],
    [htxt19 "a", hopen19 "style", htxt19 "c", hclose19 "style", htxt19 "d"],
    [htxt19 "a", hopen19 "textarea", htxt19 "c", hclose19 "textarea", htxt19 "d"],
    [htxt19 "a", hopen19 "a", htxt19 "c", hclose19 "a", htxt19 "d"],
    [htxt19 "a ", hopen19 "b", htxt19 " c ", hclose19 "b", htxt19 " d"],
    [.txt [lit 97, lit 60], hopen19 "b", .txt [lit 62, lit 100]],
    [.txt [lit 97, ⟨62, .lit⟩], hclose19 "b", .txt [lit 60, lit 100]],
    [.txt [lit 97, ⟨60, .named⟩], hopen19 "b", .txt [⟨62, .named⟩, lit 100]],
    [.txt [lit 97, lit 92], hopen19 "b", .txt [lit 92, lit 100]],
    [htxt19 "a", hopen19 "b", .txt [lit 60], hclose19 "b", htxt19 "g"],
    [htxt19 "a", hopen19 "b", htxt19 "c *d* e", hclose19 "b", htxt19 "g"],
    [htxt19 "a", hopen19 "1b", htxt19 "d"],
    [htxt19 "a", hopen19 "b-c", htxt19 "d"],
    [htxt19 "a", hopen19 "", htxt19 "d"] ]

/-- (h19-own) every line of `h19linePool` alone × gap 0..1 × trail 0..1, and as the second of two lines -/
def h19famOwnCount : Nat := h19linePool.length * 5

def h19famOwn (i : Nat) : H19Doc :=
  let l := h19linePool.getD (i / 5) [htxt19 "q"]
  if i % 5 == 4 then { items := [{ lines := [[htxt19 "x", hopen19 "y", htxt19 "w"], l] }] }
  else { items := [{ gap := i / 2 % 2, lines := [l] }], trail := i % 2 }

def countH19 : Nat := countL + h19famOwnCount

def enumH19 (i : Nat) : Option H19Doc :=
  if i < countL then (enumL i).map h19docOfL
  else if i < countH19 then some (h19famOwn (i - countL))
  else none

def answerH19 (d : H19Doc) : String :=
  if h19fragB d then s!"{hexOfBytes (spellH19 d)} {hexOfBytes (expectedH19 d)}" else "skip"

def modelAnswerH19 (d : H19Doc) : String :=
  if !h19fragB d then "skip" else
  match GM.Convert.convertCore [] ropts (spellH19 d) with
  | .ok h => if h == expectedH19 d then "ok" else s!"fail:model-differs {hexOfBytes h}"
  | .error e => s!"fail:model-differs {e.str}"

def specAnswerH19 (d : H19Doc) : String :=
  if !h19fragB d then "skip" else
  let e := h19embed d
  if expectedH19 d != expected e then s!"fail:spec-expected {hexOfBytes (expected e)}"
  else if h19noExtraBlanks d && !d.items.isEmpty && spellH19 d != spell e then s!"fail:spec-spell {hexOfBytes (spell e)}"
  else if !wellFormed e then "fail:spec-wellformed"
  else "ok"

/-- the stage-19 ops; `none` for every other op -/
def withH19Doc (k : H19Doc → String) : List String → Option String
  | ["h19gen", s, z] => some (nat s fun seed => nat z fun size => k (genH19Doc seed size))
  | ["h19enum", i] => some (nat i fun i =>
      match enumH19 i with
      | none => "end"
      | some d => k d)
  | _ => none

/-- `h19count`, `h19gen` / `h19enum` and their `model` / `spec` variants -/
def handleH19 : List String → Option String
  | ["h19count"] => some (toString countH19)
  | "model" :: rest => withH19Doc modelAnswerH19 rest
  | "spec" :: rest => withH19Doc specAnswerH19 rest
  | rest => withH19Doc answerH19 rest

/-! ## stage 20: underscore emphasis between the runs of text (`UnDoc`, paragraphs only; `spellUn`, `expectedUn`,
    `unembed`) -/

/-- a character whose source bytes begin and end with white space or punctuation: a space 40 %, punctuation in any
    spelling 40 %, a letter or digit written as a numeric reference 20 % -/
def genUnSep : G TChar := do
  let r ← below 100
  if r < 40 then return lit 32
  else if r < 80 then return inFrag ⟨← pickL punct, ← genSpelling⟩
  else if (← chance 50) then return ⟨← pickL alnums, .dec (← below 3)⟩
  else return ⟨← pickL alnums, .hex (← below 3) (← chance 50) (← chance 50)⟩

def genUnAtom : G UnAtomS := do
  let c ← genInfo (1 + (← below 6))
  if (← chance 50) then return .em c else return .strong c

/-- text that may stand behind a closing run (`front`) / in front of an opening run (`back`) -/
def genUnText (front back : Bool) : G (List TChar) := do
  let t ← genEdgeText front back
  let t ← match t.head? with
    | some a => if front && !unafterOK a then (do return (← genUnSep) :: t) else pure t
    | none => pure t
  match t.getLast? with
    | some z => if back && !unbeforeOK z then (do return t ++ [← genUnSep]) else pure t
    | none => pure t

/-- `n` further emphasis atoms, each followed by a text atom (the last one ends with a literal letter or digit) -/
def genUnTail : Nat → G (List UnAtomS)
  | 0 => return []
  | n + 1 => do
    let c ← genUnAtom
    let t ← genUnText true (n != 0)
    let t ← if t.isEmpty then (do return [← genUnSep]) else pure t
    let t ← if n == 0 then (do return t ++ [lit (← pickL alnums)]) else pure t
    let rest ← genUnTail n
    return c :: .txt t :: rest

/-- a line with 1..3 emphasis atoms -/
def genUnLine : G UnLine := do
  let a := lit (← pickL letters)
  let t ← genUnText false true
  let t ← if t.isEmpty then (do return [← genUnSep]) else pure t
  let rest ← genUnTail (1 + (← below 3))
  return .txt (a :: t) :: rest

def genUnLines : Nat → G (List UnLine)
  | 0 => return []
  | n + 1 => do
    let l ← genUnLine
    let rest ← genUnLines n
    return l :: rest

def genUnItems : Nat → G (List UnItem)
  | 0 => return []
  | n + 1 => do
    let gap ← below 3
    let ls ← genUnLines (1 + (← below 3))
    let rest ← genUnItems n
    return { gap := gap, lines := ls } :: rest

def genUnDocM (size : Nat) : G UnDoc := do
  let n ← below (max size 1)
  let items ← genUnItems (n + 1)
  let trail ← below 3
  return { items := items, trail := trail }

def genUnDoc (seed size : Nat) : UnDoc :=
  (genUnDocM size |>.run { s := UInt64.ofNat (seed * 2654435761 + size + 20020) }).1

structure UnFamily where
  count : Nat
  doc : Nat → UnDoc

def oneUnLine (l : UnLine) : UnDoc := { items := [{ lines := [l] }] }

def untxt (s : String) : UnAtomS := .txt (lits s)
def unem (s : String) : UnAtomS := .em (strBytes s)
def unstrong (s : String) : UnAtomS := .strong (strBytes s)

def unKind (k : Nat) (s : String) : UnAtomS := if k % 2 == 0 then unem s else unstrong s

/-- lines of the fixed shapes: between spaces, between punctuation, two and three emphases of either kind with one
    character between them, longer contents, an escaped `_` / `*` directly outside the delimiters, numeric references
    of letters directly outside -/
def unlinePool : List UnLine :=
  [ [untxt "a ", unem "b", untxt " c"],
    [untxt "a ", unstrong "b", untxt " c"],
    [untxt "a(", unem "b", untxt ")c"],
    [untxt "a.", unstrong "b", untxt ",c"],
    [untxt "a ", unem "b", untxt " ", unem "d", untxt " e"],
    [untxt "a ", unem "b", untxt " ", unstrong "d", untxt " e"],
    [untxt "a ", unstrong "b", untxt "-", unem "d", untxt " e"],
    [untxt "a ", unstrong "b", untxt ".", unstrong "d", untxt ".e"],
    [untxt "a ", unem "x1", untxt " b ", unstrong "Yz", untxt " c ", unem "q", untxt " d"],
    [untxt "ab cd ", unem "word", untxt " e"],
    [untxt "a ", unstrong "123456", untxt " 7"],
    [.txt [lit 97, lit 95], unem "x", .txt [lit 95, lit 98]],
    [.txt [lit 97, lit 95], unstrong "x", .txt [lit 95, lit 98]],
    [.txt [lit 97, lit 42], unem "x", .txt [lit 42, lit 98]],
    [.txt [lit 97, lit 92], unem "x", .txt [lit 92, lit 98]],
    [.txt [lit 97, ⟨98, .dec 0⟩], unem "x", .txt [⟨99, .hex 0 false false⟩, lit 100]],
    [untxt "a ", unem "x", .txt [lit 95], unem "y", untxt " c"],
    [untxt "a ", unem "x", .txt [lit 95], unstrong "y", untxt " c"],
    [untxt "g"] ]

def poolUnLine (k : Nat) : UnLine := unlinePool.getD (k % unlinePool.length) [untxt "q"]

/-- (un-a) every pool line alone × gap 0..1 × trail 0..1 -/
def unfamLines : UnFamily where
  count := unlinePool.length * 4
  doc i := { items := [{ gap := i / 2 % 2, lines := [poolUnLine (i / 4)] }], trail := i % 2 }

/-- the edge documents: each of the 95 printable characters in 7 spellings directly BEFORE the opening
    (`a` X `_x_` ` z`) and directly AFTER the closing run (`a ` `_x_` X `z`), for `_` and for `__` -/
def unEdgeDoc (i : Nat) : UnDoc :=
  let c := UInt8.ofNat (32 + i / 28)
  let t := (spellings8 c).getD (i / 4 % 7) (lit 120)
  let e := unKind (i / 2 % 2) "x"
  if i % 2 == 0 then oneUnLine [.txt [lit 97, t], e, untxt " z"]
  else oneUnLine [untxt "a ", e, .txt [t, lit 122]]

/-- (un-b) the edge documents; those outside the fragment (a letter or digit as neighbouring source byte, a literal
    `!`) are answered `skip` here and are the non-members of `unnon` -/
def unfamEdges : UnFamily where
  count := 95 * 7 * 2 * 2
  doc := unEdgeDoc

/-- (un-c) each of the 95 printable characters in 7 spellings ALONE between two emphasis atoms, all 4 ordered pairs
    of {`_x_`, `__x__`} -/
def unfamBetween : UnFamily where
  count := 95 * 7 * 4
  doc i :=
    let c := UInt8.ofNat (32 + i / 28)
    let t := (spellings8 c).getD (i / 4 % 7) (lit 120)
    oneUnLine [untxt "a ", unKind (i / 2 % 2) "x", .txt [t], unKind (i % 2) "w", untxt " z"]

/-- paragraphs from base-6 digits: digit % 3 + 1 lines, digit / 3 extra blank lines in front -/
def unshapeItems (off : Nat) : Nat → Nat → Nat → List UnItem
  | 0, _, _ => []
  | n + 1, p, code =>
    let d := code % 6
    let lines := (List.range (d % 3 + 1)).map fun j => poolUnLine (off + 3 * p + j)
    { gap := d / 3, lines := lines } :: unshapeItems off n (p + 1) (code / 6)

/-- (un-d) all shapes of `n` paragraphs: 1..3 lines each × gap 0..1 each × trail 0..1 × 6 rotations of the line pool -/
def unfamShapes (n : Nat) : UnFamily where
  count := 6 ^ n * 12
  doc i := { items := unshapeItems (i / 2 % 6 * 3) n 0 (i / 12), trail := i % 2 }

/-- (un-e) the empty document and blank lines only -/
def unfamEmpty : UnFamily where
  count := 3
  doc i := { items := [], trail := i }

def unfamilies : List UnFamily := [unfamLines, unfamEdges, unfamBetween, unfamShapes 1, unfamShapes 2, unfamEmpty]

def countUn : Nat := unfamilies.foldl (fun acc f => acc + f.count) 0

def enumUnIn : List UnFamily → Nat → Option UnDoc
  | [], _ => none
  | f :: rest, i => if i < f.count then some (f.doc i) else enumUnIn rest (i - f.count)

def enumUn (i : Nat) : Option UnDoc := enumUnIn unfamilies i

def answerUn (d : UnDoc) : String :=
  if unfragB d then s!"{hexOfBytes (spellUn d)} {hexOfBytes (expectedUn d)}" else "skip"

def modelAnswerUn (d : UnDoc) : String :=
  if !unfragB d then "skip" else
  match GM.Convert.convertCore [] ropts (spellUn d) with
  | .ok h => if h == expectedUn d then "ok" else s!"fail:model-differs {hexOfBytes h}"
  | .error e => s!"fail:model-differs {e.str}"

def specAnswerUn (d : UnDoc) : String :=
  if !unfragB d then "skip" else
  let e := unembed d
  if expectedUn d != expected e then s!"fail:spec-expected {hexOfBytes (expected e)}"
  else if unnoExtraBlanks d && !d.items.isEmpty && spellUn d != spell e then s!"fail:spec-spell {hexOfBytes (spell e)}"
  else if !wellFormed e then "fail:spec-wellformed"
  else "ok"

/-! the NON-members: lines with ONE emphasis atom that satisfy every line condition but the neighbour condition. The
    specification reads them as literal text (the run cannot open / cannot close: 6.2 rules 2, 4, 6, 8) -/

/-- the line conditions without `unneighOK` -/
def unrelaxedB (d : UnDoc) : Bool :=
  d.items.all fun it => !it.lines.isEmpty && it.lines.all fun l =>
    unalternatingS l && unfirstOKS l && unlastOKS l && l.all unatomOKS

def litUnAtom : UnAtomS → Bytes
  | .txt cs => escHtml (plain cs)
  | a => spellUnAtom a

/-- the HTML of a document whose emphasis atoms all stay literal text -/
def literalUn (d : UnDoc) : Bytes :=
  d.items.flatMap fun it => strBytes "<p>" ++ joinNl (it.lines.map fun l => l.flatMap litUnAtom) ++ strBytes "</p>\n"

/-- `a_b_c`, `a_b_ c`, `a _b_c` and the same with `__`, then the edge documents -/
def unNonDoc (i : Nat) : UnDoc :=
  match i with
  | 0 => oneUnLine [untxt "a", unem "b", untxt "c"]
  | 1 => oneUnLine [untxt "a", unem "b", untxt " c"]
  | 2 => oneUnLine [untxt "a ", unem "b", untxt "c"]
  | 3 => oneUnLine [untxt "a", unstrong "b", untxt "c"]
  | 4 => oneUnLine [untxt "a", unstrong "b", untxt " c"]
  | 5 => oneUnLine [untxt "a ", unstrong "b", untxt "c"]
  | i + 6 => unEdgeDoc i

def countUnNon : Nat := 6 + 95 * 7 * 2 * 2

def unNonOK (d : UnDoc) : Bool := !unfragB d && unrelaxedB d

def answerUnNon (d : UnDoc) : String :=
  if unNonOK d then s!"{hexOfBytes (spellUn d)} {hexOfBytes (literalUn d)}" else "skip"

def modelAnswerUnNon (d : UnDoc) : String :=
  if !unNonOK d then "skip" else
  match GM.Convert.convertCore [] ropts (spellUn d) with
  | .ok h => if h == literalUn d then "ok" else s!"fail:model-differs {hexOfBytes h}"
  | .error e => s!"fail:model-differs {e.str}"

/-- the spec model on a non-member: `unembed d` is not the document's reading; what can be checked is that the spec
    model itself does not write it with `_` (its `spell` falls back to `*` next to a letter or digit) -/
def specAnswerUnNon (d : UnDoc) : String :=
  if !unNonOK d then "skip"
  else if spell (unembed d) == spellUn d then "fail:spec-spell-underscore" else "ok"

def withUnDoc (k : UnDoc → String) (kn : UnDoc → String) : List String → Option String
  | ["ungen", s, z] => some (nat s fun seed => nat z fun size => k (genUnDoc seed size))
  | ["unenum", i] => some (nat i fun i =>
      match enumUn i with
      | none => "end"
      | some d => k d)
  | ["unnon", i] => some (nat i fun i => if i < countUnNon then kn (unNonDoc i) else "end")
  | _ => none

/-- `uncount`, `unnoncount`, `ungen` / `unenum` / `unnon` and their `model` / `spec` variants -/
def handleUn : List String → Option String
  | ["uncount"] => some (toString countUn)
  | ["unnoncount"] => some (toString countUnNon)
  | "model" :: rest => withUnDoc modelAnswerUn modelAnswerUnNon rest
  | "spec" :: rest => withUnDoc specAnswerUn specAnswerUnNon rest
  | rest => withUnDoc answerUn answerUnNon rest

/-! ## stage 22: the WIDER class of quoted contents (`gqfragB`, `guqfragB`): the documents of `nqgen` / `nqenum` and of
    `ugen` / the `uqfamilies` indices NOT made clean (digits, `-`, `+`, `*` inside text, `***` thematic breaks,
    `*x*` / `**x**` emphasis), inside `k + 1` nested block quotes -/

def gqAnswer (k : Nat) (d : KDoc) : String :=
  if gqfragB d then s!"{hexOfBytes (spellNQ k d)} {hexOfBytes (expectedNQ k d)}" else "skip"

def gqModelAnswer (k : Nat) (d : KDoc) : String :=
  if !gqfragB d then "skip" else
  match GM.Convert.convertCore [] ropts (spellNQ k d) with
  | .ok h => if h == expectedNQ k d then "ok" else s!"fail:model-differs {hexOfBytes h}"
  | .error e => s!"fail:model-differs {e.str}"

def gqSpecAnswer (k : Nat) (d : KDoc) : String :=
  if !gqfragB d then "skip" else
  let e := nqembed k d
  if expectedNQ k d != expected e then s!"fail:spec-expected {hexOfBytes (expected e)}"
  else if !wellFormed e then "fail:spec-wellformed"
  else "ok"

/-- `gqgen` / `gqenum`: the indices and `k` of `nqgen` / `nqenum`, the documents without `qcleanDoc` -/
def gqWithDoc (f : Nat → KDoc → String) : List String → Option String
  | ["gqgen", s, z] => some (nat s fun seed => nat z fun size =>
      f (if seed % 16 == 0 then 0 else seed % 3 + 1) (genKDoc seed size))
  | ["gqenum", i] => some (nat i fun i =>
      if i < 3 * countQ then
        match enumKIn qfamilies (i / 3) with
        | none => "end"
        | some d => f (i % 3 + 1) d
      else if i < countNQ then
        match enumKIn qfamilies (16 * (i - 3 * countQ)) with
        | none => "end"
        | some d => f 0 d
      else "end")
  | _ => none

/-- `gqcount`, `gqgen` / `gqenum` and their `model` / `spec` variants -/
def gqHandle : List String → Option String
  | ["gqcount"] => some (toString countNQ)
  | "model" :: rest => gqWithDoc gqModelAnswer rest
  | "spec" :: rest => gqWithDoc gqSpecAnswer rest
  | rest => gqWithDoc gqAnswer rest

def gqspellU (k : Nat) (d : UDocS) : Bytes := quoteLinesN (k + 1) (spellU d)

def gqexpectedU (k : Nat) (d : UDocS) : Bytes := wrapQ (k + 1) (expectedU d)

/-- the spec-model document: `k + 1` nested block quotes around the stage-13 blocks -/
def gqUEmbed (k : Nat) (d : UDocS) : Doc := { blocks := nestQuote (k + 1) (uembed d).blocks }

def gqUAnswer (k : Nat) (d : UDocS) : String :=
  if guqfragB d then s!"{hexOfBytes (gqspellU k d)} {hexOfBytes (gqexpectedU k d)}" else "skip"

def gqUModelAnswer (k : Nat) (d : UDocS) : String :=
  if !guqfragB d then "skip" else
  match GM.Convert.convertCore [] ropts (gqspellU k d) with
  | .ok h => if h == gqexpectedU k d then "ok" else s!"fail:model-differs {hexOfBytes h}"
  | .error e => s!"fail:model-differs {e.str}"

def gqUSpecAnswer (k : Nat) (d : UDocS) : String :=
  if !guqfragB d then "skip" else
  let e := gqUEmbed k d
  if gqexpectedU k d != expected e then s!"fail:spec-expected {hexOfBytes (expected e)}"
  else if !wellFormed e then "fail:spec-wellformed"
  else "ok"

def gqUCount : Nat := 3 * countUQ

/-- `guqgen <seed> <size>`: the document of `ugen <seed> <size>` (not made clean) with `k = seed % 3`;
    `guqenum <i>`: the document of index `i / 3` of `uqfamilies` (not made clean) with `k = i % 3` -/
def gqUWithDoc (f : Nat → UDocS → String) : List String → Option String
  | ["guqgen", s, z] => some (nat s fun seed => nat z fun size => f (seed % 3) (genUDoc seed size))
  | ["guqenum", i] => some (nat i fun i =>
      if i < gqUCount then
        match enumUIn uqfamilies (i / 3) with
        | none => "end"
        | some d => f (i % 3) d
      else "end")
  | _ => none

/-- `guqcount`, `guqgen` / `guqenum` and their `model` / `spec` variants -/
def gqUHandle : List String → Option String
  | ["guqcount"] => some (toString gqUCount)
  | "model" :: rest => gqUWithDoc gqUModelAnswer rest
  | "spec" :: rest => gqUWithDoc gqUSpecAnswer rest
  | rest => gqUWithDoc gqUAnswer rest

/-! ## stage 21: the union (stage 13 with indented code) whose rich lines contain ALL inline atoms (`F21Doc`) -/

/-- a tag name: a letter and 0..5 letters and digits -/
def genTagName21 : G Bytes := do
  let c ← pickL letters
  let r ← genInfo (← below 6)
  return c :: r

/-- one of the ten kinds of atoms that are not text, each 10 % -/
def genFAtom21 : G FAtomS := do
  let r ← below 10
  let c ← genInfo (1 + (← below 6))
  match r with
  | 0 => return .code c
  | 1 => return .em c
  | 2 => return .strong c
  | 3 => return .uem c
  | 4 => return .ustrong c
  | 5 => return .link c (← genDest16 (1 + (← below 8)))
  | 6 => return .img c (← genDest16 (1 + (← below 8)))
  | 7 => return .auto (← genScheme18) (← genRest18 (1 + (← below 8)))
  | 8 => return .otag (← genTagName21)
  | _ => return .ctag (← genTagName21)

def genFAtoms21 : Nat → G (List FAtomS)
  | 0 => return []
  | n + 1 => do
    let a ← genFAtom21
    let rest ← genFAtoms21 n
    return a :: rest

/-- the text behind atom `c` and in front of the atom `next` (`none`: the end of the line): `genEdgeText`, made
    non-empty, with a `genUnSep` character towards an underscore atom where the neighbour condition asks for one; the
    last text of a line ends with a literal letter or digit -/
def genFText21 (c : FAtomS) (next : Option FAtomS) : G (List TChar) := do
  let nextUnder := match next with | some a => a.isUnder | none => false
  let t ← genEdgeText true next.isSome
  let t ← if t.isEmpty then
      (if c.isUnder || nextUnder then (do return [← genUnSep]) else (do return [lit (← pickL (32 :: alnums))]))
    else pure t
  let t ← match t.head? with
    | some a => if c.isUnder && !unafterOK a then (do return (← genUnSep) :: t) else pure t
    | none => pure t
  let t ← match t.getLast? with
    | some z => if nextUnder && !unbeforeOK z then (do return t ++ [← genUnSep]) else pure t
    | none => pure t
  if next.isNone then return t ++ [lit (← pickL alnums)] else return t

def genFTail21 : List FAtomS → G (List FAtomS)
  | [] => return []
  | c :: more => do
    let t ← genFText21 c more.head?
    let rest ← genFTail21 more
    return c :: .txt t :: rest

/-- a rich line: plain text 25 %, else 1..4 atoms that are not text between runs of text -/
def genFRich21 : G (List FAtomS) := do
  if (← chance 25) then
    let l ← genLine
    return [.txt l]
  else
    let as ← genFAtoms21 (1 + (← below 4))
    let a := lit (← pickL letters)
    let t ← genEdgeText false true
    let firstUnder := match as.head? with | some x => x.isUnder | none => false
    let t0 := a :: t
    let t0 ← match t0.getLast? with
      | some z => if firstUnder && !unbeforeOK z then (do return t0 ++ [← genUnSep]) else pure t0
      | none => pure t0
    let rest ← genFTail21 as
    return .txt t0 :: rest

def genFLines21 : Nat → G (List FLineS21)
  | 0 => return []
  | n + 1 => do
    let l ← genFRich21
    let hard ← chance 40
    let rest ← genFLines21 n
    return { atoms := l, hard := hard && n != 0 } :: rest

/-- as `genUBlock` -/
def genFBlock21 : G FBlockS21 := do
  let r ← below 100
  if r < 45 then
    let n ← below 4
    let ls ← genFLines21 (1 + n)
    return .para ls
  else if r < 70 then
    let level ← below 6
    let l ← genFRich21
    return .heading (level + 1) l
  else if r < 80 then
    let c ← below 3
    let n ← below 5
    return .thematic c n
  else
    let tilde ← chance 50
    let n ← below 4
    let info ← if (← chance 40) then pure [] else genInfo (1 + (← below 6))
    let lines ← genCodeLines tilde (← below 6)
    return .fcode tilde n info lines

/-- as `genUItems` -/
def genFItems21 : Option FBlockS21 → Nat → G (List F21Item)
  | _, 0 => return []
  | prev, n + 1 => do
    let prevIc := match prev with | some a => a.isIc | none => false
    let ic ← chance 15
    let b ← if ic && !prevIc then do pure (FBlockS21.icode (← genIcLines (1 + (← below 4)))) else genFBlock21
    let sep ← match prev with
      | none => below 3
      | some a => do
        let abut ← chance 50
        let k ← below 3
        pure (if abut && f21abutOK a b then 0 else 1 + k)
    let rest ← genFItems21 (some b) n
    return { sep := sep, block := b } :: rest

def genF21DocM (size : Nat) : G F21Doc := do
  let n ← below (max size 1)
  let items ← genFItems21 none (n + 1)
  let trail ← below 3
  return { items := items, trail := trail }

def genF21Doc (seed size : Nat) : F21Doc :=
  (genF21DocM size |>.run { s := UInt64.ofNat (seed * 2654435761 + size + 212121) }).1

/-- a stage-13 document as a stage-21 document -/
def fatomOfE21 : EAtomS → FAtomS
  | .txt cs => .txt cs
  | .code c => .code c
  | .em c => .em c
  | .strong c => .strong c

def fblockOfU21 : UBlockS → FBlockS21
  | .para lines => .para (lines.map fun x => { atoms := x.atoms.map fatomOfE21, hard := x.hard })
  | .heading level text => .heading level (text.map fatomOfE21)
  | .thematic c n => .thematic c n
  | .fcode tilde n info lines => .fcode tilde n info lines
  | .icode lines => .icode lines

def f21docOfU (d : UDocS) : F21Doc :=
  { items := d.items.map fun it => { sep := it.sep, block := fblockOfU21 it.block }, trail := d.trail }

/-- the ten kinds of atoms that are not text, with fixed contents -/
def f21kindAtom (k : Nat) : FAtomS :=
  match k with
  | 0 => .code (strBytes "c")
  | 1 => .em (strBytes "e")
  | 2 => .strong (strBytes "s")
  | 3 => .uem (strBytes "u")
  | 4 => .ustrong (strBytes "v")
  | 5 => .link (strBytes "t") (strBytes "/d")
  | 6 => .img (strBytes "i") (strBytes "j/k")
  | 7 => .auto (strBytes "ab") (strBytes "r.s/q")
  | 8 => .otag (strBytes "b")
  | _ => .ctag (strBytes "b")

/-- the texts between the two atoms of a pair: one character — a space, a letter, a full stop, an escaped `!`, an
    escaped `*`, an escaped `_`, `&lt;` (written as a reference), an escaped backslash -/
def f21sepPool : List (List TChar) :=
  [[lit 32], [lit 120], [lit 46], [⟨33, .bs⟩], [⟨42, .bs⟩], [⟨95, .bs⟩], [⟨60, .named⟩], [⟨92, .bs⟩]]

/-- (f-a) all ordered pairs of the ten atom kinds in one line, one text character (8 choices) between them, the outer
    texts touching the atoms (`a` … `b`) or separated from them by a space, in a paragraph and in a heading; the lines
    that violate the underscore neighbour condition are outside the fragment (`skip`) -/
def f21famPairs (i : Nat) : F21Doc :=
  let inHead := i % 2 == 1
  let loose := i / 2 % 2 == 1
  let sep := f21sepPool.getD (i / 4 % 8) [lit 32]
  let y := f21kindAtom (i / 32 % 10)
  let x := f21kindAtom (i / 320 % 10)
  let l : List FAtomS :=
    [.txt (if loose then [lit 97, lit 32] else [lit 97]), x, .txt sep, y, .txt (if loose then [lit 32, lit 98] else [lit 98])]
  { items := [{ block := if inHead then .heading 2 l else .para [{ atoms := l }] }] }

def f21countPairs : Nat := 10 * 10 * 8 * 2 * 2

/-- (f-b) one atom of every kind between touching text `aXb`, and between spaces, in a paragraph (with a hard break
    behind the line and a second line) and in a heading -/
def f21famOne (i : Nat) : F21Doc :=
  let inHead := i % 2 == 1
  let loose := i / 2 % 2 == 1
  let x := f21kindAtom (i / 4 % 10)
  let l : List FAtomS :=
    [.txt (if loose then [lit 97, lit 32] else [lit 97]), x, .txt (if loose then [lit 32, lit 98] else [lit 98])]
  { items := [{ block := if inHead then .heading 1 l
      else .para [{ atoms := l, hard := true }, { atoms := [.txt [lit 122]] }] }], trail := i / 40 }

def f21countOne : Nat := 10 * 2 * 2 * 2

/-- a line with all ten kinds of atoms, single spaces between them -/
def f21allLine : List FAtomS :=
  .txt (lits "a ") :: ((List.range 10).flatMap fun k => [f21kindAtom k, FAtomS.txt (lits (if k == 9 then " z" else " "))])

/-- (f-c) fixed documents: the line with all ten kinds as a paragraph, as a heading, twice in one paragraph with a hard
    break between; the same kinds of bytes inside an indented code block behind a rich paragraph; a rich heading
    directly behind a rich paragraph and a fence directly behind that -/
def f21fixed : List F21Doc :=
  [ { items := [{ block := .para [{ atoms := f21allLine }] }] },
    { items := [{ block := .heading 3 f21allLine }] },
    { items := [{ block := .para [{ atoms := f21allLine, hard := true }, { atoms := f21allLine }] }] },
    { items := [{ block := .para [{ atoms := [.txt (lits "a "), .uem (strBytes "x"), .txt (lits " "), .otag (strBytes "b"), .txt (lits "c")] }] },
                { sep := 1, block := .icode [strBytes "_x_ <b> [t](d) ![i](j) <ab:c> `c`"] }] },
    { items := [{ block := .para [{ atoms := [.txt (lits "p"), .link (strBytes "t") (strBytes "d"), .txt (lits "q")] }] },
                { block := .heading 2 [.txt (lits "h"), .img (strBytes "i") (strBytes "j"), .txt (lits "k")] },
                { block := .fcode false 0 [] [strBytes "<ab:c>"] },
                { block := .icode [strBytes "x"] }] } ]

def countF21 : Nat := f21countPairs + f21countOne + 2 * f21fixed.length + countU

def enumF21 (i : Nat) : Option F21Doc :=
  if i < f21countPairs then some (f21famPairs i)
  else if i < f21countPairs + f21countOne then some (f21famOne (i - f21countPairs))
  else if i < f21countPairs + f21countOne + 2 * f21fixed.length then
    let j := i - f21countPairs - f21countOne
    (f21fixed[j / 2]?).map fun d => { d with trail := j % 2 }
  else (enumU (i - f21countPairs - f21countOne - 2 * f21fixed.length)).map f21docOfU

def answerF21 (d : F21Doc) : String :=
  if f21fragB d then s!"{hexOfBytes (spellF21 d)} {hexOfBytes (expectedF21 d)}" else "skip"

def modelAnswerF21 (d : F21Doc) : String :=
  if !f21fragB d then "skip" else
  match GM.Convert.convertCore [] ropts (spellF21 d) with
  | .ok h => if h == expectedF21 d then "ok" else s!"fail:model-differs {hexOfBytes h}"
  | .error e => s!"fail:model-differs {e.str}"

def specAnswerF21 (d : F21Doc) : String :=
  if !f21fragB d then "skip" else
  let e := f21embed d
  if expectedF21 d != expected e then s!"fail:spec-expected {hexOfBytes (expected e)}"
  else if f21noExtraBlanks d && !d.items.isEmpty && spellF21 d != spell e then s!"fail:spec-spell {hexOfBytes (spell e)}"
  else if !wellFormed e then "fail:spec-wellformed"
  else "ok"

def f21noTrail (d : F21Doc) : F21Doc := { d with trail := 0 }

def answerF21E (d : F21Doc) : String :=
  if f21fragEB d then s!"{hexOfBytes (spellF21E d)} {hexOfBytes (expectedF21 d)}" else "skip"

def modelAnswerF21E (d : F21Doc) : String :=
  if !f21fragEB d then "skip" else
  match GM.Convert.convertCore [] ropts (spellF21E d) with
  | .ok h => if h == expectedF21 d then "ok" else s!"fail:model-differs {hexOfBytes h}"
  | .error e => s!"fail:model-differs {e.str}"

def specAnswerF21E (d : F21Doc) : String :=
  if !f21fragEB d then "skip" else
  let e := f21embedE d
  if expectedF21 d != expected e then s!"fail:spec-expected {hexOfBytes (expected e)}"
  else if f21noExtraBlanks d && spellF21E d != spell e then s!"fail:spec-spell {hexOfBytes (spell e)}"
  else if !wellFormed e then "fail:spec-wellformed"
  else "ok"

def withF21Doc (k ke : F21Doc → String) : List String → Option String
  | ["f21gen", s, z] => some (nat s fun seed => nat z fun size => k (genF21Doc seed size))
  | ["f21enum", i] => some (nat i fun i =>
      match enumF21 i with
      | none => "end"
      | some d => k d)
  | ["f21egen", s, z] => some (nat s fun seed => nat z fun size => ke (f21noTrail (genF21Doc seed size)))
  | ["f21eenum", i] => some (nat i fun i =>
      match enumF21 i with
      | none => "end"
      | some d => ke (f21noTrail d))
  | _ => none

/-- `f21count` / `f21ecount`, `f21gen` / `f21enum` / `f21egen` / `f21eenum` and their `model` / `spec` variants -/
def handleF21 : List String → Option String
  | ["f21count"] => some (toString countF21)
  | ["f21ecount"] => some (toString countF21)
  | "model" :: rest => withF21Doc modelAnswerF21 modelAnswerF21E rest
  | "spec" :: rest => withF21Doc specAnswerF21 specAnswerF21E rest
  | rest => withF21Doc answerF21 answerF21E rest

/-- the same documents judged WITHOUT the restriction `f21restrS` (`f21fragWB`): ops `f21wgen` / `f21wenum` -/
def answerF21W (d : F21Doc) : String :=
  if f21fragWB d then s!"{hexOfBytes (spellF21 d)} {hexOfBytes (expectedF21 d)}" else "skip"

def modelAnswerF21W (d : F21Doc) : String :=
  if !f21fragWB d then "skip" else
  match GM.Convert.convertCore [] ropts (spellF21 d) with
  | .ok h => if h == expectedF21 d then "ok" else s!"fail:model-differs {hexOfBytes h}"
  | .error e => s!"fail:model-differs {e.str}"

def specAnswerF21W (d : F21Doc) : String :=
  if !f21fragWB d then "skip" else
  let e := f21embed d
  if expectedF21 d != expected e then s!"fail:spec-expected {hexOfBytes (expected e)}"
  else if f21noExtraBlanks d && !d.items.isEmpty && spellF21 d != spell e then s!"fail:spec-spell {hexOfBytes (spell e)}"
  else if !wellFormed e then "fail:spec-wellformed"
  else "ok"

def withF21WDoc (k : F21Doc → String) : List String → Option String
  | ["f21wgen", s, z] => some (nat s fun seed => nat z fun size => k (genF21Doc seed size))
  | ["f21wenum", i] => some (nat i fun i =>
      match enumF21 i with
      | none => "end"
      | some d => k d)
  | _ => none

def handleF21W : List String → Option String
  | ["f21wcount"] => some (toString countF21)
  | "model" :: rest => withF21WDoc modelAnswerF21W rest
  | "spec" :: rest => withF21WDoc specAnswerF21W rest
  | rest => withF21WDoc answerF21W rest

/-! ## stage 23: a stage-21 document inside `k + 1` (1..3) nested block quotes, the wider class (`gf21qfragB`): the
    documents of `f21gen` / `f21enum` with the link / image atoms replaced, `[` / tab / CR respelled, no indented code -/

/-- a character whose source bytes are all `gqcleanByte`: as it is, else its named reference (`&lsqb;`), else `x` -/
def gqF21T (t : TChar) : TChar :=
  if (spellChar t).all gqcleanByte then t
  else if (spellChar ⟨t.c, .named⟩).all gqcleanByte then ⟨t.c, .named⟩
  else lit 120

def gqF21Bytes (l : Bytes) : Bytes := l.map fun c => if gqcleanByte c then c else 120

/-- `[t](d)` becomes the code span of `t`, `![a](d)` becomes `*a*`; the other atoms keep their kind -/
def gqF21Atom : FAtomS → FAtomS
  | .txt cs => .txt (cs.map gqF21T)
  | .code c => .code (gqF21Bytes c)
  | .link t _ => .code (gqF21Bytes t)
  | .img a _ => .em (gqF21Bytes a)
  | a => a

def gqF21Block : FBlockS21 → FBlockS21
  | .para lines => .para (lines.map fun x => { x with atoms := x.atoms.map gqF21Atom })
  | .heading level text => .heading level (text.map gqF21Atom)
  | .thematic c n => .thematic c n
  | .fcode tilde n info lines => .fcode tilde n (gqF21Bytes info) (lines.map gqF21Bytes)
  | .icode lines => .fcode true 0 [] (lines.map gqF21Bytes)   -- no indented code block inside the quote

def gqF21Clean (d : F21Doc) : F21Doc :=
  { d with items := d.items.map fun it => { it with block := gqF21Block it.block } }

def gqF21Spell (k : Nat) (d : F21Doc) : Bytes := quoteLinesN (k + 1) (spellF21 d)

def gqF21Expected (k : Nat) (d : F21Doc) : Bytes := wrapQ (k + 1) (expectedF21 d)

/-- the spec-model document: `k + 1` nested block quotes around the stage-21 blocks -/
def gqF21Embed (k : Nat) (d : F21Doc) : Doc := { blocks := nestQuote (k + 1) (f21embed d).blocks }

def gqF21Answer (k : Nat) (d : F21Doc) : String :=
  if gf21qfragB d then s!"{hexOfBytes (gqF21Spell k d)} {hexOfBytes (gqF21Expected k d)}" else "skip"

def gqF21ModelAnswer (k : Nat) (d : F21Doc) : String :=
  if !gf21qfragB d then "skip" else
  match GM.Convert.convertCore [] ropts (gqF21Spell k d) with
  | .ok h => if h == gqF21Expected k d then "ok" else s!"fail:model-differs {hexOfBytes h}"
  | .error e => s!"fail:model-differs {e.str}"

def gqF21SpecAnswer (k : Nat) (d : F21Doc) : String :=
  if !gf21qfragB d then "skip" else
  let e := gqF21Embed k d
  if gqF21Expected k d != expected e then s!"fail:spec-expected {hexOfBytes (expected e)}"
  else if !wellFormed e then "fail:spec-wellformed"
  else "ok"

def gqF21Count : Nat := 3 * countF21

/-- `gf21qgen <seed> <size>`: the document of `f21gen <seed> <size>` made clean, `k = seed % 3`;
    `gf21qenum <i>`: the document of `f21enum (i / 3)` made clean, `k = i % 3` -/
def gqF21WithDoc (f : Nat → F21Doc → String) : List String → Option String
  | ["gf21qgen", s, z] => some (nat s fun seed => nat z fun size => f (seed % 3) (gqF21Clean (genF21Doc seed size)))
  | ["gf21qenum", i] => some (nat i fun i =>
      if i < gqF21Count then
        match enumF21 (i / 3) with
        | none => "end"
        | some d => f (i % 3) (gqF21Clean d)
      else "end")
  | _ => none

/-- `gf21qcount`, `gf21qgen` / `gf21qenum` and their `model` / `spec` variants -/
def gqF21Handle : List String → Option String
  | ["gf21qcount"] => some (toString gqF21Count)
  | "model" :: rest => gqF21WithDoc gqF21ModelAnswer rest
  | "spec" :: rest => gqF21WithDoc gqF21SpecAnswer rest
  | rest => gqF21WithDoc gqF21Answer rest

end CMFrag

/-- `cmfrag gen <seed> <size>` / `cmfrag enum <i>` → `<hex spellF d> <hex expectedF d>` (`skip` outside the fragment,
    `end` past the last index); `cmfrag count` → size of the enumerated index space; `cmfrag model gen|enum …` → `ok`
    when the goldmark model `convertCore` yields `expectedF d` on `spellF d`; `cmfrag spec gen|enum …` → `ok` when the
    fragment agrees with the spec-side model on `embed d`. Stage 4 (`GDoc`: paragraphs, ATX headings, thematic breaks):
    `cmfrag ggen <seed> <size>` / `cmfrag genum <i>` / `cmfrag gcount`, `cmfrag model ggen|genum …`,
    `cmfrag spec ggen|genum …`, the same with `spellG`, `expectedG`, `gembed`. Stage 5 (`HDoc`: the same plus fenced code
    blocks): `cmfrag hgen <seed> <size>` / `cmfrag henum <i>` / `cmfrag hcount`, `cmfrag model hgen|henum …`,
    `cmfrag spec hgen|henum …` with `spellH`, `expectedH`, `hembed`. Stage 6 (`KDoc`: the same blocks, directly behind
    each other where the specification allows it): `cmfrag kgen <seed> <size>` / `cmfrag kenum <i>` / `cmfrag kcount`,
    `cmfrag model kgen|kenum …`, `cmfrag spec kgen|kenum …` with `spellK`, `expectedK`, `kembed`. Stage 7 (the stage-6
    documents with `trail` forced to 0, written without the final line feed; `skip` when not `kfragEB`):
    `cmfrag egen <seed> <size>` / `cmfrag eenum <i>` / `cmfrag ecount` (= `kcount`), `cmfrag model egen|eenum …`,
    `cmfrag spec egen|eenum …` with `spellKE`, `expectedK`, `kembedE`. Stage 8 (`RDoc`: paragraphs whose lines contain
    code spans): `cmfrag rgen <seed> <size>` / `cmfrag renum <i>` / `cmfrag rcount`, `cmfrag model rgen|renum …`,
    `cmfrag spec rgen|renum …` with `spellR`, `expectedR`, `rembed`. Stage 9 (`BDoc`: paragraphs whose lines may end
    in a hard line break written with a backslash): `cmfrag bgen <seed> <size>` / `cmfrag benum <i>` / `cmfrag bcount`,
    `cmfrag model bgen|benum …`, `cmfrag spec bgen|benum …` with `spellBD`, `expectedBD`, `bembed`. Stage 10 (a stage-6
    document inside one block quote, its source free of list / link-label starting bytes; `skip` when not `qfragB`):
    `cmfrag qgen <seed> <size>` / `cmfrag qenum <i>` / `cmfrag qcount`, `cmfrag model qgen|qenum …`,
    `cmfrag spec qgen|qenum …` with `spellQ`, `expectedQ`, `qembed`; `cmfrag qspell qgen|qenum …` → how
    `spell (qembed d)` compares with `spellQ d` (`same` / `blank` / `extra` / `differs <hex>`). Stage 11 (`EDoc`:
    paragraphs whose lines contain code spans, `*x*` and `**x**`): `cmfrag emgen <seed> <size>` / `cmfrag emenum <i>` /
    `cmfrag emcount`, `cmfrag model emgen|emenum …`, `cmfrag spec emgen|emenum …` with `spellE`, `expectedE`, `eembed`. Stage 10 without the
    final line feed (the documents of `qgen` / `qenum` with `trail` forced to 0; `skip` when not `qfragEB`):
    `cmfrag qegen <seed> <size>` / `cmfrag qeenum <i>` / `cmfrag qecount` (= `qcount`), `cmfrag model qegen|qeenum …`,
    `cmfrag spec qegen|qeenum …` with `spellQE`, `expectedQ`, `qembedE`. Stage 12 (`IDoc`: the stage-6 blocks and
    indented code blocks): `cmfrag igen <seed> <size>` / `cmfrag ienum <i>` / `cmfrag icount`,
    `cmfrag model igen|ienum …`, `cmfrag spec igen|ienum …` with `spellIc`, `expectedI`, `iembed`; the same documents with
    `trail` forced to 0, written without the final line feed (`skip` when not `ifragEB`): `cmfrag iegen <seed> <size>` /
    `cmfrag ieenum <i>` / `cmfrag iecount` (= `icount`), with `spellIcE`, `expectedI`, `iembedE` -/
def handleCMFrag : List String → String
  -- stage 23 (a stage-21 document inside 1..3 quotes, `gf21qfragB`): Driver.CMFrag.gqF21Handle
  | ["gf21qcount"] => (CMFrag.gqF21Handle ["gf21qcount"]).getD bad
  | ["gf21qgen", s, z] => (CMFrag.gqF21Handle ["gf21qgen", s, z]).getD bad
  | ["gf21qenum", i] => (CMFrag.gqF21Handle ["gf21qenum", i]).getD bad
  | ["model", "gf21qgen", s, z] => (CMFrag.gqF21Handle ["model", "gf21qgen", s, z]).getD bad
  | ["model", "gf21qenum", i] => (CMFrag.gqF21Handle ["model", "gf21qenum", i]).getD bad
  | ["spec", "gf21qgen", s, z] => (CMFrag.gqF21Handle ["spec", "gf21qgen", s, z]).getD bad
  | ["spec", "gf21qenum", i] => (CMFrag.gqF21Handle ["spec", "gf21qenum", i]).getD bad
  -- stage 22 (the wider class of quoted contents, `gqfragB` / `guqfragB`): Driver.CMFrag.gqHandle / gqUHandle
  | ["gqcount"] => (CMFrag.gqHandle ["gqcount"]).getD bad
  | ["gqgen", s, z] => (CMFrag.gqHandle ["gqgen", s, z]).getD bad
  | ["gqenum", i] => (CMFrag.gqHandle ["gqenum", i]).getD bad
  | ["model", "gqgen", s, z] => (CMFrag.gqHandle ["model", "gqgen", s, z]).getD bad
  | ["model", "gqenum", i] => (CMFrag.gqHandle ["model", "gqenum", i]).getD bad
  | ["spec", "gqgen", s, z] => (CMFrag.gqHandle ["spec", "gqgen", s, z]).getD bad
  | ["spec", "gqenum", i] => (CMFrag.gqHandle ["spec", "gqenum", i]).getD bad
  | ["guqcount"] => (CMFrag.gqUHandle ["guqcount"]).getD bad
  | ["guqgen", s, z] => (CMFrag.gqUHandle ["guqgen", s, z]).getD bad
  | ["guqenum", i] => (CMFrag.gqUHandle ["guqenum", i]).getD bad
  | ["model", "guqgen", s, z] => (CMFrag.gqUHandle ["model", "guqgen", s, z]).getD bad
  | ["model", "guqenum", i] => (CMFrag.gqUHandle ["model", "guqenum", i]).getD bad
  | ["spec", "guqgen", s, z] => (CMFrag.gqUHandle ["spec", "guqgen", s, z]).getD bad
  | ["spec", "guqenum", i] => (CMFrag.gqUHandle ["spec", "guqenum", i]).getD bad
  -- stage 20 (`UnDoc`: paragraphs whose lines contain `_x_` / `__x__`; `unnon`: the non-members that stay literal): Driver.CMFrag.handleUn
  -- stage 21 (`F21Doc`: the union with all inline atoms; `f21w…`: without the restriction `f21restrS`): Driver.CMFrag.handleF21
  | ["f21count"] => (CMFrag.handleF21 ["f21count"]).getD bad
  | ["f21ecount"] => (CMFrag.handleF21 ["f21ecount"]).getD bad
  | ["f21wcount"] => (CMFrag.handleF21W ["f21wcount"]).getD bad
  | ["f21gen", s, z] => (CMFrag.handleF21 ["f21gen", s, z]).getD bad
  | ["model", "f21gen", s, z] => (CMFrag.handleF21 ["model", "f21gen", s, z]).getD bad
  | ["spec", "f21gen", s, z] => (CMFrag.handleF21 ["spec", "f21gen", s, z]).getD bad
  | ["f21egen", s, z] => (CMFrag.handleF21 ["f21egen", s, z]).getD bad
  | ["model", "f21egen", s, z] => (CMFrag.handleF21 ["model", "f21egen", s, z]).getD bad
  | ["spec", "f21egen", s, z] => (CMFrag.handleF21 ["spec", "f21egen", s, z]).getD bad
  | ["f21wgen", s, z] => (CMFrag.handleF21W ["f21wgen", s, z]).getD bad
  | ["model", "f21wgen", s, z] => (CMFrag.handleF21W ["model", "f21wgen", s, z]).getD bad
  | ["spec", "f21wgen", s, z] => (CMFrag.handleF21W ["spec", "f21wgen", s, z]).getD bad
  | ["f21enum", i] => (CMFrag.handleF21 ["f21enum", i]).getD bad
  | ["model", "f21enum", i] => (CMFrag.handleF21 ["model", "f21enum", i]).getD bad
  | ["spec", "f21enum", i] => (CMFrag.handleF21 ["spec", "f21enum", i]).getD bad
  | ["f21eenum", i] => (CMFrag.handleF21 ["f21eenum", i]).getD bad
  | ["model", "f21eenum", i] => (CMFrag.handleF21 ["model", "f21eenum", i]).getD bad
  | ["spec", "f21eenum", i] => (CMFrag.handleF21 ["spec", "f21eenum", i]).getD bad
  | ["f21wenum", i] => (CMFrag.handleF21W ["f21wenum", i]).getD bad
  | ["model", "f21wenum", i] => (CMFrag.handleF21W ["model", "f21wenum", i]).getD bad
  | ["spec", "f21wenum", i] => (CMFrag.handleF21W ["spec", "f21wenum", i]).getD bad
  | ["uncount"] => (CMFrag.handleUn ["uncount"]).getD bad
  | ["unnoncount"] => (CMFrag.handleUn ["unnoncount"]).getD bad
  | ["ungen", s, z] => (CMFrag.handleUn ["ungen", s, z]).getD bad
  | ["unenum", i] => (CMFrag.handleUn ["unenum", i]).getD bad
  | ["unnon", i] => (CMFrag.handleUn ["unnon", i]).getD bad
  | ["model", "ungen", s, z] => (CMFrag.handleUn ["model", "ungen", s, z]).getD bad
  | ["model", "unenum", i] => (CMFrag.handleUn ["model", "unenum", i]).getD bad
  | ["model", "unnon", i] => (CMFrag.handleUn ["model", "unnon", i]).getD bad
  | ["spec", "ungen", s, z] => (CMFrag.handleUn ["spec", "ungen", s, z]).getD bad
  | ["spec", "unenum", i] => (CMFrag.handleUn ["spec", "unenum", i]).getD bad
  | ["spec", "unnon", i] => (CMFrag.handleUn ["spec", "unnon", i]).getD bad
  -- stage 19 (`H19Doc`: paragraphs whose lines contain raw HTML tags `<n>` / `</n>`): Driver.CMFrag.handleH19
  | ["h19count"] => (CMFrag.handleH19 ["h19count"]).getD bad
  | ["h19gen", s, z] => (CMFrag.handleH19 ["h19gen", s, z]).getD bad
  | ["h19enum", i] => (CMFrag.handleH19 ["h19enum", i]).getD bad
  | ["model", "h19gen", s, z] => (CMFrag.handleH19 ["model", "h19gen", s, z]).getD bad
  | ["model", "h19enum", i] => (CMFrag.handleH19 ["model", "h19enum", i]).getD bad
  | ["spec", "h19gen", s, z] => (CMFrag.handleH19 ["spec", "h19gen", s, z]).getD bad
  | ["spec", "h19enum", i] => (CMFrag.handleH19 ["spec", "h19enum", i]).getD bad
  -- stage 18 (`ADoc`: paragraphs whose lines contain URI autolinks `<s:r>`): Driver.CMFrag.handleA
  | ["acount"] => (CMFrag.handleA ["acount"]).getD bad
  | ["agen", s, z] => (CMFrag.handleA ["agen", s, z]).getD bad
  | ["aenum", i] => (CMFrag.handleA ["aenum", i]).getD bad
  | ["model", "agen", s, z] => (CMFrag.handleA ["model", "agen", s, z]).getD bad
  | ["model", "aenum", i] => (CMFrag.handleA ["model", "aenum", i]).getD bad
  | ["spec", "agen", s, z] => (CMFrag.handleA ["spec", "agen", s, z]).getD bad
  | ["spec", "aenum", i] => (CMFrag.handleA ["spec", "aenum", i]).getD bad
  -- stage 17 (`ImgDoc`: paragraphs whose lines contain images `![t](d)`): Driver.CMFrag.handleImg
  | ["imgcount"] => (CMFrag.handleImg ["imgcount"]).getD bad
  | ["imggen", s, z] => (CMFrag.handleImg ["imggen", s, z]).getD bad
  | ["imgenum", i] => (CMFrag.handleImg ["imgenum", i]).getD bad
  | ["model", "imggen", s, z] => (CMFrag.handleImg ["model", "imggen", s, z]).getD bad
  | ["model", "imgenum", i] => (CMFrag.handleImg ["model", "imgenum", i]).getD bad
  | ["spec", "imggen", s, z] => (CMFrag.handleImg ["spec", "imggen", s, z]).getD bad
  | ["spec", "imgenum", i] => (CMFrag.handleImg ["spec", "imgenum", i]).getD bad
  -- stage 16 (`LDoc`: paragraphs whose lines contain inline links `[t](d)`): Driver.CMFrag.handleL
  | ["lcount"] => (CMFrag.handleL ["lcount"]).getD bad
  | ["lgen", s, z] => (CMFrag.handleL ["lgen", s, z]).getD bad
  | ["lenum", i] => (CMFrag.handleL ["lenum", i]).getD bad
  | ["model", "lgen", s, z] => (CMFrag.handleL ["model", "lgen", s, z]).getD bad
  | ["model", "lenum", i] => (CMFrag.handleL ["model", "lenum", i]).getD bad
  | ["spec", "lgen", s, z] => (CMFrag.handleL ["spec", "lgen", s, z]).getD bad
  | ["spec", "lenum", i] => (CMFrag.handleL ["spec", "lenum", i]).getD bad
  -- stage 15 (a stage-13 union document inside one block quote): Driver.CMFrag.handleUQ
  | ["uqcount"] => (CMFrag.handleUQ ["uqcount"]).getD bad
  | ["uqgen", s, z] => (CMFrag.handleUQ ["uqgen", s, z]).getD bad
  | ["uqenum", i] => (CMFrag.handleUQ ["uqenum", i]).getD bad
  | ["model", "uqgen", s, z] => (CMFrag.handleUQ ["model", "uqgen", s, z]).getD bad
  | ["model", "uqenum", i] => (CMFrag.handleUQ ["model", "uqenum", i]).getD bad
  | ["spec", "uqgen", s, z] => (CMFrag.handleUQ ["spec", "uqgen", s, z]).getD bad
  | ["spec", "uqenum", i] => (CMFrag.handleUQ ["spec", "uqenum", i]).getD bad
  -- stage 14 (`k + 1` nested block quotes around a stage-6 document): Driver.CMFrag.handleNQ
  | ["nqcount"] => (CMFrag.handleNQ ["nqcount"]).getD bad
  | ["nqgen", s, z] => (CMFrag.handleNQ ["nqgen", s, z]).getD bad
  | ["nqenum", i] => (CMFrag.handleNQ ["nqenum", i]).getD bad
  | ["model", "nqgen", s, z] => (CMFrag.handleNQ ["model", "nqgen", s, z]).getD bad
  | ["model", "nqenum", i] => (CMFrag.handleNQ ["model", "nqenum", i]).getD bad
  | ["spec", "nqgen", s, z] => (CMFrag.handleNQ ["spec", "nqgen", s, z]).getD bad
  | ["spec", "nqenum", i] => (CMFrag.handleNQ ["spec", "nqenum", i]).getD bad
  -- stage 13 (`UDocS`, the union of the stages; `u…` with, `ue…` without the final line feed): Driver.CMFrag.handleU
  | ["ucount"] => (CMFrag.handleU ["ucount"]).getD bad
  | ["uecount"] => (CMFrag.handleU ["uecount"]).getD bad
  | ["ugen", s, z] => (CMFrag.handleU ["ugen", s, z]).getD bad
  | ["uenum", i] => (CMFrag.handleU ["uenum", i]).getD bad
  | ["uegen", s, z] => (CMFrag.handleU ["uegen", s, z]).getD bad
  | ["ueenum", i] => (CMFrag.handleU ["ueenum", i]).getD bad
  | ["model", "ugen", s, z] => (CMFrag.handleU ["model", "ugen", s, z]).getD bad
  | ["model", "uenum", i] => (CMFrag.handleU ["model", "uenum", i]).getD bad
  | ["model", "uegen", s, z] => (CMFrag.handleU ["model", "uegen", s, z]).getD bad
  | ["model", "ueenum", i] => (CMFrag.handleU ["model", "ueenum", i]).getD bad
  | ["spec", "ugen", s, z] => (CMFrag.handleU ["spec", "ugen", s, z]).getD bad
  | ["spec", "uenum", i] => (CMFrag.handleU ["spec", "uenum", i]).getD bad
  | ["spec", "uegen", s, z] => (CMFrag.handleU ["spec", "uegen", s, z]).getD bad
  | ["spec", "ueenum", i] => (CMFrag.handleU ["spec", "ueenum", i]).getD bad
  -- stage 12 (`IDoc`, indented code blocks; `i…` with, `ie…` without the final line feed): Driver.CMFrag.handleI
  | ["icount"] => (CMFrag.handleI ["icount"]).getD bad
  | ["iecount"] => (CMFrag.handleI ["iecount"]).getD bad
  | ["igen", s, z] => (CMFrag.handleI ["igen", s, z]).getD bad
  | ["ienum", i] => (CMFrag.handleI ["ienum", i]).getD bad
  | ["iegen", s, z] => (CMFrag.handleI ["iegen", s, z]).getD bad
  | ["ieenum", i] => (CMFrag.handleI ["ieenum", i]).getD bad
  | ["model", "igen", s, z] => (CMFrag.handleI ["model", "igen", s, z]).getD bad
  | ["model", "ienum", i] => (CMFrag.handleI ["model", "ienum", i]).getD bad
  | ["model", "iegen", s, z] => (CMFrag.handleI ["model", "iegen", s, z]).getD bad
  | ["model", "ieenum", i] => (CMFrag.handleI ["model", "ieenum", i]).getD bad
  | ["spec", "igen", s, z] => (CMFrag.handleI ["spec", "igen", s, z]).getD bad
  | ["spec", "ienum", i] => (CMFrag.handleI ["spec", "ienum", i]).getD bad
  | ["spec", "iegen", s, z] => (CMFrag.handleI ["spec", "iegen", s, z]).getD bad
  | ["spec", "ieenum", i] => (CMFrag.handleI ["spec", "ieenum", i]).getD bad
  | ["emcount"] => toString CMFrag.countEm
  | ["emgen", s, z] => (CMFrag.withEmDoc CMFrag.answerEm ["emgen", s, z]).getD bad
  | ["emenum", i] => (CMFrag.withEmDoc CMFrag.answerEm ["emenum", i]).getD bad
  | ["model", "emgen", s, z] => (CMFrag.withEmDoc CMFrag.modelAnswerEm ["emgen", s, z]).getD bad
  | ["model", "emenum", i] => (CMFrag.withEmDoc CMFrag.modelAnswerEm ["emenum", i]).getD bad
  | ["spec", "emgen", s, z] => (CMFrag.withEmDoc CMFrag.specAnswerEm ["emgen", s, z]).getD bad
  | ["spec", "emenum", i] => (CMFrag.withEmDoc CMFrag.specAnswerEm ["emenum", i]).getD bad
  | ["rcount"] => toString CMFrag.countR
  | ["rgen", s, z] => (CMFrag.withRDoc CMFrag.answerR ["rgen", s, z]).getD bad
  | ["renum", i] => (CMFrag.withRDoc CMFrag.answerR ["renum", i]).getD bad
  | ["model", "rgen", s, z] => (CMFrag.withRDoc CMFrag.modelAnswerR ["rgen", s, z]).getD bad
  | ["model", "renum", i] => (CMFrag.withRDoc CMFrag.modelAnswerR ["renum", i]).getD bad
  | ["spec", "rgen", s, z] => (CMFrag.withRDoc CMFrag.specAnswerR ["rgen", s, z]).getD bad
  | ["spec", "renum", i] => (CMFrag.withRDoc CMFrag.specAnswerR ["renum", i]).getD bad
  | ["bcount"] => toString CMFrag.countB
  | ["bgen", s, z] => (CMFrag.withBDoc CMFrag.answerB ["bgen", s, z]).getD bad
  | ["benum", i] => (CMFrag.withBDoc CMFrag.answerB ["benum", i]).getD bad
  | ["model", "bgen", s, z] => (CMFrag.withBDoc CMFrag.modelAnswerB ["bgen", s, z]).getD bad
  | ["model", "benum", i] => (CMFrag.withBDoc CMFrag.modelAnswerB ["benum", i]).getD bad
  | ["spec", "bgen", s, z] => (CMFrag.withBDoc CMFrag.specAnswerB ["bgen", s, z]).getD bad
  | ["spec", "benum", i] => (CMFrag.withBDoc CMFrag.specAnswerB ["benum", i]).getD bad
  | ["qecount"] => toString CMFrag.countQ
  | ["qegen", s, z] => (CMFrag.withQEDoc CMFrag.answerQE ["qegen", s, z]).getD bad
  | ["qeenum", i] => (CMFrag.withQEDoc CMFrag.answerQE ["qeenum", i]).getD bad
  | ["model", "qegen", s, z] => (CMFrag.withQEDoc CMFrag.modelAnswerQE ["qegen", s, z]).getD bad
  | ["model", "qeenum", i] => (CMFrag.withQEDoc CMFrag.modelAnswerQE ["qeenum", i]).getD bad
  | ["spec", "qegen", s, z] => (CMFrag.withQEDoc CMFrag.specAnswerQE ["qegen", s, z]).getD bad
  | ["spec", "qeenum", i] => (CMFrag.withQEDoc CMFrag.specAnswerQE ["qeenum", i]).getD bad
  | ["qcount"] => toString CMFrag.countQ
  | ["qgen", s, z] => (CMFrag.withQDoc CMFrag.answerQ ["qgen", s, z]).getD bad
  | ["qenum", i] => (CMFrag.withQDoc CMFrag.answerQ ["qenum", i]).getD bad
  | ["model", "qgen", s, z] => (CMFrag.withQDoc CMFrag.modelAnswerQ ["qgen", s, z]).getD bad
  | ["model", "qenum", i] => (CMFrag.withQDoc CMFrag.modelAnswerQ ["qenum", i]).getD bad
  | ["spec", "qgen", s, z] => (CMFrag.withQDoc CMFrag.specAnswerQ ["qgen", s, z]).getD bad
  | ["spec", "qenum", i] => (CMFrag.withQDoc CMFrag.specAnswerQ ["qenum", i]).getD bad
  | ["qspell", "qgen", s, z] => (CMFrag.withQDoc CMFrag.spellAnswerQ ["qgen", s, z]).getD bad
  | ["qspell", "qenum", i] => (CMFrag.withQDoc CMFrag.spellAnswerQ ["qenum", i]).getD bad
  | ["count"] => toString CMFrag.enumCount
  | ["gcount"] => toString CMFrag.countG
  | ["hcount"] => toString CMFrag.countH
  | ["kcount"] => toString CMFrag.countK
  | ["ecount"] => toString CMFrag.countK
  | "model" :: rest => CMFrag.withDoc CMFrag.modelAnswer CMFrag.modelAnswerG CMFrag.modelAnswerH CMFrag.modelAnswerK
      CMFrag.modelAnswerE rest
  | "spec" :: rest => CMFrag.withDoc CMFrag.specAnswer CMFrag.specAnswerG CMFrag.specAnswerH CMFrag.specAnswerK CMFrag.specAnswerE rest
  | rest => CMFrag.withDoc CMFrag.answer CMFrag.answerG CMFrag.answerH CMFrag.answerK CMFrag.answerE rest

end Driver
