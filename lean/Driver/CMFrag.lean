/-
  Driver.CMFrag — line protocol for the FRAGMENT of CommonMark documents of GM.Spec.CMFrag (the documents for which
  conformance of the goldmark model is proved): a pseudo-random generator and an exhaustive small scope of fragment
  documents, served to the harness component `cmfrag`, which converts their source with the real goldmark and compares
  with `expectedF`; plus two self checks evaluated in Lean (the goldmark model on the same document, and the fragment
  against the spec-side model GM.Spec.CommonMark through `embed`). Core Lean only; imports no proof module.

  Adding a block kind to the fragment: one alternative in `genBlock`, one or two `Family` entries in `families`.
  Stage 4 (`GDoc`: paragraphs, ATX headings, thematic breaks): `genGDoc`, `gfamilies`, ops `ggen` / `genum` / `gcount`.
  Stage 5 (`HDoc`: the same plus fenced code blocks): `genHDoc`, `hfamilies`, ops `hgen` / `henum` / `hcount`.
  Stage 6 (`KDoc`: the same blocks without a blank line in between where allowed): `genKDoc`, `kfamilies`, ops `kgen` /
  `kenum` / `kcount`.
-/
import Driver.Common
import GM.Spec.CMFrag
import GM.Spec.CMGen
import GM.Spec.CommonMark
import GM.Model.Convert
namespace Driver
namespace CMFrag
open GM GM.Spec.CM GM.Spec.CMFrag

/-! ## random fragment documents (SplitMix generator monad `G` of GM.Spec.CMGen) -/

def lit (c : UInt8) : TChar := ⟨c, .lit⟩

def lits (s : String) : FLine := (strBytes s).map lit

def punct : List UInt8 := printableAll.filter isAsciiPunct

def alnums : List UInt8 := letters ++ strBytes "0123456789"

/-- every spelling: literal, backslash, decimal (0..6 zeros; `spellChar` caps the total at 7 digits), hexadecimal
    (0..5 zeros, either `x`, either digit case), named -/
def genSpelling : G Esc := do
  let r ← below 100
  if r < 28 then return .lit
  else if r < 46 then return .bs
  else if r < 62 then return .dec (← below 7)
  else if r < 82 then return .hex (← below 6) (← chance 50) (← chance 50)
  else return .named

/-- a literal `!` is the one spelling outside the fragment (`charOK`): write it with a backslash -/
def inFrag (t : TChar) : TChar := if charOK t then t else ⟨t.c, .bs⟩

/-- one step of the interior of a line: usually one character, sometimes a run of spaces -/
def genPiece : G (List TChar) := do
  let r ← below 100
  if r < 32 then return [lit (← pickL letters)]
  else if r < 42 then return [lit (UInt8.ofNat (48 + (← below 10)))]
  else if r < 56 then return List.replicate (1 + (← below 3)) (lit 32)
  else if r < 60 then return [⟨32, ← genSpelling⟩]
  else if r < 66 then return [⟨← pickL alnums, ← genSpelling⟩]
  else return [inFrag ⟨← pickL punct, ← genSpelling⟩]

def genPieces : Nat → G (List TChar)
  | 0 => return []
  | n + 1 => do
    let p ← genPiece
    let rest ← genPieces n
    return p ++ rest

/-- 1..12 characters: a literal letter, anything `charOK`, a literal letter or digit -/
def genLine : G FLine := do
  let more ← below 12
  let a := lit (← pickL letters)
  if more == 0 then return [a]
  let mid := (← genPieces (more - 1)).take (more - 1)
  let z := lit (← pickL alnums)
  return [a] ++ mid ++ [z]

def genLines : Nat → G (List FLine)
  | 0 => return []
  | n + 1 => do
    let l ← genLine
    let rest ← genLines n
    return l :: rest

def genPara : G FBlock := do return .para (← genLines (1 + (← below 4)))

/-- the block kinds of the fragment (one line per kind) -/
def genBlock : G FBlock := do
  let kinds : List (G FBlock) := [genPara]
  let k ← below kinds.length
  kinds.getD k genPara

def genItems : Nat → G (List FItem)
  | 0 => return []
  | n + 1 => do
    let gap ← below 4
    let b ← genBlock
    let rest ← genItems n
    return { gap := gap, block := b } :: rest

def genDocM (size : Nat) : G FDoc := do
  let n ← below (max size 1)
  let items ← genItems (n + 1)
  let trail ← below 4
  return { items := items, trail := trail }

def genFrag (seed size : Nat) : FDoc :=
  (genDocM size |>.run { s := UInt64.ofNat (seed * 2654435761 + size) }).1

/-! ## the exhaustive small scope: a list of finite families, indexed one after the other -/

structure Family where
  count : Nat
  doc : Nat → FDoc

def oneLine (l : FLine) : FDoc := { items := [{ block := .para [l] }] }

/-- (a) `a` X `z` for each of the 95 printable characters × 8 spellings (the last: literal behind a space);
    the two literal spellings of `!` are outside the fragment and answered `skip` -/
def famChars : Family where
  count := 95 * 8
  doc i :=
    let c := UInt8.ofNat (32 + i / 8)
    let mid : List TChar := match i % 8 with
      | 0 => [⟨c, .lit⟩]
      | 1 => [⟨c, .bs⟩]
      | 2 => [⟨c, .dec 0⟩]
      | 3 => [⟨c, .dec 3⟩]
      | 4 => [⟨c, .hex 0 false false⟩]
      | 5 => [⟨c, .hex 2 true true⟩]
      | 6 => [⟨c, .named⟩]
      | _ => [lit 32, ⟨c, .lit⟩]
    oneLine ([lit 97] ++ mid ++ [lit 122])

/-- (a') the longest numeric references: `a` X `z` with 7 decimal digits, 6 hexadecimal digits (both cases), and one
    zero less (`spellChar` caps the padding) -/
def famPads : Family where
  count := 95 * 4
  doc i :=
    let c := UInt8.ofNat (32 + i / 4)
    let e : Esc := match i % 4 with
      | 0 => .dec 7
      | 1 => .hex 6 false true
      | 2 => .hex 6 true false
      | _ => .dec (6 - (decDigits c.toNat).length)
    oneLine [lit 97, ⟨c, e⟩, lit 122]

def linePool : List FLine := [lits "ab", lits "c d", [lit 101, ⟨38, .named⟩, lit 102], lits "g"]

def poolLine (k : Nat) : FLine := linePool.getD (k % linePool.length) (lits "q")

/-- paragraphs from base-9 digits: digit % 3 + 1 lines, digit / 3 extra blank lines in front -/
def shapeItems (off : Nat) : Nat → Nat → Nat → List FItem
  | 0, _, _ => []
  | n + 1, p, code =>
    let d := code % 9
    let lines := (List.range (d % 3 + 1)).map fun j => poolLine (off + 3 * p + j)
    { gap := d / 3, block := .para lines } :: shapeItems off n (p + 1) (code / 9)

/-- (b) all shapes of `n` paragraphs: 1..3 lines each × gap 0..2 each × trail 0..2 × 3 rotations of the line pool -/
def famShapes (n : Nat) : Family where
  count := 9 ^ n * 9
  doc i := { items := shapeItems (i / 3 % 3) n 0 (i / 9), trail := i % 3 }

/-- (c) one-character lines -/
def famOne : Family where
  count := letters.length
  doc i := oneLine [lit (letters.getD i 97)]

/-- (c) two-character lines -/
def famTwo : Family where
  count := letters.length * alnums.length
  doc i := oneLine [lit (letters.getD (i / alnums.length) 97), lit (alnums.getD (i % alnums.length) 97)]

/-- characters that open, close or belong to some construct of the specification, in a spelling that keeps them text -/
def notable : List TChar :=
  (strBytes " \\&*_`[]<>()\"#-=:/.;'~|+1x@{!").map (fun c => inFrag (lit c)) ++
    [⟨38, .named⟩, ⟨38, .dec 0⟩, ⟨33, .named⟩, ⟨32, .dec 0⟩, ⟨92, .hex 0 false false⟩, ⟨59, .bs⟩]

/-- (d) `a` X Y `z` for all pairs of notable characters -/
def famPairs : Family where
  count := notable.length * notable.length
  doc i :=
    oneLine [lit 97, notable.getD (i / notable.length) (lit 120), notable.getD (i % notable.length) (lit 120), lit 122]

/-- (e) two lines / two paragraphs whose first ends and whose second begins with each letter class -/
def famJoin : Family where
  count := 4 * 9
  doc i :=
    let l1 := poolLine (i % 4)
    let l2 := poolLine (i / 4 % 3 + 1)
    if i / 12 == 0 then { items := [{ block := .para [l1, l2] }] }
    else if i / 12 == 1 then { items := [{ block := .para [l1] }, { block := .para [l2] }] }
    else { items := [{ gap := 1, block := .para [l1] }, { gap := 2, block := .para [l2, l1] }], trail := 1 }

def families : List Family :=
  [famChars, famPads, famShapes 1, famShapes 2, famShapes 3, famOne, famTwo, famPairs, famJoin]

def enumCount : Nat := families.foldl (fun acc f => acc + f.count) 0

def enumIn : List Family → Nat → Option FDoc
  | [], _ => none
  | f :: rest, i => if i < f.count then some (f.doc i) else enumIn rest (i - f.count)

def enumDoc (i : Nat) : Option FDoc := enumIn families i

/-! ## answers -/

/-- the renderer options of the proved statement: `html.WithUnsafe(), html.WithXHTML()` -/
def ropts : GM.Convert.ROpts := { unsafe_ := true, xhtml := true, hardWraps := false }

def answer (d : FDoc) : String :=
  if fragB d then s!"{hexOfBytes (spellF d)} {hexOfBytes (expectedF d)}" else "skip"

/-- the goldmark model on the document's source against the prescribed HTML -/
def modelAnswer (d : FDoc) : String :=
  if !fragB d then "skip" else
  match GM.Convert.convertCore [] ropts (spellF d) with
  | .ok h => if h == expectedF d then "ok" else s!"fail:model-differs {hexOfBytes h}"
  | .error e => s!"fail:model-differs {e.str}"

/-- the fragment against the spec-side model: same HTML; same source when there are no extra blank lines; the embedded
    document satisfies the spec model's side condition -/
def specAnswer (d : FDoc) : String :=
  if !fragB d then "skip" else
  let e := embed d
  if expectedF d != expected e then s!"fail:spec-expected {hexOfBytes (expected e)}"
  else if noExtraBlanks d && spellF d != spell e then s!"fail:spec-spell {hexOfBytes (spell e)}"
  else if !wellFormed e then "fail:spec-wellformed"
  else "ok"

/-! ## stage 4: paragraphs, ATX headings and thematic breaks (`GDoc`) -/

/-- paragraph 50 %, heading 30 % (level 1..6, text = a fragment line), thematic break 20 % (3 characters, 3..7 long) -/
def genGBlock : G GBlock := do
  let r ← below 100
  if r < 50 then return .para (← genLines (1 + (← below 4)))
  else if r < 80 then
    let level ← below 6
    return .heading (level + 1) (← genLine)
  else
    let c ← below 3
    return .thematic c (← below 5)

def genGItems : Nat → G (List GItem)
  | 0 => return []
  | n + 1 => do
    let gap ← below 4
    let b ← genGBlock
    let rest ← genGItems n
    return { gap := gap, block := b } :: rest

def genGDocM (size : Nat) : G GDoc := do
  let n ← below (max size 1)
  let items ← genGItems (n + 1)
  let trail ← below 4
  return { items := items, trail := trail }

def genGDoc (seed size : Nat) : GDoc :=
  (genGDocM size |>.run { s := UInt64.ofNat (seed * 2654435761 + size + 77) }).1

structure GFamily where
  count : Nat
  doc : Nat → GDoc

/-- heading texts: one letter, plain, interior spaces, `#` in its three escaped spellings (alone, between spaces, as a
    would-be closing sequence in front of a final digit), a final digit, other escaped punctuation -/
def headingPool : List FLine :=
  [ lits "a", lits "ab", lits "c d e", lits "f  g", lits "h1",
    [lit 97, ⟨35, .bs⟩, lit 98],
    [lit 97, ⟨35, .named⟩, lit 98],
    [lit 97, ⟨35, .dec 0⟩, lit 98],
    [lit 97, ⟨35, .hex 0 false false⟩, lit 98],
    [lit 97, lit 32, ⟨35, .bs⟩, lit 32, lit 98],
    [lit 97, lit 32, ⟨35, .bs⟩, ⟨35, .bs⟩, lit 32, lit 49],
    [lit 97, lit 32, ⟨35, .dec 0⟩, ⟨35, .named⟩, lit 32, lit 122],
    [lit 101, ⟨38, .named⟩, lit 102],
    [lit 120, lit 32, ⟨42, .bs⟩, lit 32, lit 121, ⟨95, .bs⟩, lit 122],
    [lit 97, lit 32, ⟨60, .named⟩, lit 32, ⟨45, .lit⟩, ⟨45, .lit⟩, ⟨45, .lit⟩, lit 32, lit 98] ]

def poolHeading (k : Nat) : FLine := headingPool.getD (k % headingPool.length) (lits "q")

/-- (g-a) one heading: 6 levels × the text pool × trail 0..1 × gap 0..1 -/
def gfamHeadings : GFamily where
  count := 6 * headingPool.length * 4
  doc i :=
    let j := i / 4
    { items := [{ gap := i / 2 % 2, block := .heading (j % 6 + 1) (poolHeading (j / 6)) }], trail := i % 2 }

def thematicLens : List Nat := [0, 1, 2, 5]

/-- (g-b) one thematic break: 3 characters × 4 lengths × trail 0..1 × gap 0..1 -/
def gfamThematic : GFamily where
  count := 3 * thematicLens.length * 4
  doc i :=
    let j := i / 4
    { items := [{ gap := i / 2 % 2, block := .thematic (j % 3) (thematicLens.getD (j / 3) 0) }], trail := i % 2 }

/-- the six block kinds of the sequences: paragraph of 1 line, of 2 lines, heading (level = position + 1), `---`,
    `***`, `___` -/
def kindBlock (pos kind : Nat) : GBlock :=
  match kind with
  | 0 => .para [poolLine pos]
  | 1 => .para [poolLine pos, poolLine (pos + 1)]
  | 2 => .heading (pos % 6 + 1) (poolHeading (pos + 2))
  | 3 => .thematic 1 0
  | 4 => .thematic 0 0
  | _ => .thematic 2 0

/-- base-12 digits: kind = digit % 6, gap = digit / 6 -/
def seqItems : Nat → Nat → Nat → List GItem
  | 0, _, _ => []
  | n + 1, pos, code =>
    { gap := code % 12 / 6, block := kindBlock pos (code % 12 % 6) } :: seqItems n (pos + 1) (code / 12)

/-- (g-c) every sequence of `n` block kinds × gap 0..1 each × trail 0..1 -/
def gfamSeq (n : Nat) : GFamily where
  count := 12 ^ n * 2
  doc i := { items := seqItems n 0 (i / 2), trail := i % 2 }

/-- (g-d) the empty document and blank lines only -/
def gfamEmpty : GFamily where
  count := 3
  doc i := { items := [], trail := i }

def gfamilies : List GFamily := [gfamHeadings, gfamThematic, gfamSeq 1, gfamSeq 2, gfamSeq 3, gfamEmpty]

def countG : Nat := gfamilies.foldl (fun acc f => acc + f.count) 0

def enumGIn : List GFamily → Nat → Option GDoc
  | [], _ => none
  | f :: rest, i => if i < f.count then some (f.doc i) else enumGIn rest (i - f.count)

def enumG (i : Nat) : Option GDoc := enumGIn gfamilies i

def answerG (d : GDoc) : String :=
  if gfragB d then s!"{hexOfBytes (spellG d)} {hexOfBytes (expectedG d)}" else "skip"

def modelAnswerG (d : GDoc) : String :=
  if !gfragB d then "skip" else
  match GM.Convert.convertCore [] ropts (spellG d) with
  | .ok h => if h == expectedG d then "ok" else s!"fail:model-differs {hexOfBytes h}"
  | .error e => s!"fail:model-differs {e.str}"

def specAnswerG (d : GDoc) : String :=
  if !gfragB d then "skip" else
  let e := gembed d
  if expectedG d != expected e then s!"fail:spec-expected {hexOfBytes (expected e)}"
  else if gnoExtraBlanks d && !d.items.isEmpty && spellG d != spell e then s!"fail:spec-spell {hexOfBytes (spell e)}"
  else if !wellFormed e then "fail:spec-wellformed"
  else "ok"

/-! ## stage 5: fenced code blocks (`HDoc`) -/

/-- characters with a meaning somewhere in Markdown or HTML: they are plain content inside a fence -/
def codeSpecial : List UInt8 := strBytes "<&>\"`~ #-*\\_[]!"

def genCodeChars : Nat → G Bytes
  | 0 => return []
  | n + 1 => do
    let c ← if (← chance 40) then pickL codeSpecial else pickL printableAll
    let rest ← genCodeChars n
    return c :: rest

/-- lines that would open a block outside a fence -/
def codeFixed : List Bytes :=
  [strBytes "# x", strBytes "- y", strBytes "> z", strBytes "***", strBytes "---", strBytes "1. a", strBytes "<div>",
   strBytes "&amp;", strBytes "[a]: /u", strBytes "x  ", strBytes "\\", strBytes "a\\"]

/-- a content line: empty 20 %, a run of the OTHER fence character 8 %, a would-be block opener 12 %, else 1..12
    printable characters whose first is neither a space nor the fence character (15 % of them end with spaces) -/
def genCodeLine (tilde : Bool) : G Bytes := do
  let fc := fenceChar tilde
  let r ← below 100
  if r < 20 then return []
  else if r < 28 then return List.replicate (3 + (← below 3)) (fenceChar (!tilde))
  else if r < 40 then pickL codeFixed
  else
    let first ← pickL (printableAll.filter fun c => c != 32 && c != fc)
    let more ← below 12
    let rest ← genCodeChars more
    let sp ← if (← chance 15) then below 3 else pure 0
    return (first :: rest ++ List.replicate sp 32).take 12

def genCodeLines (tilde : Bool) : Nat → G (List Bytes)
  | 0 => return []
  | n + 1 => do
    let l ← genCodeLine tilde
    let rest ← genCodeLines tilde n
    return l :: rest

def genInfo : Nat → G Bytes
  | 0 => return []
  | n + 1 => do
    let c ← pickL alnums
    let rest ← genInfo n
    return c :: rest

/-- base block 65 %, fenced code 35 % (either fence character, 3..6 long, info empty 40 % or 1..6 letters/digits,
    0..5 content lines) -/
def genHBlock : G HBlock := do
  if (← chance 65) then return .base (← genGBlock)
  let tilde ← chance 50
  let n ← below 4
  let info ← if (← chance 40) then pure [] else genInfo (1 + (← below 6))
  let lines ← genCodeLines tilde (← below 6)
  return .fcode tilde n info lines

def genHItems : Nat → G (List HItem)
  | 0 => return []
  | n + 1 => do
    let gap ← below 4
    let b ← genHBlock
    let rest ← genHItems n
    return { gap := gap, block := b } :: rest

def genHDocM (size : Nat) : G HDoc := do
  let n ← below (max size 1)
  let items ← genHItems (n + 1)
  let trail ← below 4
  return { items := items, trail := trail }

def genHDoc (seed size : Nat) : HDoc :=
  (genHDocM size |>.run { s := UInt64.ofNat (seed * 2654435761 + size + 555) }).1

structure HFamily where
  count : Nat
  doc : Nat → HDoc

/-- content of the single fences: zero lines, one empty line, plain, escaped output, trailing space, would-be heading /
    list item / quote, a run of the other fence character, two lines, line + empty + line, two empty lines -/
def codePool (tilde : Bool) : List (List Bytes) :=
  [ [], [[]], [strBytes "x"], [strBytes "<a&b>"], [strBytes "t \"q\" "], [strBytes "# h"], [strBytes "- i"],
    [strBytes "> q"], [List.replicate 3 (fenceChar (!tilde))], [strBytes "x", strBytes "y z"],
    [strBytes "x", [], strBytes "y"], [[], []] ]

def infoPool : List Bytes := [[], strBytes "go", strBytes "x1"]

/-- (h-a) one fence: 2 fence characters × 3 lengths × 3 infos × 12 contents × trail 0..1 -/
def hfamFence : HFamily where
  count := 2 * 3 * 3 * 12 * 2
  doc i :=
    let tilde := i / 2 % 2 == 1
    let n := i / 4 % 3
    let info := infoPool.getD (i / 12 % 3) []
    let lines := (codePool tilde).getD (i / 36 % 12) []
    { items := [{ block := .fcode tilde n info lines }], trail := i % 2 }

/-- the five block kinds of the pairs: paragraph, heading, `---`, backtick fence with info and one line, tilde fence
    without lines -/
def hkindBlock (pos kind : Nat) : HBlock :=
  match kind with
  | 0 => .base (.para [poolLine pos])
  | 1 => .base (.heading (pos + 2) (poolHeading (pos + 2)))
  | 2 => .base (.thematic 1 0)
  | 3 => .fcode false 0 (strBytes "go") [strBytes "x"]
  | _ => .fcode true 0 [] []

/-- (h-b) every ordered pair of kinds × gap 0..1 each × trail 0..1 -/
def hfamPairs : HFamily where
  count := 25 * 4 * 2
  doc i :=
    let j := i / 8
    { items := [{ gap := i / 2 % 2, block := hkindBlock 0 (j / 5) }, { gap := i / 4 % 2, block := hkindBlock 1 (j % 5) }],
      trail := i % 2 }

/-- (h-c) fence of length 4, one blank line, fence of the same / the other character of length 3..5 whose content
    starts with an empty line -/
def hfamTwoFences : HFamily where
  count := 2 * 2 * 3 * 2
  doc i :=
    let t1 := i / 2 % 2 == 1
    let t2 := i / 4 % 2 == 1
    let n2 := i / 8 % 3
    { items := [{ block := .fcode t1 1 [] [strBytes "a"] }, { block := .fcode t2 n2 (strBytes "x1") [[], strBytes "b"] }],
      trail := i % 2 }

def hfamilies : List HFamily := [hfamFence, hfamPairs, hfamTwoFences]

def countH : Nat := hfamilies.foldl (fun acc f => acc + f.count) 0

def enumHIn : List HFamily → Nat → Option HDoc
  | [], _ => none
  | f :: rest, i => if i < f.count then some (f.doc i) else enumHIn rest (i - f.count)

def enumH (i : Nat) : Option HDoc := enumHIn hfamilies i

def answerH (d : HDoc) : String :=
  if hfragB d then s!"{hexOfBytes (spellH d)} {hexOfBytes (expectedH d)}" else "skip"

def modelAnswerH (d : HDoc) : String :=
  if !hfragB d then "skip" else
  match GM.Convert.convertCore [] ropts (spellH d) with
  | .ok h => if h == expectedH d then "ok" else s!"fail:model-differs {hexOfBytes h}"
  | .error e => s!"fail:model-differs {e.str}"

def specAnswerH (d : HDoc) : String :=
  if !hfragB d then "skip" else
  let e := hembed d
  if expectedH d != expected e then s!"fail:spec-expected {hexOfBytes (expected e)}"
  else if hnoExtraBlanks d && !d.items.isEmpty && spellH d != spell e then s!"fail:spec-spell {hexOfBytes (spell e)}"
  else if !wellFormed e then "fail:spec-wellformed"
  else "ok"

/-! ## stage 6: blocks directly behind each other (`KDoc`) -/

/-- blocks as in `genHDoc`; a later block follows without a blank line with probability 50 % where `kabutOK` allows
    it, else behind 1..3 blank lines; 0..2 blank lines in front of the first block -/
def genKItems : Option HBlock → Nat → G (List KItem)
  | _, 0 => return []
  | prev, n + 1 => do
    let b ← genHBlock
    let sep ← match prev with
      | none => below 3
      | some a => do
        let abut ← chance 50
        let k ← below 3
        pure (if abut && kabutOK a b then 0 else 1 + k)
    let rest ← genKItems (some b) n
    return { sep := sep, block := b } :: rest

def genKDocM (size : Nat) : G KDoc := do
  let n ← below (max size 1)
  let items ← genKItems none (n + 1)
  let trail ← below 3
  return { items := items, trail := trail }

def genKDoc (seed size : Nat) : KDoc :=
  (genKDocM size |>.run { s := UInt64.ofNat (seed * 2654435761 + size + 6006) }).1

structure KFamily where
  count : Nat
  doc : Nat → KDoc

/-- the nine block kinds of the stage-6 scope: paragraph of 1 line, of 2 lines, heading (level = position + 1), `---`,
    `***`, `___`, backtick fence with one line, tilde fence without lines, backtick fence with info -/
def kkindBlock (pos kind : Nat) : HBlock :=
  match kind with
  | 0 => .base (.para [poolLine pos])
  | 1 => .base (.para [poolLine pos, poolLine (pos + 1)])
  | 2 => .base (.heading (pos % 6 + 1) (poolHeading (pos + 2)))
  | 3 => .base (.thematic 1 0)
  | 4 => .base (.thematic 0 0)
  | 5 => .base (.thematic 2 0)
  | 6 => .fcode false 0 [] [strBytes "x"]
  | 7 => .fcode true 0 [] []
  | _ => .fcode false 1 (strBytes "go") [strBytes "# h", []]

/-- base-18 digits: kind = digit % 9, sep = digit / 9 (the first block: sep 0) -/
def kseqItems : Nat → Nat → Nat → List KItem
  | 0, _, _ => []
  | n + 1, pos, code =>
    { sep := if pos == 0 then 0 else code % 18 / 9, block := kkindBlock pos (code % 18 % 9) } ::
      kseqItems n (pos + 1) (code / 18)

/-- (k-a) every sequence of `n` block kinds × sep 0..1 for each later block × trail 0..1; the combinations outside the
    fragment (text line or `---` directly behind a paragraph) are answered `skip` -/
def kfamSeq (n : Nat) : KFamily where
  count := 9 * 18 ^ (n - 1) * 2
  doc i := { items := kseqItems n 0 ((i / 2) % 9 + (i / 2) / 9 * 18), trail := i % 2 }

/-- four blocks without any blank line -/
def kchains : List (List Nat) :=
  [ [2, 0, 6, 2], [0, 6, 0, 7], [3, 0, 4, 0], [0, 2, 3, 0], [6, 7, 8, 6], [2, 2, 2, 2], [0, 5, 1, 4], [4, 5, 3, 3],
    [1, 8, 1, 2], [7, 0, 2, 6], [2, 3, 2, 0], [0, 4, 5, 1] ]

def kchainItems : Nat → List Nat → List KItem
  | _, [] => []
  | pos, k :: rest => { sep := 0, block := kkindBlock pos k } :: kchainItems (pos + 1) rest

/-- (k-b) the chains × trail 0..1 -/
def kfamChains : KFamily where
  count := kchains.length * 2
  doc i := { items := kchainItems 0 (kchains.getD (i / 2) []), trail := i % 2 }

def kfamilies : List KFamily := [kfamSeq 2, kfamSeq 3, kfamChains]

def countK : Nat := kfamilies.foldl (fun acc f => acc + f.count) 0

def enumKIn : List KFamily → Nat → Option KDoc
  | [], _ => none
  | f :: rest, i => if i < f.count then some (f.doc i) else enumKIn rest (i - f.count)

def enumK (i : Nat) : Option KDoc := enumKIn kfamilies i

def answerK (d : KDoc) : String :=
  if kfragB d then s!"{hexOfBytes (spellK d)} {hexOfBytes (expectedK d)}" else "skip"

def modelAnswerK (d : KDoc) : String :=
  if !kfragB d then "skip" else
  match GM.Convert.convertCore [] ropts (spellK d) with
  | .ok h => if h == expectedK d then "ok" else s!"fail:model-differs {hexOfBytes h}"
  | .error e => s!"fail:model-differs {e.str}"

def specAnswerK (d : KDoc) : String :=
  if !kfragB d then "skip" else
  let e := kembed d
  if expectedK d != expected e then s!"fail:spec-expected {hexOfBytes (expected e)}"
  else if knoExtraBlanks d && !d.items.isEmpty && spellK d != spell e then s!"fail:spec-spell {hexOfBytes (spell e)}"
  else if !wellFormed e then "fail:spec-wellformed"
  else "ok"

def withDoc (k : FDoc → String) (kg : GDoc → String) (kh : HDoc → String) (kk : KDoc → String) : List String → String
  | ["gen", s, z] => nat s fun seed => nat z fun size => k (genFrag seed size)
  | ["enum", i] => nat i fun i =>
      match enumDoc i with
      | none => "end"
      | some d => k d
  | ["ggen", s, z] => nat s fun seed => nat z fun size => kg (genGDoc seed size)
  | ["genum", i] => nat i fun i =>
      match enumG i with
      | none => "end"
      | some d => kg d
  | ["hgen", s, z] => nat s fun seed => nat z fun size => kh (genHDoc seed size)
  | ["henum", i] => nat i fun i =>
      match enumH i with
      | none => "end"
      | some d => kh d
  | ["kgen", s, z] => nat s fun seed => nat z fun size => kk (genKDoc seed size)
  | ["kenum", i] => nat i fun i =>
      match enumK i with
      | none => "end"
      | some d => kk d
  | _ => bad

end CMFrag

/-- `cmfrag gen <seed> <size>` / `cmfrag enum <i>` → `<hex spellF d> <hex expectedF d>` (`skip` outside the fragment,
    `end` past the last index); `cmfrag count` → size of the enumerated index space; `cmfrag model gen|enum …` → `ok`
    when the goldmark model `convertCore` yields `expectedF d` on `spellF d`; `cmfrag spec gen|enum …` → `ok` when the
    fragment agrees with the spec-side model on `embed d`. Stage 4 (`GDoc`: paragraphs, ATX headings, thematic breaks):
    `cmfrag ggen <seed> <size>` / `cmfrag genum <i>` / `cmfrag gcount`, `cmfrag model ggen|genum …`,
    `cmfrag spec ggen|genum …`, the same with `spellG`, `expectedG`, `gembed`. Stage 5 (`HDoc`: the same plus fenced code
    blocks): `cmfrag hgen <seed> <size>` / `cmfrag henum <i>` / `cmfrag hcount`, `cmfrag model hgen|henum …`,
    `cmfrag spec hgen|henum …` with `spellH`, `expectedH`, `hembed`. Stage 6 (`KDoc`: the same blocks, directly behind
    each other where the specification allows it): `cmfrag kgen <seed> <size>` / `cmfrag kenum <i>` / `cmfrag kcount`,
    `cmfrag model kgen|kenum …`, `cmfrag spec kgen|kenum …` with `spellK`, `expectedK`, `kembed` -/
def handleCMFrag : List String → String
  | ["count"] => toString CMFrag.enumCount
  | ["gcount"] => toString CMFrag.countG
  | ["hcount"] => toString CMFrag.countH
  | ["kcount"] => toString CMFrag.countK
  | "model" :: rest => CMFrag.withDoc CMFrag.modelAnswer CMFrag.modelAnswerG CMFrag.modelAnswerH CMFrag.modelAnswerK rest
  | "spec" :: rest => CMFrag.withDoc CMFrag.specAnswer CMFrag.specAnswerG CMFrag.specAnswerH CMFrag.specAnswerK rest
  | rest => CMFrag.withDoc CMFrag.answer CMFrag.answerG CMFrag.answerH CMFrag.answerK rest

end Driver
