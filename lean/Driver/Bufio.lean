import Driver.Common
import GM.Model.Bufio
namespace Driver
open GM GM.Bufio

/-- `w:<hex>` Write, `s:<hex>` WriteString, `b:<hex of one byte>` WriteByte, `r:<int>` WriteRune -/
def bufioParseCall (s : String) : Option Call :=
  match s.splitOn ":" with
  | ["w", v] => (bytesOfHex v).map Call.write
  | ["s", v] => (bytesOfHex v).map Call.writeString
  | ["b", v] => match bytesOfHex v with
    | some [c] => some (Call.writeByte c)
    | _ => none
  | ["r", v] => v.toInt?.map Call.writeRune
  | _ => none

def bufioParseCalls (s : String) : Option (List Call) :=
  if s == "_" then some [] else (s.splitOn ",").mapM bufioParseCall

def bufioFnv32 (b : Bytes) : UInt32 := b.foldl (fun h c => (h ^^^ c.toUInt32) * 16777619) 2166136261

def bufioErrCode : Option Err → String
  | none => "0" | some .injected => "1" | some .shortWrite => "2" | some .node => "3"

def bufioParseMode : String → Option Mode
  | "ok" => some .ok | "short" => some .short | "always" => some .always | _ => none

def bufioOut (showBuffered : Bool) (r : W × Option Err) : String :=
  if r.1.panicked then "panic:index" else if r.1.starved then "starved" else
  let b := if showBuffered then toString r.1.buffered else "x"
  s!"{r.1.u.acc.length}:{(bufioFnv32 r.1.u.acc).toNat}:{bufioErrCode r.2}:{r.1.u.calls}:{b}"

/-- `bufio replay <dest> <sw> <mode> <k,k,…> <nodeErr> <calls> [<src>]`
    dest = `wrap` (plain io.Writer, wrapped by Render) or a buffer size (caller-supplied bufio.NewWriterSize);
    nodeErr = `-` or the number of calls after which a node renderer fails. One result per k. -/
def handleBufio : List String → String
  | "replay" :: dest :: sw :: mode :: ks :: nodeErr :: calls :: _ =>
    match bufioParseMode mode, bufioParseCalls calls, (ks.splitOn ",").mapM String.toNat? with
    | some m, some cs, some ks =>
      let ne : Option (Option Nat) := if nodeErr == "-" then some none else nodeErr.toNat?.map some
      match ne with
      | none => bad
      | some ne =>
        let mk (k : Nat) : Under := Under.new m k (sw == "1")
        let outs := ks.map fun k =>
          if dest == "wrap" then some (bufioOut false (render (.plain (mk k)) cs ne))
          else dest.toNat?.map fun n =>
            -- bufio.NewWriterSize: size <= 0 means the default size
            bufioOut true (render (.buf (fresh (if n == 0 then 4096 else n) (mk k))) cs ne)
        match outs.mapM id with
        | some os => String.intercalate "," os
        | none => bad
    | _, _, _ => bad
  | _ => bad

end Driver
