/-
  Property C17 — every rendered table is rectangular.
  Model: GM.Model.Table (extension/table.go Transform, parseRow, parseDelimiter, render funcs).
  Spec of "rectangular skeleton": GM.Spec.Table.  Helper lemmas: GM.Proof.Table.
  Only property theorems and their non-vacuity examples live here.
-/
import GM.Model.Table
import GM.Spec.Table
import GM.Proof.Table
import GM.Props.Consts.Table
import GM.Props.ConvertX

namespace GM.Props.C17
open GM GM.Table

/-- Body rows: for every source, every line segment and every alignment list, parseRow returns exactly as many
    cells as there are columns (short rows padded, excess cells dropped). -/
theorem parseRow_len (src : Bytes) (line : Seg) (aligns : List Align) :
    (parseRow src line aligns false).length = aligns.length := Proof.Table.parseRow_len src line aligns

/-- Cell `k` of a row (header or body), when it is written in the source, carries the alignment of column `k`. -/
theorem parseRow_align (src : Bytes) (line : Seg) (aligns : List Align) (isHeader : Bool) (k : Nat) (c : Cell)
    (h : (parseRow src line aligns isHeader)[k]? = some c) (hw : c.seg.isSome = true) :
    c.align = aligns.getD k Align.none := Proof.Table.parseRow_align src line aligns isHeader k c h hw

/-- A cell that is not written in the source is the empty padding cell (no line, no alignment), occurs only in
    body rows, and only after all written cells. -/
theorem parseRow_padding (src : Bytes) (line : Seg) (aligns : List Align) (isHeader : Bool) :
    (∀ (k : Nat) (c : Cell), (parseRow src line aligns isHeader)[k]? = some c → c.seg.isSome = false → c = padCell ∧ isHeader = false) ∧
    (∃ n : Nat, ∀ (k : Nat) (c : Cell), (parseRow src line aligns isHeader)[k]? = some c → (c.seg.isSome = true ↔ k < n)) := by
  refine ⟨?_, Proof.Table.parseRow_written_prefix src line aligns isHeader⟩
  intro k c h hn
  rcases Proof.Table.parseRow_cell src line aligns isHeader k c h with h | h
  · simp [h.1] at hn
  · exact h

/-- A delimiter row has at least one column and contains a `-` (and consists of delimiter characters only). -/
theorem parseDelimiter_needs_dash (line : Bytes) (al : List Align) (h : parseDelimiter line = some al) :
    al ≠ [] ∧ (45 : UInt8) ∈ line ∧ isTableDelim line = true := Proof.Table.parseDelimiter_some h

/-- Transform, completely, for every paragraph `pre ++ [hdr, dl] ++ rest` whose first delimiter row (lines 1,2,…)
    is `dl`: if the header's cell count differs from the delimiter row's there is no table and the paragraph is
    untouched; otherwise the table has that header, one body row per remaining line, and the text before the
    header stays a paragraph (its last newline trimmed). -/
theorem transform_first_delim (src : Bytes) (pre : List Seg) (hdr dl : Seg) (rest : List Seg) (al : List Align)
    (hpre : ∀ l ∈ (pre ++ [hdr]).tail, parseDelimiter (l.value src) = Option.none)
    (hdl : parseDelimiter (dl.value src) = some al) :
    transform src (pre ++ hdr :: dl :: rest) =
      if al.length != (parseRow src hdr al true).length then
        { para := pre ++ hdr :: dl :: rest, table := Option.none }
      else
        { para := trimLastNewline pre,
          table := some { aligns := al, header := parseRow src hdr al true,
                          rows := rest.map fun l => parseRow src l al false } } :=
  Proof.Table.transform_first_delim src pre hdr dl rest al hpre hdl

/-- Header guard: a candidate header whose cell count differs from the delimiter row does not become a table. -/
theorem header_guard (src : Bytes) (pre : List Seg) (hdr dl : Seg) (rest : List Seg) (al : List Align)
    (hpre : ∀ l ∈ (pre ++ [hdr]).tail, parseDelimiter (l.value src) = Option.none)
    (hdl : parseDelimiter (dl.value src) = some al)
    (hcount : (parseRow src hdr al true).length ≠ al.length) :
    transform src (pre ++ hdr :: dl :: rest) = { para := pre ++ hdr :: dl :: rest, table := Option.none } := by
  rw [Proof.Table.transform_first_delim src pre hdr dl rest al hpre hdl]
  have : (al.length != (parseRow src hdr al true).length) = true := by
    simp; exact fun h => hcount h.symm
  simp [this]

/-- The header's cell count is the number of cells written in the source: header rows are never padded. -/
theorem header_not_padded (src : Bytes) (hdr : Seg) (al : List Align) :
    ∀ c ∈ parseRow src hdr al true, c.seg.isSome = true := Proof.Table.parseRow_header_written src hdr al

/-- Every table Transform makes, from any paragraph: at least one column; the header has exactly one written cell
    per column, each with its column's alignment; every body row has exactly one cell per column, each either
    written with its column's alignment or an empty padding cell. -/
theorem table_rectangular (src : Bytes) (lines : List Seg) (t : GM.Table.Table)
    (h : (transform src lines).table = some t) :
    t.aligns ≠ [] ∧ t.header.length = t.aligns.length ∧
    (∀ (k : Nat) (c : Cell), t.header[k]? = some c → c.seg.isSome = true ∧ c.align = t.aligns.getD k Align.none) ∧
    (∀ r ∈ t.rows, r.length = t.aligns.length) ∧
    (∀ r ∈ t.rows, ∀ (k : Nat) (c : Cell), r[k]? = some c → (c.seg.isSome = true ∧ c.align = t.aligns.getD k Align.none) ∨ c = padCell) :=
  let w := Proof.Table.transform_wellShaped src lines t h
  ⟨w.cols, w.header_len, w.header_cells, w.row_len, w.row_cells⟩

/-- Exactly one header row, and it is the first child of the table; all other children are body rows. -/
theorem one_header (t : GM.Table.Table) :
    ∃ rows, t.children = { isHeader := true, cells := t.header } :: rows ∧ rows.length = t.rows.length ∧
      ∀ r ∈ rows, r.isHeader = false := by
  refine ⟨_, rfl, by simp, ?_⟩
  intro r hr
  simp at hr
  obtain ⟨_, _, rfl⟩ := hr
  rfl

/-- The tag skeleton of every table Transform makes, rendered with any alignment method, is rectangular in the
    sense of GM.Spec.Table.Rectangular: `<table><thead><tr>` n `<th>` `</tr></thead>`, then — iff there is a body
    row — exactly one `<tbody>` holding one `<tr>` of exactly n `<td>` per row, then `</table>`; header cell i shows
    column i's alignment, body cell i shows it too unless it is an empty padding cell. -/
theorem rendered_rectangular (src : Bytes) (lines : List Seg) (m : AlignMethod) (t : GM.Table.Table)
    (h : (transform src lines).table = some t) :
    Spec.Table.Rectangular (t.aligns.map (Proof.Table.vis m)) (renderSkeleton m t) :=
  Proof.Table.rendered_rectangular_of_wellShaped m t (Proof.Table.transform_wellShaped src lines t h)

/-- What the grammar means in counting terms, for every rendered table: one `<table>`, exactly one `<thead>`, a
    `<tbody>` (exactly one, properly closed) iff there is a body row, `1 + nrows` `<tr>`, exactly one `<th>` per
    column and `nrows` × columns `<td>`. -/
theorem rendered_counts (src : Bytes) (lines : List Seg) (m : AlignMethod) (t : GM.Table.Table)
    (h : (transform src lines).table = some t) :
    ∃ nrows : Nat,
      (renderSkeleton m t).count Tok.tableOpen = 1 ∧ (renderSkeleton m t).count Tok.theadOpen = 1 ∧
      (renderSkeleton m t).count Tok.tbodyOpen = (if nrows = 0 then 0 else 1) ∧
      (renderSkeleton m t).count Tok.tbodyClose = (if nrows = 0 then 0 else 1) ∧
      (renderSkeleton m t).count Tok.trOpen = 1 + nrows ∧
      (renderSkeleton m t).countP (Spec.Table.isCell true) = t.aligns.length ∧
      (renderSkeleton m t).countP (Spec.Table.isCell false) = nrows * t.aligns.length := by
  have := Proof.Table.rectangular_counts _ _ (rendered_rectangular src lines m t h)
  simpa using this

/-! ### tests on literals (non-vacuity; not part of the claim) -/

/-- "a|b\n-|:-\nx|y|z\nq\n" -/
def src1 : Bytes := [97, 124, 98, 10, 45, 124, 58, 45, 10, 120, 124, 121, 124, 122, 10, 113, 10]
def lines1 : List Seg := [⟨0, 4, 0⟩, ⟨4, 9, 0⟩, ⟨9, 15, 0⟩, ⟨15, 17, 0⟩]

-- a table is made: 2 columns, one truncated row (x|y|z), one padded row (q)
example : transform src1 lines1 =
    { para := [],
      table := some { aligns := [.none, .left],
                      header := [⟨.none, some ⟨0, 1, 0⟩, []⟩, ⟨.left, some ⟨2, 3, 0⟩, []⟩],
                      rows := [[⟨.none, some ⟨9, 10, 0⟩, []⟩, ⟨.left, some ⟨11, 12, 0⟩, []⟩],
                               [⟨.none, some ⟨15, 16, 0⟩, []⟩, padCell]] } } := by decide +kernel

-- the hypotheses of transform_first_delim / header_guard are satisfiable: "a\n|-|-|\n" has a delimiter row of two
-- columns after a one-cell header, and does not become a table (regression input of the repaired defect)
def src2 : Bytes := [97, 10, 124, 45, 124, 45, 124, 10]
example : parseDelimiter (Seg.value src2 ⟨2, 8, 0⟩) = some [.none, .none] := by decide +kernel
example : (parseRow src2 ⟨0, 2, 0⟩ [.none, .none] true).length = 1 := by decide +kernel
example : transform src2 [⟨0, 2, 0⟩, ⟨2, 8, 0⟩] = { para := [⟨0, 2, 0⟩, ⟨2, 8, 0⟩], table := Option.none } := by decide +kernel

-- text before the table stays a paragraph: "t\na\n-\n"
example : (transform [116, 10, 97, 10, 45, 10] [⟨0, 2, 0⟩, ⟨2, 4, 0⟩, ⟨4, 6, 0⟩]).para = [⟨0, 1, 0⟩] := by decide +kernel

-- the rendered skeleton of the first example
example : (transform src1 lines1).table.map (renderSkeleton .style) = some
    [.tableOpen, .theadOpen, .trOpen, .cellOpen true .none, .content (some ⟨0, 1, 0⟩), .cellClose true,
     .cellOpen true .left, .content (some ⟨2, 3, 0⟩), .cellClose true, .trClose, .theadClose, .tbodyOpen,
     .trOpen, .cellOpen false .none, .content (some ⟨9, 10, 0⟩), .cellClose false,
     .cellOpen false .left, .content (some ⟨11, 12, 0⟩), .cellClose false, .trClose,
     .trOpen, .cellOpen false .none, .content (some ⟨15, 16, 0⟩), .cellClose false,
     .cellOpen false .none, .content Option.none, .cellClose false, .trClose, .tbodyClose, .tableClose] := by
  decide +kernel

-- escaped pipe inside a code span is recorded, the cell is not split: "`a\|b`|c" after a 2-column header
example : (parseRow [96, 97, 92, 124, 98, 96, 124, 99] ⟨0, 8, 0⟩ [.none, .none] false) =
    [⟨.none, some ⟨0, 6, 0⟩, [2]⟩, ⟨.none, some ⟨7, 8, 0⟩, []⟩] := by decide +kernel

/-- (package consts) the four delimiter-row regular expressions and the literals of extension/table.go are the table model's -/
theorem consts_table_regexps_tied : GM.Spec.Consts.allOk GM.Spec.Consts.tableRegexps = true := GM.Props.Consts.Table.table_regexps_tied

/-- (re-export of `GM.Props.ConvertX.convertx_tables_rectangular_partial`) `convertx_tables_rectangular`, transformer level: whatever paragraph the table transformer of the composed model is
    called on, the table it builds nodes for (`GM.Table.transform`'s, handed to `buildTable`) has ≥ 1 column, a header with
    exactly one cell per column and body rows with exactly one cell per column (GM.Props.C17.table_rectangular). -/
theorem convertx_tables_rectangular_partial : type_of% @GM.Props.ConvertX.convertx_tables_rectangular_partial := @GM.Props.ConvertX.convertx_tables_rectangular_partial

/-- (re-export of `GM.Props.ConvertX.tables_rectangular_of_store`) `tables_rectangular_of_store` (C17 on the composed OUTPUT tree, the tree half): for every member set, source and class
    assignment, if the store is rectangular then so is the tree the renderer receives. `docTreeX` keeps child counts
    (`docTreesX` is a map), gives every node the decoded kind (`blockKindX`), gives a Table / TableHeader / TableRow node no
    inline children, and inline subtrees contain no table kind; without the member no node has a table kind at all. -/
theorem tables_rectangular_of_store : type_of% @GM.Props.ConvertX.tables_rectangular_of_store := @GM.Props.ConvertX.tables_rectangular_of_store

/-- (re-export of `GM.Props.ConvertX.doc_tree_keeps_rectangular`) the tree half for one tree: `rectT` of a block tree ⇒ `rectB` of what `docTreeX` makes of it -/
theorem doc_tree_keeps_rectangular : type_of% @GM.Props.ConvertX.doc_tree_keeps_rectangular := @GM.Props.ConvertX.doc_tree_keeps_rectangular

end GM.Props.C17
