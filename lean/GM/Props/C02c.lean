/-
  Property C02, package `cmspec` (spec-side model): theorems about the Lean generator of constructed
  CommonMark documents (GM.Spec.CommonMark) and about the escape-spelling axis of the property.

  What is PROVED here:
  * `escSpell_decodes` (DESIGN's `write_undoes_spelling`): the model of goldmark's text writer
    (GM.Model.Writer.write, tied to renderer/html/html.go defaultWriter.Write by component `render`) applied to ANY
    licensed spelling of a run of printable-ASCII text — per character: literal, backslash escape, decimal
    reference with leading zeros, hexadecimal reference in either case with leading zeros, named HTML5 entity —
    yields exactly the HTML-escaped plain text. Quantified over all strings and all per-character choices; the
    entity names are checked against the entity table REGENERATED from /repo.
  * `expected_balanced`: the expected HTML of every tree is tag-balanced (stack discipline over the output
    pieces; raw HTML passed through by html.WithUnsafe is opaque).
  * `spell_choice_independent_expected`: `expected` is a function of the tree's structure alone — true by
    construction (no clause of `expected` mentions a choice field); stated as invariance under erasing all choices.

  What is NOT proved: that goldmark renders `spell d` as `expected d`. That is the property itself and is
  decided by the correspondence run of component `cmspec` (the Lean model is the specification side).
-/
import GM.Proof.CMSpec
import GM.Proof.CMSpecTree

namespace GM.Props.C02c
open GM GM.Spec.CM

/-- The writer model undoes every licensed spelling: for every string over printable ASCII and every
    per-character choice of literal / backslash / decimal / hex / named-entity spelling,
    `Write(escSpell cs) = RawWrite(plain cs)` (for both values of the writer's EscapedSpace option). -/
theorem escSpell_decodes (escSpace : Bool) (cs : List TChar) (hp : ∀ t ∈ cs, printable t.c = true) :
    GM.write escSpace (escSpell cs) = GM.rawWrite (plain cs) :=
  Proof.CMSpec.escSpell_decodes escSpace cs hp

/-- The form asked for by the package description (EscapedSpace off, as in the default renderer). -/
theorem escSpell_decodes_default (cs : List TChar) (hp : ∀ t ∈ cs, printable t.c = true) :
    GM.write false (escSpell cs) = GM.rawWrite (plain cs) :=
  Proof.CMSpec.escSpell_decodes false cs hp

/-- … and the spec-side escaping used by `expected` is the writer's RawWrite: the text pieces of `expected`
    are what goldmark's writer produces from the spelled source. -/
theorem escHtml_eq_rawWrite (b : Bytes) : escHtml b = GM.rawWrite b := Proof.CMSpec.escHtml_eq_rawWrite b

/-- The expected HTML of EVERY tree (well-formed or not) is tag-balanced. -/
theorem expected_balanced (d : Doc) : Proof.CMSpecTree.balanced (expectedPieces d) = true :=
  Proof.CMSpecTree.expected_balanced d

/-- `expected` never looks at a surface-syntax choice (trivially true by construction: it is defined by
    recursion on the structure only): erasing every choice leaves it unchanged, hence two annotated trees with
    the same structure have the same expected HTML. -/
theorem spell_choice_independent_expected (d : Doc) : expected (eraseDoc d) = expected d :=
  Proof.CMSpecTree.expected_erase d

/-! ### non-vacuity and tests (examples on literals are tests, not theorems) -/

-- test: `a&#0042;\\*&ast;&#x2A;` spells `a****`
example : escSpell [⟨97, .lit⟩, ⟨42, .dec 2⟩, ⟨42, .bs⟩, ⟨42, .named⟩, ⟨42, .hex 0 false true⟩] =
    [97, 38, 35, 48, 48, 52, 50, 59, 92, 42, 38, 97, 115, 116, 59, 38, 35, 120, 50, 65, 59] := by decide +kernel
-- test: the hypothesis is satisfiable and the conclusion is not trivial (`<` and `&` come out escaped)
example : GM.write false (escSpell [⟨60, .named⟩, ⟨38, .lit⟩]) = [38, 108, 116, 59, 38, 97, 109, 112, 59] := by
  rw [escSpell_decodes_default _ (by decide)]; decide +kernel
-- test (wellFormed itself is evaluated by the compiled driver on every generated document): the expected HTML of `a` is `<p>a</p>\n`
example : expected { blocks := [.para {} [.text [⟨97, .lit⟩]] 0] } = [60, 112, 62, 97, 60, 47, 112, 62, 10] := by decide +kernel

end GM.Props.C02c
