/-
  Property C01 — conversion is total: no panic, no error, always terminates, for any bytes.
  What is PROVED here: for every component of goldmark that is inside the model, on every input (every byte
  string, tree, call sequence, fault position) and under exactly the guard the real code runs it with, the
  model's explicit panic / fuel-exhaustion outcomes are unreachable — the model functions are total Lean
  definitions whose recursion is justified, and each loop that is modelled with fuel has its `fuel suffices`
  theorem here. The theorems are proved in the packages of the properties that own the components and are
  collected here under C01 names (`type_of%` restates the exact statement):
    renderer + node renderers (C03), dispatch of unknown kinds (C20), the AST mutators and Walk (C13), the
    bufio/Render/Convert error path (C14), heading-id probing (C15), Reader/BlockReader and their helpers (C18),
    the inline driver loop for contract-abiding parsers (C05a/C11), line recognisers (C02a).
  The util transformers (escape, unescape, resolvers, URL escape, case folding, label normalisation) are total
  definitions without any panic outcome; their recursion is by structural or well-founded descent
  (GM.Model.Util, GM.Model.Writer) and they are tied to the Go functions by the `util` correspondence.
  The whole BLOCK PHASE is modelled (GM.Model.Blocks) and proved to terminate on every byte string.
  The whole INLINE PHASE with the concrete parsers is modelled (GM.Model.Inlines*) and proved total (no panic, terminates).
  The COMPOSITION for the default CommonMark configuration (block phase with the link reference paragraph transformer,
  inline phase of every block, renderer; GM.Model.Convert, tied to goldmark.Convert on whole documents by component
  `convert`) never hangs: convert_never_loops.
  What is NOT proved: no-panic of the COMPOSITION (GM.Props.Convert.NoPanic: the block phase with the paragraph
  transformer and the hand-over of block lines to the inline phase; the block phase alone and the inline phase alone
  are proved panic-free), the extensions' parsers, stack depth, super-linear running time. That part is
  searched: component `total` (exhaustive short strings + mutated corpus under the configuration lattice,
  panic recovery, per-input watchdog, Convert vs Parse+Render).
-/
import GM.Props.C03
import GM.Props.C13
import GM.Props.C14
import GM.Props.C15
import GM.Props.C18
import GM.Props.C20
import GM.Props.C05a
import GM.Props.C02a
import GM.Props.Blocks
import GM.Props.Inlines
import GM.Props.Attribute
import GM.Props.Convert
import GM.Props.ConvertE2E
import GM.Props.Consts.Parser
import GM.Props.ConvertNP
import GM.Props.Wf0
import GM.Props.ConvertX
import GM.Props.C16E2E

namespace GM.Props.C01
open GM

/-- Rendering a tree that satisfies the renderer invariant never panics (heading level index, `c.(*ast.Text)`
    in code spans, the `[]byte` assertion on a table cell's style attribute). -/
theorem render_no_panic : type_of% @GM.Props.C03.inv_noPanic := @GM.Props.C03.inv_noPanic

/-- A node whose kind has no renderer function — inside or beyond the function table — is skipped, its
    children are still walked; no index out of range. -/
theorem unknown_kind_no_panic : type_of% @GM.Props.C20.kind_beyond_table := @GM.Props.C20.kind_beyond_table
theorem unknown_kind_children_walked : type_of% @GM.Props.C20.missing_kind_skipped := @GM.Props.C20.missing_kind_skipped

/-- Every AST mutator call inside the API's proviso returns normally (no nil dereference, its loops end). -/
theorem ast_mutators_no_panic : type_of% @GM.Props.C13.step_refines := @GM.Props.C13.step_refines
/-- …for whole call sequences, with the fuel the model gives its loops. -/
theorem ast_runs_no_panic : type_of% @GM.Props.C13.fuel_suffices := @GM.Props.C13.fuel_suffices
/-- Walk terminates on every tree built through the API and visits it as the textbook traversal. -/
theorem walk_terminates : type_of% @GM.Props.C13.walk_after_run := @GM.Props.C13.walk_after_run

/-- Render/Convert over a failing or non-failing writer never panics and the model's buffer loops never starve. -/
theorem write_path_no_panic : type_of% @GM.Props.C14.never_panics_fuel_suffices := @GM.Props.C14.never_panics_fuel_suffices

/-- The unbounded `for i := 1; ; i++` probing of ids.Generate terminates for every table and value. -/
theorem heading_id_probing_terminates : type_of% @GM.Props.C15.generate_terminates := @GM.Props.C15.generate_terminates

/-- Reader and BlockReader calls inside their documented preconditions never panic; the helper loops
    (SkipSpaces, SkipBlankLines, ReadRune, FindClosure) terminate. -/
theorem reader_no_panic : type_of% @GM.Props.C18.reader_no_panic := @GM.Props.C18.reader_no_panic
theorem blockReader_no_panic : type_of% @GM.Props.C18.blockReader_no_panic := @GM.Props.C18.blockReader_no_panic
theorem reader_helpers_terminate : type_of% @GM.Props.C18.reader_helpers_no_panic := @GM.Props.C18.reader_helpers_no_panic

/-- The inline driver loop terminates without panic for every well-formed block and all parsers that consume at
    least one byte when they accept (a parser that accepts without consuming would spin: the contract). -/
theorem inline_loop_terminates : type_of% @GM.Props.C05a.loop_terminates := @GM.Props.C05a.loop_terminates
theorem inline_loop_fuel_suffices : type_of% @GM.Props.C05a.fuel_suffices := @GM.Props.C05a.fuel_suffices

/-- The closing-fence and ATX-open recognisers index their line safely for every line. -/
theorem fence_close_no_panic : type_of% @GM.Props.C02a.fence_close_noPanic := @GM.Props.C02a.fence_close_noPanic
theorem atx_open_no_panic : type_of% @GM.Props.C02a.atx_open_noPanic := @GM.Props.C02a.atx_open_noPanic

/-- The whole block phase (parseBlocks / openBlocks / closeBlocks with the ten block parsers, as modelled in
    GM.Model.Blocks and tied to the real parser by the `blocks` correspondence) terminates for EVERY byte string:
    neither line loop needs more than (number of newlines + 3) iterations and the container retry loop never
    exceeds its bound. -/
theorem block_phase_terminates : type_of% @GM.Props.Blocks.parseBlocks_fuel_suffices := @GM.Props.Blocks.parseBlocks_fuel_suffices
theorem block_phase_outcome : type_of% @GM.Props.Blocks.parseBlocks_outcome := @GM.Props.Blocks.parseBlocks_outcome

/-- The whole block phase returns a block tree for EVERY byte string: no Go run-time panic (index, slice, nil,
    type assertion, explicit) is reachable in parseBlocks / openBlocks / closeBlocks or in Open / Continue / Close of
    the ten default block parsers, and the BlockParser contract ("Open must advance the reader") is kept at every
    `goto retry` (the model's contract monitor never fires). Invariant proof over the model GM.Model.Blocks. -/
theorem block_phase_no_panic : type_of% @GM.Props.Blocks.no_panic := @GM.Props.Blocks.no_panic
theorem block_phase_never_errs : type_of% @GM.Props.Blocks.run_never_errs := @GM.Props.Blocks.run_never_errs
theorem block_phase_contract_kept : type_of% @GM.Props.Blocks.monitor_never_fires := @GM.Props.Blocks.monitor_never_fires

/-- The delimiter-processing loop of the INLINE PHASE (emphasis matching over the delimiter list, as modelled in
    GM.Model.Inlines and tied to the real parser by the `inlines` correspondence) terminates without a Go panic
    for every child list. (Termination/no-panic of the whole inline phase with the concrete parsers is stated in
    notes/status_inlines.md and not yet proved; none occurred on 16.6M sources.) -/
theorem process_delimiters_terminates : type_of% @GM.Props.Inlines.processDelimiters_terminates_no_panic := @GM.Props.Inlines.processDelimiters_terminates_no_panic

/-- The whole INLINE PHASE with the concrete default inline parsers (code span, emphasis + ProcessDelimiters, links and
    images with inline / full / collapsed / shortcut references, autolinks, raw HTML) returns a tree — no Go panic, no
    non-termination, none of the model's guards — for EVERY source, every padding-free well-formed segment list,
    every reference map and every Unicode-class assignment. -/
theorem inline_phase_total : type_of% @GM.Props.Inlines.parseBlock_total := @GM.Props.Inlines.parseBlock_total
/-- the link parser keeps the contract the loop relies on (consumes at least one byte when it returns a node,
    restores the reader otherwise, keeps the delimiter/label context invariant) -/
theorem link_parser_contract : type_of% @GM.Props.Inlines.link_parser_keeps_contract := @GM.Props.Inlines.link_parser_keeps_contract

/-- Block phase: blockquote.process, the paragraph parser's Open/Continue/Close, thematic-break Open and ATX Open never
    panic from any reader state satisfying the block-phase reader invariant. -/
theorem blockquote_process_total : type_of% @GM.Props.Blocks.blockquote_process_total_progress := @GM.Props.Blocks.blockquote_process_total_progress
theorem paragraph_open_total : type_of% @GM.Props.Blocks.paragraph_open_total := @GM.Props.Blocks.paragraph_open_total
theorem atx_open_total : type_of% @GM.Props.Blocks.atx_open_total := @GM.Props.Blocks.atx_open_total

/-- The Attribute option: `parser.ParseAttributes` from every reader offset of every byte string, the last-line scan
    `parseLastLineAttributes`, and ATX Open (+ Close of both heading parsers) with WithAttribute / WithAutoHeadingID
    never panic and terminate (package `attribute`). -/
theorem attribute_parser_total : type_of% @GM.Props.Attribute.parseAttributes_total := @GM.Props.Attribute.parseAttributes_total
theorem attribute_last_line_total : type_of% @GM.Props.Attribute.lastLineAttrs_total := @GM.Props.Attribute.lastLineAttrs_total
theorem attribute_heading_total : type_of% @GM.Props.Attribute.atx_heading_attrs_inv := @GM.Props.Attribute.atx_heading_attrs_inv

/-- The whole pipeline of the default CommonMark configuration (package `convert`): `convertCore` — block phase WITH the
    link reference paragraph transformer, inline phase of every non-raw block, HTML renderer, options Unsafe / XHTML /
    HardWraps — never ends in fuel exhaustion, for EVERY byte string; its outcome is HTML or a non-loop error; the block
    driver with ANY admissible list of paragraph transformers terminates. -/
theorem convert_never_loops : type_of% @GM.Props.Convert.convert_never_loops := @GM.Props.Convert.convert_never_loops
theorem convert_outcome : type_of% @GM.Props.Convert.convert_outcome := @GM.Props.Convert.convert_outcome
theorem block_phase_with_transformers_terminates : type_of% @GM.Props.Convert.block_phase_with_transformers_terminates :=
  @GM.Props.Convert.block_phase_with_transformers_terminates
theorem link_reference_scanner_total : type_of% @GM.Props.Convert.definition_scanner_total := @GM.Props.Convert.definition_scanner_total
theorem link_reference_scan_total : type_of% @GM.Props.Convert.transform_scan_total := @GM.Props.Convert.transform_scan_total
theorem link_reference_scan_never_loops : type_of% @GM.Props.Convert.transform_never_loops := @GM.Props.Convert.transform_never_loops

/-- (re-export of `GM.Props.ConvertE2E.convert_no_render_panic`) `convert_no_render_panic`. For EVERY source, Unicode class assignment and option set `convertCore` never ends in
    `Err.render k`: no node renderer function panics on parser output (`"0123456"[n.Level]` in renderHeading,
    `c.(*ast.Text)` in renderCodeSpan; the table-cell assertion needs the table extension). -/
theorem convert_no_render_panic : type_of% @GM.Props.ConvertE2E.convert_no_render_panic := @GM.Props.ConvertE2E.convert_no_render_panic

/-- (re-export of `GM.Props.ConvertE2E.convert_no_value_panic_partial`) `convert_no_value_panic_partial`. Given (a) the segments the inline phase records never carry a negative padding
    (`InlineSegsUnpadded`, a statement about `GM.Inl.parseBlock` on `WF0` lines) and (b) in the store the block phase
    returns for `src` the lines of raw blocks, fenced info segments and HTML closure lines are inside the source with
    non-negative padding (`RawSegsInRange`): `convertCore` never ends in `Err.value p`, for every Unicode class
    assignment and option set. The RANGE of the inline segments is not a hypothesis: it follows from the `WF0` check
    `convertCore` makes and the segment theorem of the inline phase. -/
theorem convert_no_value_panic_partial : type_of% @GM.Props.ConvertE2E.convert_no_value_panic_partial := @GM.Props.ConvertE2E.convert_no_value_panic_partial

/-- (package consts) the regular expressions, tag list, limits and marker bytes of parser/*.go are the ones the block / inline models were written against (obligations over the regenerated GM.Gen.Consts; `./check` names the constant when one changes) -/
theorem consts_html_block_regexps_tied : GM.Spec.Consts.allOk GM.Spec.Consts.htmlBlockRegexps = true := GM.Props.Consts.Parser.html_block_regexps_tied
/-- (package consts) `allowedBlockTags` and the type 2-5 closers of parser/html_block.go are the block model's -/
theorem consts_html_block_tags_tied : GM.Spec.Consts.allOk GM.Spec.Consts.htmlBlockTags = true := GM.Props.Consts.Parser.html_block_tags_tied
/-- (package consts) the raw-HTML tag expressions of parser/raw_html.go are the ones the inline model's matchers were written against -/
theorem consts_raw_html_regexps_tied : GM.Spec.Consts.allOk GM.Spec.Consts.rawHtmlRegexps = true := GM.Props.Consts.Parser.raw_html_regexps_tied
/-- (package consts) the autolink expressions and bounds of parser/auto_link.go are the inline model's -/
theorem consts_autolink_regexps_tied : GM.Spec.Consts.allOk GM.Spec.Consts.autolinkRegexps = true := GM.Props.Consts.Parser.autolink_regexps_tied
/-- (package consts) the numeric limits of the parsers (label length 999, list start 9 digits, indents 3/4, fence 3, ATX 6, ...) are the models' -/
theorem consts_limits_tied : GM.Spec.Consts.allOk GM.Spec.Consts.limits = true := GM.Props.Consts.Parser.limits_tied
/-- (package consts) bullet / delimiter / fence / heading / emphasis marker bytes are the models' -/
theorem consts_markers_tied : GM.Spec.Consts.allOk GM.Spec.Consts.markers = true := GM.Props.Consts.Parser.markers_tied

/-- (re-export of `GM.Props.ConvertNP.scan_total_and_ranges_adjacent`) **The ranges the transformer's scan hands to its second loop are adjacent from line 0 on, non-empty, and end inside the
    paragraph** — for every source, every paragraph whose lines are well-formed (`WFSegs`: inside the source, increasing,
    non-empty, paddings ≥ 0 — ANY paddings, i.e. also continuation lines behind a partly consumed tab inside a container)
    and none of which is blank (the paragraph parser never appends a blank line), every reference map. Moreover the scan
    itself is TOTAL on such lines: no Go panic (`line[pos]`, `Advance`, `Value`), no fuel exhaustion, the progress monitor
    of the model does not fire. True of the code since /repo 0539a73 (a definition leaves the reader at the start of the
    line behind it, or in front of white space only). -/
theorem link_reference_scan_total_and_adjacent : type_of% @GM.Props.ConvertNP.scan_total_and_ranges_adjacent := @GM.Props.ConvertNP.scan_total_and_ranges_adjacent

/-- (re-export of `GM.Props.ConvertNP.scan_ranges_adjacent`) **`GM.Props.Convert.ScanRangesAdjacent` is a theorem** (it was stated there as a `def … : Prop`): on a paragraph with
    well-formed padding-free non-blank lines the ranges the scan answers are adjacent from line 0 on and end inside the
    paragraph, so contract monitor (3) of `GM.LinkRef.finishLines` is unreachable. -/
theorem link_reference_ranges_adjacent : type_of% @GM.Props.ConvertNP.scan_ranges_adjacent := @GM.Props.ConvertNP.scan_ranges_adjacent

/-- (re-export of `GM.Props.ConvertNP.second_loop_total`) the second stage of Transform on what the scan answers: the monitor passes, no `slice` panic of
    `Sliced` / `SetSliced`, no stale-elements `pre`; the paragraph keeps its lines without the first `lastEnd` ones -/
theorem link_reference_second_loop_total : type_of% @GM.Props.ConvertNP.second_loop_total := @GM.Props.ConvertNP.second_loop_total

/-- (re-export of `GM.Props.ConvertNP.transform_scan_total_padded`) **the scan is total on well-formed lines with ANY paddings, blank lines allowed** (or on no lines): no Go panic, no fuel
    exhaustion, the progress monitor silent. (GM.Props.Convert.transform_scan_total has this for padding-free lines,
    transform_never_loops only termination for padded ones.) -/
theorem link_reference_scan_total_padded : type_of% @GM.Props.ConvertNP.transform_scan_total_padded := @GM.Props.ConvertNP.transform_scan_total_padded

/-- (re-export of `GM.Props.ConvertNP.transform_total`) **`linkReferenceParagraphTransformer.Transform` is total**: from EVERY block-phase state, on a node whose lines are fit
    for it (`TLinesOK`: no lines, or `WFSegs` with any paddings and no blank line) and that has a parent: no Go panic — the
    scan, `Sliced` / `SetSliced`, `node.Parent().ReplaceChild` —, no fuel exhaustion, none of the model's monitors; and
    what it does to the state is `PTPost`: the main reader is untouched, of the context only the reference map changes,
    the paragraph loses an initial segment of its lines and keeps one, or loses all and an empty TextBlock takes its
    place among its parent's children (link_ref.go:41-50). -/
theorem link_reference_transform_total : type_of% @GM.Props.ConvertNP.transform_total := @GM.Props.ConvertNP.transform_total

/-- (re-export of `GM.Props.ConvertNP.transform_total_or_monitor`) … and the whole of Transform on such a paragraph with a parent: `PTPost`, or contract monitor (3) answered `pre` — never a
    Go panic, never the fuel error. (With a blank line among the lines the monitor CAN fire: the example above.) -/
theorem link_reference_transform_total_or_monitor : type_of% @GM.Props.ConvertNP.transform_total_or_monitor := @GM.Props.ConvertNP.transform_total_or_monitor

/-- (re-export of `GM.Props.ConvertNP.default_transformers_contract`) **the transformer of the composition, `GM.LinkRef.guardedTransform` (Transform behind the run-time check `WFSegs`),
    never raises a Go panic and never exhausts fuel**, from any state, on any Paragraph node that has a parent: it ends as
    `PTPost` says, or answers `pre` (the check or monitor (3)). In the form the driver theorem consumes: `PTsSpec src pre` of
    the default transformer list of `GM.Convert.blockPhase true`. -/
theorem default_transformers_contract : type_of% @GM.Props.ConvertNP.default_transformers_contract := @GM.Props.ConvertNP.default_transformers_contract

/-- (re-export of `GM.Props.ConvertNP.guarded_transformer_contract`) **the contract of the guarded transformer** (`guardE e`: Transform behind the run-time check `linesOKB` of exactly the
    hypothesis above, the check answering `e`): on a Paragraph node that has a parent, from any state, it ends as `PTPost`
    says or answers `e` — for EVERY choice of `e`, so the check is the only source of an abnormal end. This is the
    hypothesis `PTsSpec` of the driver theorem. -/
theorem guarded_transformer_contract : type_of% @GM.Props.ConvertNP.guarded_transformer_contract := @GM.Props.ConvertNP.guarded_transformer_contract

/-- (re-export of `GM.Props.ConvertNP.no_underline_of_setext_free`) a decidable sufficient condition: the source has neither `-` nor `=` -/
theorem no_underline_of_setext_free : type_of% @GM.Props.ConvertNP.no_underline_of_setext_free := @GM.Props.ConvertNP.no_underline_of_setext_free

/-- (re-export of `GM.Props.ConvertNP.no_underline_of_check`) a decidable sufficient condition that allows `-` and `=`: the executable test `noBarB` (the views from every byte offset with
    the paddings 0..3; more than 3 leading spaces never make an underline) -/
theorem no_underline_of_check : type_of% @GM.Props.ConvertNP.no_underline_of_check := @GM.Props.ConvertNP.no_underline_of_check

/-- (re-export of `GM.Props.ConvertNP.block_phase_with_transformers_total_partial`) **the block driver with paragraph transformers is total, for EVERY list of transformers that keep the contract** — on every
    source without a setext underline (`NoUnderline`), ALL ten block parsers, lists included: `parseBlocks` with
    `transformParagraph` called from `closeBlocks` returns a tree all of whose line segments lie inside the source, or a
    transformer's run-time guard answered `e`. No Go panic of parseBlocks / openBlocks / closeBlocks / the block parsers / the
    tree surgery, no fuel exhaustion, and NEITHER contract monitor of the retry loop (`retryStepT` (1)/(2)) fires. `_partial`:
    on sources with an underline the RequireParagraph path is live; what its proof needs is in notes/status_tnopanic.md. -/
theorem block_phase_with_transformers_total_partial : type_of% @GM.Props.ConvertNP.block_phase_with_transformers_total_partial := @GM.Props.ConvertNP.block_phase_with_transformers_total_partial

/-- (re-export of `GM.Props.ConvertNP.block_phase_with_transformers_total_list_free`) the same from the list-free core of the proof (GM.Proof.BlocksTNP1/2/4/5: no list invariant; sources without
    `-` `=` `*` `+` and digits) — subsumed by the theorem above, kept because it is the readable core of the list-aware walk -/
theorem block_phase_with_transformers_total_list_free : type_of% @GM.Props.ConvertNP.block_phase_with_transformers_total_list_free := @GM.Props.ConvertNP.block_phase_with_transformers_total_list_free

/-- (re-export of `GM.Props.ConvertNP.block_phase_no_go_panic_partial`) **goal (c), partial — the block phase of the default pipeline never raises a Go panic** on such sources:
    `GM.Convert.blockPhase true src` (the link reference transformer behind its run-time check) returns a tree with all line
    segments in range, or answers `pre` — the outcome of the run-time check `WFSegs` and of contract monitor (3), the only
    abnormal ends left; every Go run-time panic of the model (`index`, `slice`, `nil`, `assert`, `explicit`) and the fuel error
    are excluded. -/
theorem block_phase_no_go_panic_partial : type_of% @GM.Props.ConvertNP.block_phase_no_go_panic_partial := @GM.Props.ConvertNP.block_phase_no_go_panic_partial

/-- (re-export of `GM.Props.ConvertNP.block_phase_total_modulo_guard_partial`) **goal (c), partial, in the form that composes with "the guard never fires"** (package `wf0`): with the transformer behind
    the check `linesOKB` (`WFSegs` ∧ no blank line) whose outcome `e` is a PARAMETER, the run ends normally or with `e` — for
    every `e`. Since `e` is arbitrary, the check is the only source of an abnormal end: if `runT [guardE e] src` is the same
    for two different `e` (e.g. because the check never fires), it is `.ok`. -/
theorem block_phase_total_modulo_guard_partial : type_of% @GM.Props.ConvertNP.block_phase_total_modulo_guard_partial := @GM.Props.ConvertNP.block_phase_total_modulo_guard_partial

/-- (re-export of `GM.Props.ConvertNP.monitors_never_fire_partial`) **goal (d), partial — none of the model's contract monitors fires** on such sources: with the guard's outcome chosen different
    from `pre` (the code every monitor answers: retry monitors (1)/(2) of `retryStepT`, the progress monitor of the scan, the
    stale-elements check of `removeLoop`, contract monitor (3) of `finishLines`), the run never ends in `pre` -/
theorem monitors_never_fire_partial : type_of% @GM.Props.ConvertNP.monitors_never_fire_partial := @GM.Props.ConvertNP.monitors_never_fire_partial

/-- (re-export of `GM.Props.ConvertNP.total_of_guard_irrelevant`) how the two results compose (no hypothesis on the source here): if the guard's outcome does not influence the run — what
    "the guard never fires" gives — then a run that ends "normally or with `e`" for every `e` ends normally -/
theorem total_of_guard_irrelevant : type_of% @GM.Props.ConvertNP.total_of_guard_irrelevant := @GM.Props.ConvertNP.total_of_guard_irrelevant

/-- (re-export of `GM.Props.Wf0.inline_bearing_wellformed`) the hand-over, as far as it is proved: every inline-bearing block of the final store has `WFSegs` lines (all of
    `WF0` but `padding = 0`) -/
theorem inline_handover_wellformed : type_of% @GM.Props.Wf0.inline_bearing_wellformed := @GM.Props.Wf0.inline_bearing_wellformed

/-- (re-export of `GM.Props.Wf0.inline_wf0_remaining`) **what the hand-over to the inline phase still needs**: with order, range, non-emptiness and "no ForceNewline"
    proved, `InlineLinesWF0 src` (every inline-bearing block has `WF0` lines) is equivalent to ONE fact: every line
    segment of an inline-bearing block of the final store has padding 0. -/
theorem inline_handover_remaining : type_of% @GM.Props.Wf0.inline_wf0_remaining := @GM.Props.Wf0.inline_wf0_remaining

/-- (re-export of `GM.Props.ConvertX.convertx_never_loops_partial`) `convertx_never_loops` for the member sets {} and {Table}: HTML, or an error that is not fuel exhaustion. -/
theorem convertx_never_loops_partial : type_of% @GM.Props.ConvertX.convertx_never_loops_partial := @GM.Props.ConvertX.convertx_never_loops_partial

/-- (re-export of `GM.Props.ConvertX.convertx_never_loops_of`) every member set: no fuel exhaustion, provided the inline phase of that member set never exhausts its fuel -/
theorem convertx_never_loops_of : type_of% @GM.Props.ConvertX.convertx_never_loops_of := @GM.Props.ConvertX.convertx_never_loops_of

/-- (re-export of `GM.Props.ConvertX.block_phase_x_terminates`) the block phase of EVERY member set terminates on every source: the table paragraph transformer is an admissible
    transformer of the block driver (reads the source, writes the node store: `PTOK`), so
    GM.Props.Convert.block_phase_with_transformers_terminates applies to [link references, table] -/
theorem block_phase_x_terminates : type_of% @GM.Props.ConvertX.block_phase_x_terminates := @GM.Props.ConvertX.block_phase_x_terminates

/-- (re-export of `GM.Props.ConvertX.table_transformer_admissible`) see `GM.Props.ConvertX.table_transformer_admissible` -/
theorem table_transformer_admissible : type_of% @GM.Props.ConvertX.table_transformer_admissible := @GM.Props.ConvertX.table_transformer_admissible

/-- (re-export of `GM.Props.ConvertE2E.block_store_info_closure_in_range`) `block_store_info_closure_in_range` (round 2: was part of hypothesis (b)). For EVERY source: in the store the
    block phase returns (guarded or not), the info segment of every FencedCodeBlock and the closure line of every
    HTMLBlock (`HasClosure()`) satisfy `0 ≤ start ≤ stop ≤ len(source)`, `padding ≥ 0`. A frame invariant that looks
    at the reader: whenever the source reader hands out a line it is `Value` of the position it hands out, and both
    segments are computed from a position handed out TOGETHER WITH a line. -/
theorem block_store_info_closure_in_range : type_of% @GM.Props.ConvertE2E.block_store_info_closure_in_range := @GM.Props.ConvertE2E.block_store_info_closure_in_range

/-- (re-export of `GM.Props.ConvertE2E.convert_no_value_panic_of_raw_lines`) `convert_no_value_panic_of_raw_lines`: `Err.value p` is unreachable given ONLY that the LINES of the raw blocks
    (CodeBlock / FencedCodeBlock / HTMLBlock) of the store are in range — a consequence of `GM.Blocks.NodesOK src st`,
    the conclusion of the no-panic theorems of the block phase. -/
theorem convert_no_value_panic_of_raw_lines : type_of% @GM.Props.ConvertE2E.convert_no_value_panic_of_raw_lines := @GM.Props.ConvertE2E.convert_no_value_panic_of_raw_lines

/-- (re-export of `GM.Props.ConvertE2E.convert_renderer_side_total_of_lines`) `convert_renderer_side_total_of_lines`: given that, `convertCore` only fails in the parse phases -/
theorem convert_renderer_side_total_of_lines : type_of% @GM.Props.ConvertE2E.convert_renderer_side_total_of_lines := @GM.Props.ConvertE2E.convert_renderer_side_total_of_lines

/-- (re-export of `GM.Props.ConvertE2E.inline_children_resolve`) `inline_children_resolve`: behind `convertCore`'s `WF0` check the inline children of EVERY block resolve to bytes —
    no `Segment.Value` panic of a node renderer comes from an inline node. Unconditional. -/
theorem inline_children_resolve : type_of% @GM.Props.ConvertE2E.inline_children_resolve := @GM.Props.ConvertE2E.inline_children_resolve

/-- (re-export of `GM.Props.ConvertE2E.convert_no_value_panic_of_raw_segments`) `convert_no_value_panic_of_raw_segments`: `Err.value p` is unreachable given ONLY hypothesis (b) — in the store the
    block phase returns, the lines of raw blocks, fenced info segments and HTML closure lines are in range -/
theorem convert_no_value_panic_of_raw_segments : type_of% @GM.Props.ConvertE2E.convert_no_value_panic_of_raw_segments := @GM.Props.ConvertE2E.convert_no_value_panic_of_raw_segments

/-- (re-export of `GM.Props.ConvertE2E.convert_renderer_side_total_partial`) `convert_renderer_side_total_partial`: given (b), `convertCore` can only fail in the parse phases — with a
    `blocks …`, `linesNotWF0` or `inlines …` outcome; the renderer side (`value`, `render`) is total. -/
theorem convert_renderer_side_total_partial : type_of% @GM.Props.ConvertE2E.convert_renderer_side_total_partial := @GM.Props.ConvertE2E.convert_renderer_side_total_partial

/-- (re-export of `GM.Props.Wf0.inline_lines_wf0`) **`InlineLinesWF0`, every source** (the premise `GM.Props.Blocks.InlineLinesWF0 src` of the end-to-end theorems is
    a theorem): when the block phase returns, the lines of every inline-bearing block of the store (not raw, with at
    least one line) are `WF0` — non-empty segments inside the source that increase, padding 0, no ForceNewline. -/
theorem inline_lines_wf0 : type_of% @GM.Props.Wf0.inline_lines_wf0 := @GM.Props.Wf0.inline_lines_wf0

/-- (re-export of `GM.Props.Wf0.nonraw_lines_padding_zero`) **padding 0 at the end, every source.** When the block phase returns, every line segment of every block of the
    store that is not raw has padding 0: each Paragraph / setext heading was handed to its parser's `Close`
    (paragraphParser.Close trims the lines and resets the padding) before the run ended, and the lines that setext /
    list `Close` copy into Headings / TextBlocks are copied from closed paragraphs. -/
theorem nonraw_lines_padding_zero : type_of% @GM.Props.Wf0.nonraw_lines_padding_zero := @GM.Props.Wf0.nonraw_lines_padding_zero

/-- (re-export of `GM.Props.Wf0.open_stack_empty_at_end`) **the open-block stack is empty when the block phase returns**, every source: every block that was pushed has
    been popped by `closeBlocks` (which hands it to `Close`: see `close_blocks_discipline`). -/
theorem open_stack_empty_at_end : type_of% @GM.Props.Wf0.open_stack_empty_at_end := @GM.Props.Wf0.open_stack_empty_at_end

/-- (re-export of `GM.Props.C16E2E.convertf_never_loops_of`) **No fuel exhaustion, relative to the two phase loops**: when the block phase with the footnote block parser and the
    inline loop over the table with the footnote parser never exhaust their fuel, `convertF true` never does (the
    transformer is a total function; the renderer has no fuel). -/
theorem convertf_never_loops_of : type_of% @GM.Props.C16E2E.convertf_never_loops_of := @GM.Props.C16E2E.convertf_never_loops_of

/-- (re-export of `GM.Props.C16E2E.convertf_never_loops_partial`) with the extension off: never, unconditionally (it is `convertCore`) -/
theorem convertf_never_loops_partial : type_of% @GM.Props.C16E2E.convertf_never_loops_partial := @GM.Props.C16E2E.convertf_never_loops_partial

/-- (re-export of `GM.Props.C16E2E.convertf_never_loops_conservative`) … hence `convertF` never exhausts fuel on a source without `[^` -/
theorem convertf_never_loops_conservative : type_of% @GM.Props.C16E2E.convertf_never_loops_conservative := @GM.Props.C16E2E.convertf_never_loops_conservative

/-- (re-export of `GM.Props.C16E2E.convertf_inline_phase_without_list_total`) C01 for that inline phase: TOTAL — children, no Go panic, no fuel exhaustion, no monitor (GM.Proof.InlinesLink.parseBlock_total
    carried over by the equality above) -/
theorem convertf_inline_phase_without_list_total : type_of% @GM.Props.C16E2E.convertf_inline_phase_without_list_total := @GM.Props.C16E2E.convertf_inline_phase_without_list_total

end GM.Props.C01
