/-
  Property C01 — conversion is total: no panic, no error, always terminates, for any bytes.
  What is PROVED here: for every component of goldmark that is inside the model, on every input (every byte
  string, tree, call sequence, fault position) and under exactly the guard the real code runs it with, the
  model's explicit panic / fuel-exhaustion outcomes are unreachable — the model functions are total Lean
  definitions whose recursion is justified, and each loop that is modelled with fuel has its `fuel suffices`
  theorem here. The theorems are proved in the packages of the properties that own the components and are
  collected here under C01 names (`type_of%` restates the exact statement):
    renderer + node renderers (C03), dispatch of unknown kinds (C20), the AST mutators and Walk (C13), the
    bufio/Render/Convert error path (C14), heading-id probing (C15), Reader/BlockReader and their helpers (C18),
    the inline driver loop for contract-abiding parsers (C05a/C11), line recognisers (C02a).
  The util transformers (escape, unescape, resolvers, URL escape, case folding, label normalisation) are total
  definitions without any panic outcome; their recursion is by structural or well-founded descent
  (GM.Model.Util, GM.Model.Writer) and they are tied to the Go functions by the `util` correspondence.
  The whole BLOCK PHASE is modelled (GM.Model.Blocks) and proved to terminate on every byte string.
  The whole INLINE PHASE with the concrete parsers is modelled (GM.Model.Inlines*) and proved total (no panic, terminates).
  The COMPOSITION for the default CommonMark configuration (block phase with the link reference paragraph transformer,
  inline phase of every block, renderer; GM.Model.Convert, tied to goldmark.Convert on whole documents by component
  `convert`) never hangs: convert_never_loops.
  What is NOT proved: no-panic of the COMPOSITION (GM.Props.Convert.NoPanic: the block phase with the paragraph
  transformer and the hand-over of block lines to the inline phase; the block phase alone and the inline phase alone
  are proved panic-free), the extensions' parsers, stack depth, super-linear running time. That part is
  searched: component `total` (exhaustive short strings + mutated corpus under the configuration lattice,
  panic recovery, per-input watchdog, Convert vs Parse+Render).
-/
import GM.Props.C03
import GM.Props.C13
import GM.Props.C14
import GM.Props.C15
import GM.Props.C18
import GM.Props.C20
import GM.Props.C05a
import GM.Props.C02a
import GM.Props.Blocks
import GM.Props.Inlines
import GM.Props.Attribute
import GM.Props.Convert
import GM.Props.ConvertE2E
import GM.Props.Consts.Parser
import GM.Props.ConvertNP
import GM.Props.Wf0
import GM.Props.ConvertX
import GM.Props.C16E2E
import GM.Props.ConvertE2ENT
import GM.Props.ConvertE2ENP
import GM.Props.ConvertL
import GM.Props.ConvertE2EAll
import GM.Props.ConvertXE2E
import GM.Props.C15Total
import GM.Props.ConvertNPX

namespace GM.Props.C01
open GM

/-- Rendering a tree that satisfies the renderer invariant never panics (heading level index, `c.(*ast.Text)`
    in code spans, the `[]byte` assertion on a table cell's style attribute). -/
theorem render_no_panic : type_of% @GM.Props.C03.inv_noPanic := @GM.Props.C03.inv_noPanic

/-- A node whose kind has no renderer function — inside or beyond the function table — is skipped, its
    children are still walked; no index out of range. -/
theorem unknown_kind_no_panic : type_of% @GM.Props.C20.kind_beyond_table := @GM.Props.C20.kind_beyond_table
theorem unknown_kind_children_walked : type_of% @GM.Props.C20.missing_kind_skipped := @GM.Props.C20.missing_kind_skipped

/-- Every AST mutator call inside the API's proviso returns normally (no nil dereference, its loops end). -/
theorem ast_mutators_no_panic : type_of% @GM.Props.C13.step_refines := @GM.Props.C13.step_refines
/-- …for whole call sequences, with the fuel the model gives its loops. -/
theorem ast_runs_no_panic : type_of% @GM.Props.C13.fuel_suffices := @GM.Props.C13.fuel_suffices
/-- Walk terminates on every tree built through the API and visits it as the textbook traversal. -/
theorem walk_terminates : type_of% @GM.Props.C13.walk_after_run := @GM.Props.C13.walk_after_run

/-- Render/Convert over a failing or non-failing writer never panics and the model's buffer loops never starve. -/
theorem write_path_no_panic : type_of% @GM.Props.C14.never_panics_fuel_suffices := @GM.Props.C14.never_panics_fuel_suffices

/-- The unbounded `for i := 1; ; i++` probing of ids.Generate terminates for every table and value. -/
theorem heading_id_probing_terminates : type_of% @GM.Props.C15.generate_terminates := @GM.Props.C15.generate_terminates

/-- Reader and BlockReader calls inside their documented preconditions never panic; the helper loops
    (SkipSpaces, SkipBlankLines, ReadRune, FindClosure) terminate. -/
theorem reader_no_panic : type_of% @GM.Props.C18.reader_no_panic := @GM.Props.C18.reader_no_panic
theorem blockReader_no_panic : type_of% @GM.Props.C18.blockReader_no_panic := @GM.Props.C18.blockReader_no_panic
theorem reader_helpers_terminate : type_of% @GM.Props.C18.reader_helpers_no_panic := @GM.Props.C18.reader_helpers_no_panic

/-- The inline driver loop terminates without panic for every well-formed block and all parsers that consume at
    least one byte when they accept (a parser that accepts without consuming would spin: the contract). -/
theorem inline_loop_terminates : type_of% @GM.Props.C05a.loop_terminates := @GM.Props.C05a.loop_terminates
theorem inline_loop_fuel_suffices : type_of% @GM.Props.C05a.fuel_suffices := @GM.Props.C05a.fuel_suffices

/-- The closing-fence and ATX-open recognisers index their line safely for every line. -/
theorem fence_close_no_panic : type_of% @GM.Props.C02a.fence_close_noPanic := @GM.Props.C02a.fence_close_noPanic
theorem atx_open_no_panic : type_of% @GM.Props.C02a.atx_open_noPanic := @GM.Props.C02a.atx_open_noPanic

/-- The whole block phase (parseBlocks / openBlocks / closeBlocks with the ten block parsers, as modelled in
    GM.Model.Blocks and tied to the real parser by the `blocks` correspondence) terminates for EVERY byte string:
    neither line loop needs more than (number of newlines + 3) iterations and the container retry loop never
    exceeds its bound. -/
theorem block_phase_terminates : type_of% @GM.Props.Blocks.parseBlocks_fuel_suffices := @GM.Props.Blocks.parseBlocks_fuel_suffices
theorem block_phase_outcome : type_of% @GM.Props.Blocks.parseBlocks_outcome := @GM.Props.Blocks.parseBlocks_outcome

/-- The whole block phase returns a block tree for EVERY byte string: no Go run-time panic (index, slice, nil,
    type assertion, explicit) is reachable in parseBlocks / openBlocks / closeBlocks or in Open / Continue / Close of
    the ten default block parsers, and the BlockParser contract ("Open must advance the reader") is kept at every
    `goto retry` (the model's contract monitor never fires). Invariant proof over the model GM.Model.Blocks. -/
theorem block_phase_no_panic : type_of% @GM.Props.Blocks.no_panic := @GM.Props.Blocks.no_panic
theorem block_phase_never_errs : type_of% @GM.Props.Blocks.run_never_errs := @GM.Props.Blocks.run_never_errs
theorem block_phase_contract_kept : type_of% @GM.Props.Blocks.monitor_never_fires := @GM.Props.Blocks.monitor_never_fires

/-- The delimiter-processing loop of the INLINE PHASE (emphasis matching over the delimiter list, as modelled in
    GM.Model.Inlines and tied to the real parser by the `inlines` correspondence) terminates without a Go panic
    for every child list. (Termination/no-panic of the whole inline phase with the concrete parsers is stated in
    notes/status_inlines.md and not yet proved; none occurred on 16.6M sources.) -/
theorem process_delimiters_terminates : type_of% @GM.Props.Inlines.processDelimiters_terminates_no_panic := @GM.Props.Inlines.processDelimiters_terminates_no_panic

/-- The whole INLINE PHASE with the concrete default inline parsers (code span, emphasis + ProcessDelimiters, links and
    images with inline / full / collapsed / shortcut references, autolinks, raw HTML) returns a tree — no Go panic, no
    non-termination, none of the model's guards — for EVERY source, every padding-free well-formed segment list,
    every reference map and every Unicode-class assignment. -/
theorem inline_phase_total : type_of% @GM.Props.Inlines.parseBlock_total := @GM.Props.Inlines.parseBlock_total
/-- the link parser keeps the contract the loop relies on (consumes at least one byte when it returns a node,
    restores the reader otherwise, keeps the delimiter/label context invariant) -/
theorem link_parser_contract : type_of% @GM.Props.Inlines.link_parser_keeps_contract := @GM.Props.Inlines.link_parser_keeps_contract

/-- Block phase: blockquote.process, the paragraph parser's Open/Continue/Close, thematic-break Open and ATX Open never
    panic from any reader state satisfying the block-phase reader invariant. -/
theorem blockquote_process_total : type_of% @GM.Props.Blocks.blockquote_process_total_progress := @GM.Props.Blocks.blockquote_process_total_progress
theorem paragraph_open_total : type_of% @GM.Props.Blocks.paragraph_open_total := @GM.Props.Blocks.paragraph_open_total
theorem atx_open_total : type_of% @GM.Props.Blocks.atx_open_total := @GM.Props.Blocks.atx_open_total

/-- The Attribute option: `parser.ParseAttributes` from every reader offset of every byte string, the last-line scan
    `parseLastLineAttributes`, and ATX Open (+ Close of both heading parsers) with WithAttribute / WithAutoHeadingID
    never panic and terminate (package `attribute`). -/
theorem attribute_parser_total : type_of% @GM.Props.Attribute.parseAttributes_total := @GM.Props.Attribute.parseAttributes_total
theorem attribute_last_line_total : type_of% @GM.Props.Attribute.lastLineAttrs_total := @GM.Props.Attribute.lastLineAttrs_total
theorem attribute_heading_total : type_of% @GM.Props.Attribute.atx_heading_attrs_inv := @GM.Props.Attribute.atx_heading_attrs_inv

/-- The whole pipeline of the default CommonMark configuration (package `convert`): `convertCore` — block phase WITH the
    link reference paragraph transformer, inline phase of every non-raw block, HTML renderer, options Unsafe / XHTML /
    HardWraps — never ends in fuel exhaustion, for EVERY byte string; its outcome is HTML or a non-loop error; the block
    driver with ANY admissible list of paragraph transformers terminates. -/
theorem convert_never_loops : type_of% @GM.Props.Convert.convert_never_loops := @GM.Props.Convert.convert_never_loops
theorem convert_outcome : type_of% @GM.Props.Convert.convert_outcome := @GM.Props.Convert.convert_outcome
theorem block_phase_with_transformers_terminates : type_of% @GM.Props.Convert.block_phase_with_transformers_terminates :=
  @GM.Props.Convert.block_phase_with_transformers_terminates
theorem link_reference_scanner_total : type_of% @GM.Props.Convert.definition_scanner_total := @GM.Props.Convert.definition_scanner_total
theorem link_reference_scan_total : type_of% @GM.Props.Convert.transform_scan_total := @GM.Props.Convert.transform_scan_total
theorem link_reference_scan_never_loops : type_of% @GM.Props.Convert.transform_never_loops := @GM.Props.Convert.transform_never_loops

/-- (re-export of `GM.Props.ConvertE2E.convert_no_render_panic`) `convert_no_render_panic`. For EVERY source, Unicode class assignment and option set `convertCore` never ends in
    `Err.render k`: no node renderer function panics on parser output (`"0123456"[n.Level]` in renderHeading,
    `c.(*ast.Text)` in renderCodeSpan; the table-cell assertion needs the table extension). -/
theorem convert_no_render_panic : type_of% @GM.Props.ConvertE2E.convert_no_render_panic := @GM.Props.ConvertE2E.convert_no_render_panic

/-- (re-export of `GM.Props.ConvertE2E.convert_no_value_panic_partial`) `convert_no_value_panic_partial`. Given (a) the segments the inline phase records never carry a negative padding
    (`InlineSegsUnpadded`, a statement about `GM.Inl.parseBlock` on `WF0` lines) and (b) in the store the block phase
    returns for `src` the lines of raw blocks, fenced info segments and HTML closure lines are inside the source with
    non-negative padding (`RawSegsInRange`): `convertCore` never ends in `Err.value p`, for every Unicode class
    assignment and option set. The RANGE of the inline segments is not a hypothesis: it follows from the `WF0` check
    `convertCore` makes and the segment theorem of the inline phase. -/
theorem convert_no_value_panic_partial : type_of% @GM.Props.ConvertE2E.convert_no_value_panic_partial := @GM.Props.ConvertE2E.convert_no_value_panic_partial

/-- (package consts) the regular expressions, tag list, limits and marker bytes of parser/*.go are the ones the block / inline models were written against (obligations over the regenerated GM.Gen.Consts; `./check` names the constant when one changes) -/
theorem consts_html_block_regexps_tied : GM.Spec.Consts.allOk GM.Spec.Consts.htmlBlockRegexps = true := GM.Props.Consts.Parser.html_block_regexps_tied
/-- (package consts) `allowedBlockTags` and the type 2-5 closers of parser/html_block.go are the block model's -/
theorem consts_html_block_tags_tied : GM.Spec.Consts.allOk GM.Spec.Consts.htmlBlockTags = true := GM.Props.Consts.Parser.html_block_tags_tied
/-- (package consts) the raw-HTML tag expressions of parser/raw_html.go are the ones the inline model's matchers were written against -/
theorem consts_raw_html_regexps_tied : GM.Spec.Consts.allOk GM.Spec.Consts.rawHtmlRegexps = true := GM.Props.Consts.Parser.raw_html_regexps_tied
/-- (package consts) the autolink expressions and bounds of parser/auto_link.go are the inline model's -/
theorem consts_autolink_regexps_tied : GM.Spec.Consts.allOk GM.Spec.Consts.autolinkRegexps = true := GM.Props.Consts.Parser.autolink_regexps_tied
/-- (package consts) the numeric limits of the parsers (label length 999, list start 9 digits, indents 3/4, fence 3, ATX 6, ...) are the models' -/
theorem consts_limits_tied : GM.Spec.Consts.allOk GM.Spec.Consts.limits = true := GM.Props.Consts.Parser.limits_tied
/-- (package consts) bullet / delimiter / fence / heading / emphasis marker bytes are the models' -/
theorem consts_markers_tied : GM.Spec.Consts.allOk GM.Spec.Consts.markers = true := GM.Props.Consts.Parser.markers_tied

/-- (re-export of `GM.Props.ConvertNP.scan_total_and_ranges_adjacent`) **The ranges the transformer's scan hands to its second loop are adjacent from line 0 on, non-empty, and end inside the
    paragraph** — for every source, every paragraph whose lines are well-formed (`WFSegs`: inside the source, increasing,
    non-empty, paddings ≥ 0 — ANY paddings, i.e. also continuation lines behind a partly consumed tab inside a container)
    and none of which is blank (the paragraph parser never appends a blank line), every reference map. Moreover the scan
    itself is TOTAL on such lines: no Go panic (`line[pos]`, `Advance`, `Value`), no fuel exhaustion, the progress monitor
    of the model does not fire. True of the code since /repo 0539a73 (a definition leaves the reader at the start of the
    line behind it, or in front of white space only). -/
theorem link_reference_scan_total_and_adjacent : type_of% @GM.Props.ConvertNP.scan_total_and_ranges_adjacent := @GM.Props.ConvertNP.scan_total_and_ranges_adjacent

/-- (re-export of `GM.Props.ConvertNP.scan_ranges_adjacent`) **`GM.Props.Convert.ScanRangesAdjacent` is a theorem** (it was stated there as a `def … : Prop`): on a paragraph with
    well-formed padding-free non-blank lines the ranges the scan answers are adjacent from line 0 on and end inside the
    paragraph, so contract monitor (3) of `GM.LinkRef.finishLines` is unreachable. -/
theorem link_reference_ranges_adjacent : type_of% @GM.Props.ConvertNP.scan_ranges_adjacent := @GM.Props.ConvertNP.scan_ranges_adjacent

/-- (re-export of `GM.Props.ConvertNP.second_loop_total`) the second stage of Transform on what the scan answers: the monitor passes, no `slice` panic of
    `Sliced` / `SetSliced`, no stale-elements `pre`; the paragraph keeps its lines without the first `lastEnd` ones -/
theorem link_reference_second_loop_total : type_of% @GM.Props.ConvertNP.second_loop_total := @GM.Props.ConvertNP.second_loop_total

/-- (re-export of `GM.Props.ConvertNP.transform_scan_total_padded`) **the scan is total on well-formed lines with ANY paddings, blank lines allowed** (or on no lines): no Go panic, no fuel
    exhaustion, the progress monitor silent. (GM.Props.Convert.transform_scan_total has this for padding-free lines,
    transform_never_loops only termination for padded ones.) -/
theorem link_reference_scan_total_padded : type_of% @GM.Props.ConvertNP.transform_scan_total_padded := @GM.Props.ConvertNP.transform_scan_total_padded

/-- (re-export of `GM.Props.ConvertNP.transform_total`) **`linkReferenceParagraphTransformer.Transform` is total**: from EVERY block-phase state, on a node whose lines are fit
    for it (`TLinesOK`: no lines, or `WFSegs` with any paddings and no blank line) and that has a parent: no Go panic — the
    scan, `Sliced` / `SetSliced`, `node.Parent().ReplaceChild` —, no fuel exhaustion, none of the model's monitors; and
    what it does to the state is `PTPost`: the main reader is untouched, of the context only the reference map changes,
    the paragraph loses an initial segment of its lines and keeps one, or loses all and an empty TextBlock takes its
    place among its parent's children (link_ref.go:41-50). -/
theorem link_reference_transform_total : type_of% @GM.Props.ConvertNP.transform_total := @GM.Props.ConvertNP.transform_total

/-- (re-export of `GM.Props.ConvertNP.transform_total_or_monitor`) … and the whole of Transform on such a paragraph with a parent: `PTPost`, or contract monitor (3) answered `pre` — never a
    Go panic, never the fuel error. (With a blank line among the lines the monitor CAN fire: the example above.) -/
theorem link_reference_transform_total_or_monitor : type_of% @GM.Props.ConvertNP.transform_total_or_monitor := @GM.Props.ConvertNP.transform_total_or_monitor

/-- (re-export of `GM.Props.ConvertNP.default_transformers_contract`) **the transformer of the composition, `GM.LinkRef.guardedTransform` (Transform behind the run-time check `WFSegs`),
    never raises a Go panic and never exhausts fuel**, from any state, on any Paragraph node that has a parent: it ends as
    `PTPost` says, or answers `pre` (the check or monitor (3)). In the form the driver theorem consumes: `PTsSpec src pre` of
    the default transformer list of `GM.Convert.blockPhase true`. -/
theorem default_transformers_contract : type_of% @GM.Props.ConvertNP.default_transformers_contract := @GM.Props.ConvertNP.default_transformers_contract

/-- (re-export of `GM.Props.ConvertNP.guarded_transformer_contract`) **the contract of the guarded transformer** (`guardE e`: Transform behind the run-time check `linesOKB` of exactly the
    hypothesis above, the check answering `e`): on a Paragraph node that has a parent, from any state, it ends as `PTPost`
    says or answers `e` — for EVERY choice of `e`, so the check is the only source of an abnormal end. This is the
    hypothesis `PTsSpec` of the driver theorem. -/
theorem guarded_transformer_contract : type_of% @GM.Props.ConvertNP.guarded_transformer_contract := @GM.Props.ConvertNP.guarded_transformer_contract

/-- (re-export of `GM.Props.ConvertNP.no_underline_of_setext_free`) a decidable sufficient condition: the source has neither `-` nor `=` -/
theorem no_underline_of_setext_free : type_of% @GM.Props.ConvertNP.no_underline_of_setext_free := @GM.Props.ConvertNP.no_underline_of_setext_free

/-- (re-export of `GM.Props.ConvertNP.no_underline_of_check`) a decidable sufficient condition that allows `-` and `=`: the executable test `noBarB` (the views from every byte offset with
    the paddings 0..3; more than 3 leading spaces never make an underline) -/
theorem no_underline_of_check : type_of% @GM.Props.ConvertNP.no_underline_of_check := @GM.Props.ConvertNP.no_underline_of_check

/-- (re-export of `GM.Props.ConvertNP.block_phase_with_transformers_total_partial`) **the block driver with paragraph transformers is total, for EVERY list of transformers that keep the contract** — on every
    source without a setext underline (`NoUnderline`), ALL ten block parsers, lists included: `parseBlocks` with
    `transformParagraph` called from `closeBlocks` returns a tree all of whose line segments lie inside the source, or a
    transformer's run-time guard answered `e`. No Go panic of parseBlocks / openBlocks / closeBlocks / the block parsers / the
    tree surgery, no fuel exhaustion, and NEITHER contract monitor of the retry loop (`retryStepT` (1)/(2)) fires. `_partial`:
    on sources with an underline the RequireParagraph path is live; what its proof needs is in notes/status_tnopanic.md. -/
theorem block_phase_with_transformers_total_partial : type_of% @GM.Props.ConvertNP.block_phase_with_transformers_total_partial := @GM.Props.ConvertNP.block_phase_with_transformers_total_partial

/-- (re-export of `GM.Props.ConvertNP.block_phase_with_transformers_total_list_free`) the same from the list-free core of the proof (GM.Proof.BlocksTNP1/2/4/5: no list invariant; sources without
    `-` `=` `*` `+` and digits) — subsumed by the theorem above, kept because it is the readable core of the list-aware walk -/
theorem block_phase_with_transformers_total_list_free : type_of% @GM.Props.ConvertNP.block_phase_with_transformers_total_list_free := @GM.Props.ConvertNP.block_phase_with_transformers_total_list_free

/-- (re-export of `GM.Props.ConvertNP.block_phase_no_go_panic_partial`) **goal (c), partial — the block phase of the default pipeline never raises a Go panic** on such sources:
    `GM.Convert.blockPhase true src` (the link reference transformer behind its run-time check) returns a tree with all line
    segments in range, or answers `pre` — the outcome of the run-time check `WFSegs` and of contract monitor (3), the only
    abnormal ends left; every Go run-time panic of the model (`index`, `slice`, `nil`, `assert`, `explicit`) and the fuel error
    are excluded. -/
theorem block_phase_no_go_panic_partial : type_of% @GM.Props.ConvertNP.block_phase_no_go_panic_partial := @GM.Props.ConvertNP.block_phase_no_go_panic_partial

/-- (re-export of `GM.Props.ConvertNP.block_phase_total_modulo_guard_partial`) **goal (c), partial, in the form that composes with "the guard never fires"** (package `wf0`): with the transformer behind
    the check `linesOKB` (`WFSegs` ∧ no blank line) whose outcome `e` is a PARAMETER, the run ends normally or with `e` — for
    every `e`. Since `e` is arbitrary, the check is the only source of an abnormal end: if `runT [guardE e] src` is the same
    for two different `e` (e.g. because the check never fires), it is `.ok`. -/
theorem block_phase_total_modulo_guard_partial : type_of% @GM.Props.ConvertNP.block_phase_total_modulo_guard_partial := @GM.Props.ConvertNP.block_phase_total_modulo_guard_partial

/-- (re-export of `GM.Props.ConvertNP.monitors_never_fire_partial`) **goal (d), partial — none of the model's contract monitors fires** on such sources: with the guard's outcome chosen different
    from `pre` (the code every monitor answers: retry monitors (1)/(2) of `retryStepT`, the progress monitor of the scan, the
    stale-elements check of `removeLoop`, contract monitor (3) of `finishLines`), the run never ends in `pre` -/
theorem monitors_never_fire_partial : type_of% @GM.Props.ConvertNP.monitors_never_fire_partial := @GM.Props.ConvertNP.monitors_never_fire_partial

/-- (re-export of `GM.Props.ConvertNP.total_of_guard_irrelevant`) how the two results compose (no hypothesis on the source here): if the guard's outcome does not influence the run — what
    "the guard never fires" gives — then a run that ends "normally or with `e`" for every `e` ends normally -/
theorem total_of_guard_irrelevant : type_of% @GM.Props.ConvertNP.total_of_guard_irrelevant := @GM.Props.ConvertNP.total_of_guard_irrelevant

/-- (re-export of `GM.Props.Wf0.inline_bearing_wellformed`) the hand-over, as far as it is proved: every inline-bearing block of the final store has `WFSegs` lines (all of
    `WF0` but `padding = 0`) -/
theorem inline_handover_wellformed : type_of% @GM.Props.Wf0.inline_bearing_wellformed := @GM.Props.Wf0.inline_bearing_wellformed

/-- (re-export of `GM.Props.Wf0.inline_wf0_remaining`) **what the hand-over to the inline phase still needs**: with order, range, non-emptiness and "no ForceNewline"
    proved, `InlineLinesWF0 src` (every inline-bearing block has `WF0` lines) is equivalent to ONE fact: every line
    segment of an inline-bearing block of the final store has padding 0. -/
theorem inline_handover_remaining : type_of% @GM.Props.Wf0.inline_wf0_remaining := @GM.Props.Wf0.inline_wf0_remaining

/-- (re-export of `GM.Props.ConvertX.convertx_never_loops_partial`) `convertx_never_loops` for the member sets {} and {Table}: HTML, or an error that is not fuel exhaustion. -/
theorem convertx_never_loops_partial : type_of% @GM.Props.ConvertX.convertx_never_loops_partial := @GM.Props.ConvertX.convertx_never_loops_partial

/-- (re-export of `GM.Props.ConvertX.convertx_never_loops_of`) every member set: no fuel exhaustion, provided the inline phase of that member set never exhausts its fuel -/
theorem convertx_never_loops_of : type_of% @GM.Props.ConvertX.convertx_never_loops_of := @GM.Props.ConvertX.convertx_never_loops_of

/-- (re-export of `GM.Props.ConvertX.block_phase_x_terminates`) the block phase of EVERY member set terminates on every source: the table paragraph transformer is an admissible
    transformer of the block driver (reads the source, writes the node store: `PTOK`), so
    GM.Props.Convert.block_phase_with_transformers_terminates applies to [link references, table] -/
theorem block_phase_x_terminates : type_of% @GM.Props.ConvertX.block_phase_x_terminates := @GM.Props.ConvertX.block_phase_x_terminates

/-- (re-export of `GM.Props.ConvertX.table_transformer_admissible`) see `GM.Props.ConvertX.table_transformer_admissible` -/
theorem table_transformer_admissible : type_of% @GM.Props.ConvertX.table_transformer_admissible := @GM.Props.ConvertX.table_transformer_admissible

/-- (re-export of `GM.Props.ConvertE2E.block_store_info_closure_in_range`) `block_store_info_closure_in_range` (round 2: was part of hypothesis (b)). For EVERY source: in the store the
    block phase returns (guarded or not), the info segment of every FencedCodeBlock and the closure line of every
    HTMLBlock (`HasClosure()`) satisfy `0 ≤ start ≤ stop ≤ len(source)`, `padding ≥ 0`. A frame invariant that looks
    at the reader: whenever the source reader hands out a line it is `Value` of the position it hands out, and both
    segments are computed from a position handed out TOGETHER WITH a line. -/
theorem block_store_info_closure_in_range : type_of% @GM.Props.ConvertE2E.block_store_info_closure_in_range := @GM.Props.ConvertE2E.block_store_info_closure_in_range

/-- (re-export of `GM.Props.ConvertE2E.convert_no_value_panic_of_raw_lines`) `convert_no_value_panic_of_raw_lines`: `Err.value p` is unreachable given ONLY that the LINES of the raw blocks
    (CodeBlock / FencedCodeBlock / HTMLBlock) of the store are in range — a consequence of `GM.Blocks.NodesOK src st`,
    the conclusion of the no-panic theorems of the block phase. -/
theorem convert_no_value_panic_of_raw_lines : type_of% @GM.Props.ConvertE2E.convert_no_value_panic_of_raw_lines := @GM.Props.ConvertE2E.convert_no_value_panic_of_raw_lines

/-- (re-export of `GM.Props.ConvertE2E.convert_renderer_side_total_of_lines`) `convert_renderer_side_total_of_lines`: given that, `convertCore` only fails in the parse phases -/
theorem convert_renderer_side_total_of_lines : type_of% @GM.Props.ConvertE2E.convert_renderer_side_total_of_lines := @GM.Props.ConvertE2E.convert_renderer_side_total_of_lines

/-- (re-export of `GM.Props.ConvertE2E.inline_children_resolve`) `inline_children_resolve`: behind `convertCore`'s `WF0` check the inline children of EVERY block resolve to bytes —
    no `Segment.Value` panic of a node renderer comes from an inline node. Unconditional. -/
theorem inline_children_resolve : type_of% @GM.Props.ConvertE2E.inline_children_resolve := @GM.Props.ConvertE2E.inline_children_resolve

/-- (re-export of `GM.Props.ConvertE2E.convert_no_value_panic_of_raw_segments`) `convert_no_value_panic_of_raw_segments`: `Err.value p` is unreachable given ONLY hypothesis (b) — in the store the
    block phase returns, the lines of raw blocks, fenced info segments and HTML closure lines are in range -/
theorem convert_no_value_panic_of_raw_segments : type_of% @GM.Props.ConvertE2E.convert_no_value_panic_of_raw_segments := @GM.Props.ConvertE2E.convert_no_value_panic_of_raw_segments

/-- (re-export of `GM.Props.ConvertE2E.convert_renderer_side_total_partial`) `convert_renderer_side_total_partial`: given (b), `convertCore` can only fail in the parse phases — with a
    `blocks …`, `linesNotWF0` or `inlines …` outcome; the renderer side (`value`, `render`) is total. -/
theorem convert_renderer_side_total_partial : type_of% @GM.Props.ConvertE2E.convert_renderer_side_total_partial := @GM.Props.ConvertE2E.convert_renderer_side_total_partial

/-- (re-export of `GM.Props.Wf0.inline_lines_wf0`) **`InlineLinesWF0`, every source** (the premise `GM.Props.Blocks.InlineLinesWF0 src` of the end-to-end theorems is
    a theorem): when the block phase returns, the lines of every inline-bearing block of the store (not raw, with at
    least one line) are `WF0` — non-empty segments inside the source that increase, padding 0, no ForceNewline. -/
theorem inline_lines_wf0 : type_of% @GM.Props.Wf0.inline_lines_wf0 := @GM.Props.Wf0.inline_lines_wf0

/-- (re-export of `GM.Props.Wf0.nonraw_lines_padding_zero`) **padding 0 at the end, every source.** When the block phase returns, every line segment of every block of the
    store that is not raw has padding 0: each Paragraph / setext heading was handed to its parser's `Close`
    (paragraphParser.Close trims the lines and resets the padding) before the run ended, and the lines that setext /
    list `Close` copy into Headings / TextBlocks are copied from closed paragraphs. -/
theorem nonraw_lines_padding_zero : type_of% @GM.Props.Wf0.nonraw_lines_padding_zero := @GM.Props.Wf0.nonraw_lines_padding_zero

/-- (re-export of `GM.Props.Wf0.open_stack_empty_at_end`) **the open-block stack is empty when the block phase returns**, every source: every block that was pushed has
    been popped by `closeBlocks` (which hands it to `Close`: see `close_blocks_discipline`). -/
theorem open_stack_empty_at_end : type_of% @GM.Props.Wf0.open_stack_empty_at_end := @GM.Props.Wf0.open_stack_empty_at_end

/-- (re-export of `GM.Props.C16E2E.convertf_never_loops_of`) **No fuel exhaustion, relative to the two phase loops**: when the block phase with the footnote block parser and the
    inline loop over the table with the footnote parser never exhaust their fuel, `convertF true` never does (the
    transformer is a total function; the renderer has no fuel). -/
theorem convertf_never_loops_of : type_of% @GM.Props.C16E2E.convertf_never_loops_of := @GM.Props.C16E2E.convertf_never_loops_of

/-- (re-export of `GM.Props.C16E2E.convertf_never_loops_partial`) with the extension off: never, unconditionally (it is `convertCore`) -/
theorem convertf_never_loops_partial : type_of% @GM.Props.C16E2E.convertf_never_loops_partial := @GM.Props.C16E2E.convertf_never_loops_partial

/-- (re-export of `GM.Props.C16E2E.convertf_never_loops_conservative`) … hence `convertF` never exhausts fuel on a source without `[^` -/
theorem convertf_never_loops_conservative : type_of% @GM.Props.C16E2E.convertf_never_loops_conservative := @GM.Props.C16E2E.convertf_never_loops_conservative

/-- (re-export of `GM.Props.C16E2E.convertf_inline_phase_without_list_total`) C01 for that inline phase: TOTAL — children, no Go panic, no fuel exhaustion, no monitor (GM.Proof.InlinesLink.parseBlock_total
    carried over by the equality above) -/
theorem convertf_inline_phase_without_list_total : type_of% @GM.Props.C16E2E.convertf_inline_phase_without_list_total := @GM.Props.C16E2E.convertf_inline_phase_without_list_total

/-- (re-export of `GM.Props.ConvertE2ENT.convert_total_without_transformers`) **`convert_total_without_transformers`** — for EVERY byte string, every Unicode class assignment and every renderer
    option set, the pipeline without paragraph transformers answers HTML: no Go panic of the block phase (all ten
    parsers), none of the inline phase, no `Segment.Value` panic while a node renderer resolves a segment, no node
    renderer panic; the run-time `WF0` check on the lines handed to the inline phase passes; no fuel bound, contract
    monitor or modelling precondition is hit. -/
theorem convert_total_without_transformers : type_of% @GM.Props.ConvertE2ENT.convert_total_without_transformers := @GM.Props.ConvertE2ENT.convert_total_without_transformers

/-- (re-export of `GM.Props.ConvertE2ENT.convert_total_of_block_facts`) **`convert_total_of_block_facts`** — the interface to the block-phase packages (tnopanic: `block_phase_total`,
    `block_phase_lines_wellformed`; wf0: the close discipline). `convertCore` answers HTML on every source on which the
    block phase with the link-reference transformer answers a store in which (i) every line is in range, (ii) the lines of
    every non-raw block with lines are `WFSegs`, (iii) every line of a non-raw block has padding 0. CAUTION: (iii) store-wide is FALSE for the driver with
    transformers on some sources (see `convert_total_of_tree_facts`); this form is for drivers without them. Nothing else about the
    block phase is needed: the info / closure segments, heading levels and the root are frame invariants of this package,
    the inline phase is total on `WF0` lines, its segments resolve, no node renderer panics. -/
theorem convert_total_of_block_facts : type_of% @GM.Props.ConvertE2ENT.convert_total_of_block_facts := @GM.Props.ConvertE2ENT.convert_total_of_block_facts

/-- (re-export of `GM.Props.ConvertE2ENT.convert_total_of_tree_facts`) **`convert_total_of_tree_facts`** — the same interface in TREE form. The store of the driver WITH transformers contains
    nodes that are not in the tree (a Paragraph that was transformed away; a setext Heading abandoned on the `goto retry`
    behind it keeps a padded line: tnopanic's witness `> [a]: /u⏎>⇥===⏎`), so "padding 0" is only true of attached nodes —
    and `docTree` only visits the tree: (iii) is needed of the non-raw nodes that are somebody's child, and the Document has
    no lines. -/
theorem convert_total_of_tree_facts : type_of% @GM.Props.ConvertE2ENT.convert_total_of_tree_facts := @GM.Props.ConvertE2ENT.convert_total_of_tree_facts

/-- (re-export of `GM.Props.ConvertE2ENT.convert_total_of_block_phase_theorems`) **`convert_total_of_block_phase_theorems`** — C01 END TO END for the default pipeline from statements about its block
    phase, in the shapes package tnopanic states / announces them (`GM.Props.ConvertNP.block_phase_total`,
    `block_phase_lines_wellformed`, and the tree-walk form of the close discipline): the block phase with the link-reference
    transformer always answers a store with `NodesOK`; the lines of its non-raw blocks are `WFSegs`; every line of a non-raw
    node that is somebody's child has padding 0; the Document has no lines. Then for EVERY byte string, Unicode-class
    assignment and option set `convertCore` answers HTML — no error outcome of any phase. -/
theorem convert_total_of_block_phase_theorems : type_of% @GM.Props.ConvertE2ENT.convert_total_of_block_phase_theorems := @GM.Props.ConvertE2ENT.convert_total_of_block_phase_theorems

/-- (re-export of `GM.Props.ConvertE2ENT.convert_total_of_store`) `convert_total_of_store`: the DEFAULT pipeline answers HTML on every source on which its block phase (with the
    link-reference transformer) answers a store whose raw segments are in range and whose inline-bearing blocks have `WF0`
    lines (`StoreTot`) — what remains of C01 for `convertCore` is exactly "the block phase with the transformer answers
    such a store". -/
theorem convert_total_of_store : type_of% @GM.Props.ConvertE2ENT.convert_total_of_store := @GM.Props.ConvertE2ENT.convert_total_of_store

/-- (re-export of `GM.Props.ConvertE2ENT.convert_total_of_block_phase_agreement`) `convert_total_of_block_phase_agreement`: `convertCore` answers HTML on every source on which the block phase with
    the link-reference transformer ends with the node store of the transformer-free one (sources without `[`, once "a
    Paragraph handed to a transformer has WF lines" is carried through the driver with transformers). -/
theorem convert_total_of_block_phase_agreement : type_of% @GM.Props.ConvertE2ENT.convert_total_of_block_phase_agreement := @GM.Props.ConvertE2ENT.convert_total_of_block_phase_agreement

/-- (re-export of `GM.Props.ConvertE2ENT.store_of_plain_driver_is_total`) `store_of_plain_driver_is_total`: the store of the transformer-free block phase has `StoreTot`, every source -/
theorem store_of_plain_driver_is_total : type_of% @GM.Props.ConvertE2ENT.store_of_plain_driver_is_total := @GM.Props.ConvertE2ENT.store_of_plain_driver_is_total

/-- (re-export of `GM.Props.ConvertE2ENT.convert_with_is_convertT`) `convert_with_is_convertT`: the composed model is the instance `pts = paragraphTransformers guard` -/
theorem convert_with_is_convertT : type_of% @GM.Props.ConvertE2ENT.convert_with_is_convertT := @GM.Props.ConvertE2ENT.convert_with_is_convertT

/-- (re-export of `GM.Props.ConvertE2ENT.convert_bracket_free`) **`convert_bracket_free`** — for EVERY source without `[`: `convertCore` answers what the pipeline without paragraph
    transformers answers (which is always HTML), or it ends in a block-phase error -/
theorem convert_bracket_free : type_of% @GM.Props.ConvertE2ENT.convert_bracket_free := @GM.Props.ConvertE2ENT.convert_bracket_free

/-- (re-export of `GM.Props.ConvertE2ENT.convert_total_bracket_free`) **`convert_total_bracket_free`** — with "the block phase of the default pipeline never errs" (tnopanic `block_phase_total`),
    `convertCore` answers HTML on every source without `[` — and it is the HTML of the pipeline without transformers -/
theorem convert_total_bracket_free : type_of% @GM.Props.ConvertE2ENT.convert_total_bracket_free := @GM.Props.ConvertE2ENT.convert_total_bracket_free

/-- (re-export of `GM.Props.ConvertE2E.driver_with_no_transformers_is_plain_driver`) `driver_with_no_transformers_is_plain_driver`: `runT [] = run`, for EVERY source — the block driver WITH paragraph
    transformers (GM.Model.Blocks.DriverT, what `convertCore` runs) instantiated with the empty list IS the driver of
    GM.Model.Blocks.Driver (what GM.Props.Blocks / C01 / C05 / C08 / C09 / wf0 speak about), as final states and as error
    outcomes. Mechanised function by function (`tryParsersT`, the retry loop, the two line loops); the two differ by the dead
    `retryTransformed` branch and the `tdone` flag only. So every `run` theorem is a theorem about `runT []`. -/
theorem driver_with_no_transformers_is_plain_driver : type_of% @GM.Props.ConvertE2E.driver_with_no_transformers_is_plain_driver := @GM.Props.ConvertE2E.driver_with_no_transformers_is_plain_driver

/-- (re-export of `GM.Props.ConvertE2E.block_phase_bracket_free`) **`block_phase_bracket_free`** — for EVERY source without the byte `[` and both settings of the run-time check: the block phase
    of the default pipeline (driver WITH the link-reference transformer) answers exactly what the block phase WITHOUT paragraph
    transformers answers — the same final state (reader, node store, parse context, reference map) — or it ends in an error.
    (With `block_phase_total` of package tnopanic, which excludes the error, this is the equality
    `blockPhase true src = GM.Blocks.run src`.) Proof (GM.Proof.E2ERel): the two drivers are run side by side; the invariants
    that make the transformer silent at its two call sites are carried along — the source is fixed, every Paragraph has a line
    (`PNE`), the open-block stack is consistent (`J2`, so `RequireParagraph` closes the paragraph with `paragraphParser.Close`,
    which keeps a paragraph that has a line attached: `transformed` is false on both sides). -/
theorem block_phase_bracket_free : type_of% @GM.Props.ConvertE2E.block_phase_bracket_free := @GM.Props.ConvertE2E.block_phase_bracket_free

/-- (re-export of `GM.Props.ConvertE2E.open_block_stack_consistent_and_paragraphs_have_lines`) **`open_block_stack_consistent_and_paragraphs_have_lines`** — for EVERY source: in the store the block phase WITHOUT
    transformers returns, every block of the open-block stack has a node of the kind its parser builds (`J2`) and every
    Paragraph node has at least one line (`PNE`). (Invariants that are not blind to the parse context / the lines: a fourth
    walk, GM.Proof.E2EPara.) -/
theorem open_block_stack_consistent_and_paragraphs_have_lines : type_of% @GM.Props.ConvertE2E.open_block_stack_consistent_and_paragraphs_have_lines := @GM.Props.ConvertE2E.open_block_stack_consistent_and_paragraphs_have_lines

/-- (re-export of `GM.Props.ConvertE2E.link_reference_scan_finds_nothing_without_bracket`) `link_reference_scan_finds_nothing_without_bracket`: on a source without the byte `[` the first loop of
    `linkReferenceParagraphTransformer.Transform` (link_ref.go:20-31), run on ANY list of line segments and any reference
    map, removes nothing and registers nothing — whenever it answers at all. (Every line the block reader hands out
    consists of source bytes, padding spaces and a newline, so `line[pos] != '['`, link_ref.go:73.) -/
theorem link_reference_scan_finds_nothing_without_bracket : type_of% @GM.Props.ConvertE2E.link_reference_scan_finds_nothing_without_bracket := @GM.Props.ConvertE2E.link_reference_scan_finds_nothing_without_bracket

/-- (re-export of `GM.Props.ConvertE2E.link_reference_transformer_silent_without_bracket`) `link_reference_transformer_silent_without_bracket`: from EVERY block-phase state over a source without `[`, on a
    node that HAS at least one line, the paragraph transformer of `blockPhase guard` returns the state UNCHANGED (reader,
    node store, reference map, open blocks) or ends in an error outcome. -/
theorem link_reference_transformer_silent_without_bracket : type_of% @GM.Props.ConvertE2E.link_reference_transformer_silent_without_bracket := @GM.Props.ConvertE2E.link_reference_transformer_silent_without_bracket

/-- (re-export of `GM.Props.ConvertE2E.link_reference_transformer_not_silent_on_lineless_paragraph`) `link_reference_transformer_not_silent_on_lineless_paragraph` (the NEGATION of "the transformer declines on every
    state over a source without `[`", on a witness; reproduced on /repo by calling `Transform` on an attached
    `ast.NewParagraph()` without lines: the Document's child becomes a TextBlock). On `witnessSt` — empty source, a
    Document whose only child is a Paragraph WITHOUT lines — the guarded transformer succeeds and changes the tree: a
    fresh TextBlock takes the paragraph's place (link_ref.go:41-47), the paragraph is detached. Hence carrying `run`
    theorems over to `blockPhase` on such sources needs the driver invariant "a Paragraph handed to
    `transformParagraph` (parser.go:904-907, 985-997) has a line", not only the byte condition. -/
theorem link_reference_transformer_not_silent_on_lineless_paragraph : type_of% @GM.Props.ConvertE2E.link_reference_transformer_not_silent_on_lineless_paragraph := @GM.Props.ConvertE2E.link_reference_transformer_not_silent_on_lineless_paragraph

/-- (re-export of `GM.Props.ConvertNP.block_phase_with_transformers_total`) **The block driver with paragraph transformers is total, for EVERY byte string and EVERY list of transformers that keep the
    contract** (`PTsSpec src e pts`: a call on a Paragraph with a parent ends as `PTPost` says or answers the guard's outcome `e`;
    `PTsOK pts`: no transformer exhausts fuel): `parseBlocks` with `transformParagraph` called where parser.go calls it —
    `closeBlocks` (parser.go:904-907) and the RequireParagraph path of `openBlocks` (985-997: `Close` the paragraph, pop it,
    transform it, `continuable = false; goto retry` when it has been transformed away) — returns a tree all of whose line segments
    lie inside the source and whose Lists only have ListItem children, or a transformer's guard answered `e`. No Go panic of
    parseBlocks / openBlocks / closeBlocks / the ten block parsers / the tree surgery (incl. `setextHeadingParser.Close` on a
    transformed paragraph and the stale slice read `openedBlocks[lastIndex]` behind a transformed retry), no fuel exhaustion,
    and NEITHER contract monitor of the retry loop (`retryStepT` (1)/(2)) fires. New invariants (GM.Proof.BlocksTNP20-25): parent
    pointers and children lists agree (`TreeOK`), the last opened leaf is the last child of its parent (so the `else` of
    `last == parent.LastChild()` is dead), `temporaryParagraphKey` is only constrained while a setext block is open. -/
theorem block_phase_with_transformers_total : type_of% @GM.Props.ConvertNP.block_phase_with_transformers_total := @GM.Props.ConvertNP.block_phase_with_transformers_total

/-- (re-export of `GM.Props.ConvertNP.block_phase_no_go_panic`) **goal (c) — the block phase of the default pipeline never raises a Go panic, for EVERY byte string**:
    `GM.Convert.blockPhase true src` (the link reference transformer behind its run-time check) returns a tree, or answers `pre` —
    the outcome of the run-time check `WFSegs` and of contract monitor (3), the only abnormal ends left; every Go run-time panic of
    the model (`index`, `slice`, `nil`, `assert`, `explicit`) and the fuel error are excluded. -/
theorem block_phase_no_go_panic : type_of% @GM.Props.ConvertNP.block_phase_no_go_panic := @GM.Props.ConvertNP.block_phase_no_go_panic

/-- (re-export of `GM.Props.ConvertNP.block_phase_total_modulo_guard`) **goal (c) in the form that composes with "the guard never fires"**: with the transformer behind the check `linesOKB`
    (`WFSegs` ∧ no blank line) whose outcome `e` is a PARAMETER, every run ends normally or with `e` — for every `e` and every byte
    string -/
theorem block_phase_total_modulo_guard : type_of% @GM.Props.ConvertNP.block_phase_total_modulo_guard := @GM.Props.ConvertNP.block_phase_total_modulo_guard

/-- (re-export of `GM.Props.ConvertNP.monitors_never_fire`) **goal (d) — none of the model's contract monitors fires, for EVERY byte string**: with the guard's outcome chosen different
    from `pre` (the code every monitor answers: retry monitors (1)/(2) of `retryStepT`, the progress monitor of the scan, the
    stale-elements check of `removeLoop`, contract monitor (3) of `finishLines`), no run ends in `pre` -/
theorem monitors_never_fire : type_of% @GM.Props.ConvertNP.monitors_never_fire := @GM.Props.ConvertNP.monitors_never_fire

/-- (re-export of `GM.Props.ConvertNP.guard_never_fires`) **The run-time check in front of the transformer never fires, for EVERY byte string**: the block phase with the guarded
    transformer (`guardE e`: check `WFSegs` ∧ no blank line, outcome `e`) IS the block phase with the bare `Transform`, whatever
    `e`. Invariant carried through the whole driver with transformers, RequireParagraph path included (GM.Proof.BlocksTNO6-10,
    wf0's `Inv` re-done next to the no-panic walk): the lines of every non-raw block increase, every segment is non-empty, every
    line of a Paragraph holds a non-space byte; `Transform` only drops a prefix of the lines (`PTPost`); the setext heading takes
    the lines of a paragraph that still has some. -/
theorem guard_never_fires : type_of% @GM.Props.ConvertNP.guard_never_fires := @GM.Props.ConvertNP.guard_never_fires

/-- (re-export of `GM.Props.ConvertNP.block_phase_total`) **C01, block phase of the default pipeline, for EVERY byte string: `GM.Convert.blockPhase true src` returns a tree** — no Go
    run-time panic, no fuel exhaustion, no contract monitor, and the run-time check `WFSegs` of `guardedTransform` does not fire —
    all of whose line segments lie inside the source and whose Lists only have ListItem children. -/
theorem block_phase_total : type_of% @GM.Props.ConvertNP.block_phase_total := @GM.Props.ConvertNP.block_phase_total

/-- (re-export of `GM.Props.ConvertNP.block_phase_guard_is_observer`) the run-time check of the composition is an observer: with and without it the block phase is the same function -/
theorem block_phase_guard_is_observer : type_of% @GM.Props.ConvertNP.block_phase_guard_is_observer := @GM.Props.ConvertNP.block_phase_guard_is_observer

/-- (re-export of `GM.Props.ConvertNP.transform_run_total`) the block phase with the bare transformer (`blockPhase false`) returns a tree for every byte string -/
theorem transform_run_total : type_of% @GM.Props.ConvertNP.transform_run_total := @GM.Props.ConvertNP.transform_run_total

/-- (re-export of `GM.Props.ConvertNP.transform_run_lines_wellformed`) **C05(c) for the store the block phase WITH the transformer returns, every byte string**: the lines of every non-raw block
    increase, segments are non-empty without ForceNewline, `WFSegs` when there are lines; every line of a Paragraph holds a
    non-space byte (wf0's `inline_lines_wellformed` for `run`, now for `runT`) -/
theorem transform_run_lines_wellformed : type_of% @GM.Props.ConvertNP.transform_run_lines_wellformed := @GM.Props.ConvertNP.transform_run_lines_wellformed

/-- (re-export of `GM.Props.ConvertNP.block_phase_lines_wellformed`) … for `blockPhase true` itself -/
theorem block_phase_lines_wellformed : type_of% @GM.Props.ConvertNP.block_phase_lines_wellformed := @GM.Props.ConvertNP.block_phase_lines_wellformed

/-- (re-export of `GM.Props.ConvertNP.guard_never_fires_no_underline`) **the run-time check in front of the transformer never fires** — on every source without a setext underline: the block phase
    with the guarded transformer IS the block phase with the bare `Transform`, whatever the guard would answer. Invariant (wf0's
    `Inv` carried through the driver with transformers, GM.Proof.BlocksTNO1-5): the lines of every non-raw block increase, every
    segment is non-empty, every line of a Paragraph holds a non-space byte; a transformer call (`PTPost`) only drops a prefix of the
    lines, so all of it survives. -/
theorem guard_never_fires_no_underline : type_of% @GM.Props.ConvertNP.guard_never_fires_no_underline := @GM.Props.ConvertNP.guard_never_fires_no_underline

/-- (re-export of `GM.Props.ConvertNP.transform_run_total_no_underline`) … hence **the block phase with the bare transformer ends normally** on such sources: no guard, no monitor, no panic -/
theorem transform_run_total_no_underline : type_of% @GM.Props.ConvertNP.transform_run_total_no_underline := @GM.Props.ConvertNP.transform_run_total_no_underline

/-- (re-export of `GM.Props.ConvertNP.block_phase_total_no_underline`) … and **C01 for the block phase of the default pipeline, unconditional on such sources**: `blockPhase true src` returns a tree;
    the run-time check is an observer (`blockPhase true = blockPhase false`) -/
theorem block_phase_total_no_underline : type_of% @GM.Props.ConvertNP.block_phase_total_no_underline := @GM.Props.ConvertNP.block_phase_total_no_underline

/-- (re-export of `GM.Props.ConvertNP.block_phase_guard_is_observer_no_underline`) see `GM.Props.ConvertNP.block_phase_guard_is_observer_no_underline` -/
theorem block_phase_guard_is_observer_no_underline : type_of% @GM.Props.ConvertNP.block_phase_guard_is_observer_no_underline := @GM.Props.ConvertNP.block_phase_guard_is_observer_no_underline

/-- (re-export of `GM.Props.ConvertNP.transform_run_lines_wellformed_no_underline`) the C05(c) facts for the store the block phase WITH the transformer returns (such sources): the lines of every non-raw block
    increase, segments are non-empty without ForceNewline, `WFSegs` when there are lines; every line of a Paragraph holds a non-space
    byte -/
theorem transform_run_lines_wellformed_no_underline : type_of% @GM.Props.ConvertNP.transform_run_lines_wellformed_no_underline := @GM.Props.ConvertNP.transform_run_lines_wellformed_no_underline

/-- (re-export of `GM.Props.ConvertNP.block_phase_store_shape_partial`) the same with the list shape of the returned store exported (`KidsOK`: the children of a List are ListItems with offset ≥ 0,
    a node whose parent is a List is a ListItem) — what the end-to-end C05 statement of package `e2e` consumes -/
theorem block_phase_store_shape_partial : type_of% @GM.Props.ConvertNP.block_phase_store_shape_partial := @GM.Props.ConvertNP.block_phase_store_shape_partial

/-- (re-export of `GM.Props.ConvertNP.block_phase_lines_closed`) **Every non-raw block of the store `blockPhase true` returns has padding 0 on all its lines — unless it is a PARENTLESS
    Heading** (wf0's close discipline `nonraw_lines_padding_zero`, carried through the driver with transformers,
    GM.Proof.BlocksTNO11-17). The exception is real: see `abandoned_heading_keeps_padding`. -/
theorem block_phase_lines_closed : type_of% @GM.Props.ConvertNP.block_phase_lines_closed := @GM.Props.ConvertNP.block_phase_lines_closed

/-- (re-export of `GM.Props.ConvertNP.block_phase_child_lines_padding_zero`) the tree-walk form (what `walkBlock` / the inline phase visit): every entry of a child list has that parent and, when it is
    not raw, padding 0 on all its lines -/
theorem block_phase_child_lines_padding_zero : type_of% @GM.Props.ConvertNP.block_phase_child_lines_padding_zero := @GM.Props.ConvertNP.block_phase_child_lines_padding_zero

/-- (re-export of `GM.Props.ConvertNP.block_phase_lines_padding_zero`) the conjunction package `e2e` composes with (`GM.Props.ConvertE2ENT.convert_total_of_block_phase_theorems`): children of any
    node are padding-free when not raw, and the Document node has no lines -/
theorem block_phase_lines_padding_zero : type_of% @GM.Props.ConvertNP.block_phase_lines_padding_zero := @GM.Props.ConvertNP.block_phase_lines_padding_zero

/-- (re-export of `GM.Props.ConvertNP.block_phase_container_nodes_have_no_lines`) Document, Blockquote, List, ListItem and ThematicBreak nodes have no lines; node 0 is the Document; the open-block stack is
    empty at the end; parent pointers and child lists agree (`TreeOK`) -/
theorem block_phase_container_nodes_have_no_lines : type_of% @GM.Props.ConvertNP.block_phase_container_nodes_have_no_lines := @GM.Props.ConvertNP.block_phase_container_nodes_have_no_lines

/-- (re-export of `GM.Props.ConvertNP.block_phase_root_is_document`) see `GM.Props.ConvertNP.block_phase_root_is_document` -/
theorem block_phase_root_is_document : type_of% @GM.Props.ConvertNP.block_phase_root_is_document := @GM.Props.ConvertNP.block_phase_root_is_document

/-- (re-export of `GM.Props.ConvertNP.block_phase_stack_empty_at_end`) see `GM.Props.ConvertNP.block_phase_stack_empty_at_end` -/
theorem block_phase_stack_empty_at_end : type_of% @GM.Props.ConvertNP.block_phase_stack_empty_at_end := @GM.Props.ConvertNP.block_phase_stack_empty_at_end

/-- (re-export of `GM.Props.ConvertNP.block_phase_tree_consistent`) see `GM.Props.ConvertNP.block_phase_tree_consistent` -/
theorem block_phase_tree_consistent : type_of% @GM.Props.ConvertNP.block_phase_tree_consistent := @GM.Props.ConvertNP.block_phase_tree_consistent

/-- (re-export of `GM.Props.ConvertNP.abandoned_heading_keeps_padding`) **"padding 0 on every non-raw node of the store" is FALSE for the driver with transformers** (kernel-evaluated witness):
    in `> [a]: /u⏎>⇥===⏎` setextHeadingParser.Open builds a Heading on the tab-padded underline (segment 12..16, padding 2), the
    paragraph is transformed away, `continuable = false; goto retry` — the Heading is abandoned: it stays in the store, parentless,
    with its padded line (Go: garbage; never visited by `walkBlock`). -/
theorem abandoned_heading_keeps_padding : type_of% @GM.Props.ConvertNP.abandoned_heading_keeps_padding := @GM.Props.ConvertNP.abandoned_heading_keeps_padding

/-- (re-export of `GM.Props.ConvertNP.block_phase_lines_ordered`) **C05(c) order clause for the store `blockPhase true` returns, EVERY node, raw kinds included** (CodeBlock / FencedCodeBlock /
    HTMLBlock: wf0's `PadL` / `RawC` machinery of `BlocksOrdRaw` carried through the driver with transformers): the line segments
    of every node increase -/
theorem block_phase_lines_ordered : type_of% @GM.Props.ConvertNP.block_phase_lines_ordered := @GM.Props.ConvertNP.block_phase_lines_ordered

/-- (re-export of `GM.Props.ConvertNP.block_phase_raw_lines_ordered`) see `GM.Props.ConvertNP.block_phase_raw_lines_ordered` -/
theorem block_phase_raw_lines_ordered : type_of% @GM.Props.ConvertNP.block_phase_raw_lines_ordered := @GM.Props.ConvertNP.block_phase_raw_lines_ordered

/-- (re-export of `GM.Props.ConvertE2ENP.convert_total`) **C01 END TO END**: `convertCore` answers HTML for every byte string, every Unicode-class assignment and every option
    set — no error outcome of any phase of the composed model -/
theorem convert_total : type_of% @GM.Props.ConvertE2ENP.convert_total := @GM.Props.ConvertE2ENP.convert_total

/-- (re-export of `GM.Props.ConvertE2ENP.convert_never_errs`) no outcome other than HTML -/
theorem convert_never_errs : type_of% @GM.Props.ConvertE2ENP.convert_never_errs := @GM.Props.ConvertE2ENP.convert_never_errs

/-- (re-export of `GM.Props.ConvertE2ENP.block_phase_bracket_free_eq`) **on a source without `[` the block phase of the default pipeline IS the block phase without paragraph transformers** -/
theorem block_phase_bracket_free_eq : type_of% @GM.Props.ConvertE2ENP.block_phase_bracket_free_eq := @GM.Props.ConvertE2ENP.block_phase_bracket_free_eq

/-- (re-export of `GM.Props.ConvertX.convertx_never_loops`) `convertx_never_loops` — for EVERY member set, every source, renderer option set and Unicode class assignment: `convertX`
    answers HTML or an error that is not fuel exhaustion (`blocks loop` / `inlines loop`). The inline phase: the totality proof
    of the default inline loop carried over to the open trigger table (GM.Proof.ConvertXTotal: `scanX_total`, `lineLoopX_total`),
    with the contracts of the strikethrough and the task-checkbox parser proved directly and the contract of the link parser
    over both delimiter processors obtained from GM.Proof.InlinesLink.link_contract through a relabelling of emphasis levels
    (GM.Proof.ConvertXRelv: the inline model is blind to levels; the generalised ProcessDelimiters / link parser are the default
    ones up to a relabelling that sends the representation of a Strikethrough made by `c` tildes to level `c`). -/
theorem convertx_never_loops : type_of% @GM.Props.ConvertX.convertx_never_loops := @GM.Props.ConvertX.convertx_never_loops

/-- (re-export of `GM.Props.ConvertX.inline_loop_x_total`) the inline loop of a block under ANY member set FINISHES behind the run-time check (no fuel exhaustion, no Go panic, no
    broken modelling invariant in the loop; what remains of parseBlock is the final ProcessDelimiters, which answers a child
    list or `pre`) -/
theorem inline_loop_x_total : type_of% @GM.Props.ConvertX.inline_loop_x_total := @GM.Props.ConvertX.inline_loop_x_total

/-- (re-export of `GM.Props.ConvertL.convertl_never_loops`) `convertl_never_loops`. For ALL 16 member sets of {Strikethrough, TaskList, Table, Linkify} — `extension.GFM` among them —,
    every source, option set, class assignment: `convertL` answers HTML or an error that is not fuel exhaustion. The Linkify
    parser keeps the contract of the inline loop (`linkify_contract`: a match of the hand-matched expressions lies inside the
    peeked line — `matchURL_bounds`, `matchWWW_bounds`, `findEmailIndex_le` —, the three trailing-character rules and the
    e-mail path ANSWER — no `line[-1]`, no `line[-1:…]` — and leave at least one byte, so a returned node has consumed input);
    the totality proof of the open-table loop covers a non-empty entry of ' ' (white space, a non-punctuation line head). -/
theorem convertl_never_loops : type_of% @GM.Props.ConvertL.convertl_never_loops := @GM.Props.ConvertL.convertl_never_loops

/-- (re-export of `GM.Props.ConvertL.convertgfm_never_loops`) see `GM.Props.ConvertL.convertgfm_never_loops` -/
theorem convertgfm_never_loops : type_of% @GM.Props.ConvertL.convertgfm_never_loops := @GM.Props.ConvertL.convertgfm_never_loops

/-- (re-export of `GM.Props.ConvertL.inline_loop_l_total`) the inline loop of a block under any of the 16 member sets FINISHES behind the run-time check: no Go panic of any parser —
    in particular none of `(*linkifyParser).Parse`'s unguarded index expressions —, no fuel exhaustion -/
theorem inline_loop_l_total : type_of% @GM.Props.ConvertL.inline_loop_l_total := @GM.Props.ConvertL.inline_loop_l_total

/-- (re-export of `GM.Props.ConvertE2EAll.no_renderer_side_panic`) `no_renderer_side_panic` — the statement `GM.Props.ConvertE2E.NoRendererSidePanic` (kept there as a `def`) is a theorem -/
theorem no_renderer_side_panic : type_of% @GM.Props.ConvertE2EAll.no_renderer_side_panic := @GM.Props.ConvertE2EAll.no_renderer_side_panic

/-- (re-export of `GM.Props.ConvertXE2E.convertl_total_no_table`) **`convertl_total_no_table`** (C01 end to end, 8 member sets): with Table off — Strikethrough, TaskList, Linkify in any
    combination — `convertL` answers HTML for every source, class assignment and option set. -/
theorem convertl_total_no_table : type_of% @GM.Props.ConvertXE2E.convertl_total_no_table := @GM.Props.ConvertXE2E.convertl_total_no_table

/-- (re-export of `GM.Props.ConvertXE2E.convertx_total`) **`convertx_total`** (goal 1): the member sets of {Strikethrough, TaskList} — `convertX` answers HTML for every byte string -/
theorem convertx_total : type_of% @GM.Props.ConvertXE2E.convertx_total := @GM.Props.ConvertXE2E.convertx_total

/-- (re-export of `GM.Props.ConvertXE2E.convertx_never_errs`) no outcome other than HTML -/
theorem convertx_never_errs : type_of% @GM.Props.ConvertXE2E.convertx_never_errs := @GM.Props.ConvertXE2E.convertx_never_errs

/-- (re-export of `GM.Props.ConvertXE2E.convertl_total_linkify`) **`convertl_total_linkify`** (goal 3, without Table): Linkify next to any subset of {Strikethrough, TaskList} -/
theorem convertl_total_linkify : type_of% @GM.Props.ConvertXE2E.convertl_total_linkify := @GM.Props.ConvertXE2E.convertl_total_linkify

/-- (re-export of `GM.Props.ConvertXE2E.convertl_never_errs_no_table`) see `GM.Props.ConvertXE2E.convertl_never_errs_no_table` -/
theorem convertl_never_errs_no_table : type_of% @GM.Props.ConvertXE2E.convertl_never_errs_no_table := @GM.Props.ConvertXE2E.convertl_never_errs_no_table

/-- (re-export of `GM.Props.ConvertXE2E.inline_phase_total_segments_resolve`) the inline phase of a block under ANY of the 16 member sets, on lines that pass the run-time check: it answers, and every
    segment of its tree lies inside the source, is not inverted and carries no padding (so every `Segment.Value` answers) -/
theorem ext_inline_phase_total_segments_resolve : type_of% @GM.Props.ConvertXE2E.inline_phase_total_segments_resolve := @GM.Props.ConvertXE2E.inline_phase_total_segments_resolve

/-- (re-export of `GM.Props.ConvertXE2E.inline_phase_code_spans_hold_text`) every CodeSpan of the tree the inline phase answers holds Text nodes only (what renderCodeSpan's `c.(*ast.Text)` needs),
    all 16 member sets, every source and lines -/
theorem ext_inline_phase_code_spans_hold_text : type_of% @GM.Props.ConvertXE2E.inline_phase_code_spans_hold_text := @GM.Props.ConvertXE2E.inline_phase_code_spans_hold_text

/-- (re-export of `GM.Props.ConvertXE2E.inline_phase_segments_unpadded`) the segments of that tree are padding-free whenever the lines are (no reader refinement needed) -/
theorem ext_inline_phase_segments_unpadded : type_of% @GM.Props.ConvertXE2E.inline_phase_segments_unpadded := @GM.Props.ConvertXE2E.inline_phase_segments_unpadded

/-- (re-export of `GM.Props.ConvertXE2E.render_no_panic_of_shape`) no node renderer panics on a tree without attributes whose Headings have level ≤ 6 and whose CodeSpans hold Text —
    whatever the renderer configuration and member set -/
theorem render_no_panic_of_shape : type_of% @GM.Props.ConvertXE2E.render_no_panic_of_shape := @GM.Props.ConvertXE2E.render_no_panic_of_shape

/-- (re-export of `GM.Props.ConvertXE2E.convertl_total_dash_free`) **`convertl_total_dash_free`**: ALL 16 member sets (Table and `extension.GFM` among them) on a source without '-' — the table
    paragraph transformer never finds a delimiter row (`convertl_conservative_table`), so the conversion is the one without
    Table, which is total -/
theorem convertl_total_dash_free : type_of% @GM.Props.ConvertXE2E.convertl_total_dash_free := @GM.Props.ConvertXE2E.convertl_total_dash_free

/-- (re-export of `GM.Props.ConvertXE2E.convertgfm_total_dash_free`) see `GM.Props.ConvertXE2E.convertgfm_total_dash_free` -/
theorem convertgfm_total_dash_free : type_of% @GM.Props.ConvertXE2E.convertgfm_total_dash_free := @GM.Props.ConvertXE2E.convertgfm_total_dash_free

/-- (re-export of `GM.Props.ConvertXE2E.convertx_total_dash_free`) see `GM.Props.ConvertXE2E.convertx_total_dash_free` -/
theorem convertx_total_dash_free : type_of% @GM.Props.ConvertXE2E.convertx_total_dash_free := @GM.Props.ConvertXE2E.convertx_total_dash_free

/-- (re-export of `GM.Props.ConvertXE2E.table_transformer_outside_contract`) **`table_transformer_outside_contract`** (goal 2, negative): package tnopanic's driver theorem takes any transformer list with
    `PTsSpec src e` — every call ends in `PTPost` (the paragraph keeps a SUFFIX of its lines and nothing else changes, or it is
    replaced by ONE fresh TextBlock) or answers `e`. The table paragraph transformer is OUTSIDE that contract on every call
    that builds a table: from any state, if `GM.Table.transform` finds a table in the paragraph's lines and `transformPT`
    answers a state, that state is not `PTPost` of the initial one (it holds at least two more nodes: Table, TableHeader; the
    paragraph keeps a PREFIX of its lines, or is removed). So block-phase totality with Table needs a third alternative in
    `PTPost` and the driver proof (GM.Proof.BlocksTNP*) re-run for it. -/
theorem table_transformer_outside_contract : type_of% @GM.Props.ConvertXE2E.table_transformer_outside_contract := @GM.Props.ConvertXE2E.table_transformer_outside_contract

/-- (re-export of `GM.Props.ConvertXE2E.contract_adds_at_most_one_node`) the two counts behind it -/
theorem contract_adds_at_most_one_node : type_of% @GM.Props.ConvertXE2E.contract_adds_at_most_one_node := @GM.Props.ConvertXE2E.contract_adds_at_most_one_node

/-- (re-export of `GM.Props.ConvertXE2E.build_table_adds_two_nodes`) see `GM.Props.ConvertXE2E.build_table_adds_two_nodes` -/
theorem build_table_adds_two_nodes : type_of% @GM.Props.ConvertXE2E.build_table_adds_two_nodes := @GM.Props.ConvertXE2E.build_table_adds_two_nodes

/-- (re-export of `GM.Props.ConvertXE2E.escaped_pipe_walk_keeps_code_spans`) tableASTTransformer's walk below a cell keeps "every CodeSpan holds Text nodes only", for ANY list of recorded positions -/
theorem escaped_pipe_walk_keeps_code_spans : type_of% @GM.Props.ConvertXE2E.escaped_pipe_walk_keeps_code_spans := @GM.Props.ConvertXE2E.escaped_pipe_walk_keeps_code_spans

/-- (re-export of `GM.Props.ConvertXE2E.escaped_pipe_walk_segments_resolve`) … and keeps every segment in range when the positions are ascending (they are recorded in document order): the pieces
    `[start, pos)` and `[pos+1, stop)` of a Text that holds an escaped pipe are never inverted; so every `Segment.Value` of a
    cell's decoded children answers -/
theorem escaped_pipe_walk_segments_resolve : type_of% @GM.Props.ConvertXE2E.escaped_pipe_walk_segments_resolve := @GM.Props.ConvertXE2E.escaped_pipe_walk_segments_resolve

/-- (re-export of `GM.Props.ConvertXE2E.convertl_total_of_block_phase_x`) **`convertl_total_of_block_phase_x`** (the interface for Table / `extension.GFM`): the tree phases and the renderer side of
    ALL 16 member sets are total on such a store — the inline phase of every inline-bearing node (table cells among them)
    answers, the escaped-pipe transformer keeps segments in range and CodeSpans on Text, every `Segment.Value` answers, no node
    renderer panics. For the 8 member sets without Table the hypothesis is a theorem (`convertl_total_no_table`). -/
theorem convertl_total_of_block_phase_x : type_of% @GM.Props.ConvertXE2E.convertl_total_of_block_phase_x := @GM.Props.ConvertXE2E.convertl_total_of_block_phase_x

/-- (re-export of `GM.Props.ConvertXE2E.convertl_total_of_store_facts`) the same for one source and member set, in `NodeTotX` form (with the frame facts as hypotheses) -/
theorem convertl_total_of_store_facts : type_of% @GM.Props.ConvertXE2E.convertl_total_of_store_facts := @GM.Props.ConvertXE2E.convertl_total_of_store_facts

/-- (re-export of `GM.Props.ConvertXE2E.table_transformer_keeps_frame_invariants`) **`table_transformer_keeps_frame_invariants`**: the table paragraph transformer keeps EVERY frame invariant of package e2e
    (GM.E2E.Frame) — it allocates `thematicBreak` records without info segment / closure line and rewrites only `lines`,
    `children`, `parent`. Instances, for the store the block phase of ANY member set returns: Heading levels are 1..6, node 0 is
    the Document, a fenced block's info segment and an HTML block's closure line are in range. -/
theorem table_transformer_keeps_frame_invariants : type_of% @GM.Props.ConvertXE2E.table_transformer_keeps_frame_invariants := @GM.Props.ConvertXE2E.table_transformer_keeps_frame_invariants

/-- (re-export of `GM.Props.ConvertXE2E.block_phase_x_heading_levels`) see `GM.Props.ConvertXE2E.block_phase_x_heading_levels` -/
theorem block_phase_x_heading_levels : type_of% @GM.Props.ConvertXE2E.block_phase_x_heading_levels := @GM.Props.ConvertXE2E.block_phase_x_heading_levels

/-- (re-export of `GM.Props.ConvertXE2E.block_phase_x_root_is_document`) see `GM.Props.ConvertXE2E.block_phase_x_root_is_document` -/
theorem block_phase_x_root_is_document : type_of% @GM.Props.ConvertXE2E.block_phase_x_root_is_document := @GM.Props.ConvertXE2E.block_phase_x_root_is_document

/-- (re-export of `GM.Props.ConvertXE2E.block_phase_x_info_closure_in_range`) see `GM.Props.ConvertXE2E.block_phase_x_info_closure_in_range` -/
theorem block_phase_x_info_closure_in_range : type_of% @GM.Props.ConvertXE2E.block_phase_x_info_closure_in_range := @GM.Props.ConvertXE2E.block_phase_x_info_closure_in_range

/-- (re-export of `GM.Props.C15Total.converth_total`) **`converth_total`** — C01 for the AutoHeadingID configuration: for EVERY byte string, Unicode-class assignment and
    renderer option set, `convertH true` (the model of `goldmark.New(WithParserOptions(WithAutoHeadingID()), …).Convert`, tied
    byte for byte by component `converth`) answers HTML: no Go run-time panic, no fuel exhaustion, no monitor, no guard. -/
theorem converth_total : type_of% @GM.Props.C15Total.converth_total := @GM.Props.C15Total.converth_total

/-- (re-export of `GM.Props.C15Total.block_phase_h_total`) **the block phase with AutoHeadingID is total**: the strict form of `converth_block_phase_projects` — it returns exactly
    when (always) `convertCore`'s block phase returns, in the same store -/
theorem converth_block_phase_total : type_of% @GM.Props.C15Total.block_phase_h_total := @GM.Props.C15Total.block_phase_h_total

/-- (re-export of `GM.Props.C15Total.block_phase_h_error_is_core_error`) e2e's missing fact: a panic of the block phase with the option is a panic of `convertCore`'s block phase (vacuously: there is none) -/
theorem converth_block_phase_error_is_core_error : type_of% @GM.Props.C15Total.block_phase_h_error_is_core_error := @GM.Props.C15Total.block_phase_h_error_is_core_error

/-- (re-export of `GM.Props.ConvertNPX.block_phase_with_transformers_total_x`) **The block driver with paragraph transformers is total for the WIDER contract `PTsSpecX`**, every byte string: a transformer
    call on a Paragraph (with a parent, with lines) must end in `StepX` — only the paragraph's lines change among the old nodes'
    lines, all lines stay in range, the tree-link frames hold (`TF`, `PLTf`, `TreeOK`), every OTHER node that was the last child of
    its parent still is (`LK` frame: what keeps the `else` of `last == parent.LastChild()` dead — a Table inserted directly BEHIND
    the paragraph never displaces a later sibling), and when the paragraph stays attached (`g = false`) it keeps at least one
    line, old nodes keep their parents and fresh nodes hang below fresh nodes or below the paragraph's parent (`KeepF`) — or answer
    the guard's outcome `e`. Any number of fresh nodes, any kept sub-list of the lines (prefix or suffix). Conclusion as before:
    a tree with all lines in range and Lists of ListItems, or `e`; no Go panic, no fuel error, neither retry monitor. -/
theorem block_phase_with_transformers_total_x : type_of% @GM.Props.ConvertNPX.block_phase_with_transformers_total_x := @GM.Props.ConvertNPX.block_phase_with_transformers_total_x

/-- (re-export of `GM.Props.ConvertNPX.narrow_contract_is_wide`) the narrow contract of GM.Props.ConvertNP (`PTPost`: a suffix of the lines, or ONE fresh TextBlock in the paragraph's place) is a
    special case, so `block_phase_with_transformers_total` / `block_phase_total` stand as they are -/
theorem narrow_contract_is_wide : type_of% @GM.Props.ConvertNPX.narrow_contract_is_wide := @GM.Props.ConvertNPX.narrow_contract_is_wide

/-- (re-export of `GM.Props.ConvertNPX.wide_contract_append`) contracts of transformer lists compose -/
theorem wide_contract_append : type_of% @GM.Props.ConvertNPX.wide_contract_append := @GM.Props.ConvertNPX.wide_contract_append

/-- (re-export of `GM.Props.ConvertNPX.table_transformer_terminates`) the table transformer never exhausts fuel and keeps every reader-only invariant (admissible for the termination theorem) -/
theorem table_transformer_terminates : type_of% @GM.Props.ConvertNPX.table_transformer_terminates := @GM.Props.ConvertNPX.table_transformer_terminates

/-- (re-export of `GM.Props.ConvertNPX.table_transformer_in_wide_contract`) **the table transformer is inside the wide contract** — behind the check "every line of the paragraph is non-empty and valid"
    (`tableE e src`: the check answers the parameter `e`; `tblLinesB`): one call is a `StepX` — the fresh subtree (Table, TableHeader,
    TableRows, TableCells: all `NodeOK`, cell segments inside their row line, `GM.Blocks.TO.parseRow_in`), `SetSliced` of the paragraph's
    lines (a prefix, last newline cut), `InsertAfter`, `RemoveChild` of an emptied paragraph — tree frames, last-child frame — or `e`. -/
theorem table_transformer_in_wide_contract : type_of% @GM.Props.ConvertNPX.table_transformer_in_wide_contract := @GM.Props.ConvertNPX.table_transformer_in_wide_contract

/-- (re-export of `GM.Props.ConvertNPX.table_and_linkref_checks_never_fire`) the check is needed for the CONTRACT only (kernel-evaluated witness `GM.Blocks.TO.tableNodesOK_false`: on a hand-built paragraph
    with an EMPTY line the one-byte cut of `trimLastNewline` inverts the kept segment); in a run it never fires, nor does the link
    reference guard: with both checks the block phase is the block phase with the bare transformers -/
theorem table_and_linkref_checks_never_fire : type_of% @GM.Props.ConvertNPX.table_and_linkref_checks_never_fire := @GM.Props.ConvertNPX.table_and_linkref_checks_never_fire

/-- (re-export of `GM.Props.ConvertNPX.block_phase_x_total`) **C01, block phase with the link reference AND the table transformer, every member set of the GFM extensions, EVERY byte string:
    `blockPhaseX c true src` returns a tree with all line segments in range** — no Go panic of the driver, the block parsers, either
    transformer or the tree surgery; no fuel error; no contract monitor; neither run-time check (`guardedTransform`'s `WFSegs`, the table
    model's domain monitor `validB`) fires. -/
theorem block_phase_x_total : type_of% @GM.Props.ConvertNPX.block_phase_x_total := @GM.Props.ConvertNPX.block_phase_x_total

/-- (re-export of `GM.Props.ConvertNPX.block_phase_x_guard_is_observer`) the run-time checks are observers -/
theorem block_phase_x_guard_is_observer : type_of% @GM.Props.ConvertNPX.block_phase_x_guard_is_observer := @GM.Props.ConvertNPX.block_phase_x_guard_is_observer

/-- (re-export of `GM.Props.ConvertNPX.block_phase_x_line_facts`) **the line facts of the store with Table on** (`c.table = true`; with Table off `blockPhaseX` is `blockPhase`, GM.Props.ConvertNP):
    every line of every node is in range; every CHILD that is not raw and not a table record (`thematicBreak`) and has lines has `WF0`
    lines; table records that are children have padding 0 on all lines; the Document has no lines -/
theorem block_phase_x_line_facts : type_of% @GM.Props.ConvertNPX.block_phase_x_line_facts := @GM.Props.ConvertNPX.block_phase_x_line_facts

/-- (re-export of `GM.Props.ConvertNPX.block_phase_x_tree_consistent`) parent pointers and child lists of the final store agree (wf0's `TreeOK`); every entry of a child list has that parent and, when
    not raw, padding 0 on all its lines -/
theorem block_phase_x_tree_consistent : type_of% @GM.Props.ConvertNPX.block_phase_x_tree_consistent := @GM.Props.ConvertNPX.block_phase_x_tree_consistent

/-- (re-export of `GM.Props.ConvertNPX.block_phase_x_good_but_esc`) **`BlockPhaseXGood` (gfmx's interface) minus its escaped-pipe clause, literally, from `RecordsClassify`** — one member set, one source -/
theorem block_phase_x_good_but_esc : type_of% @GM.Props.ConvertNPX.block_phase_x_good_but_esc := @GM.Props.ConvertNPX.block_phase_x_good_but_esc

/-- (re-export of `GM.Props.ConvertNPX.convertl_total_of_records_and_esc`) **what is left for C01 end to end with `extension.GFM`**: the two remaining facts about the final store — records classify
    (`RecordsClassify`), escaped-pipe positions ascend in tree order (gfmx has it per table: `table_escaped_pipe_positions_ascend`; across
    tables it is a driver fact) — give `∀ c uc o src, ∃ html, convertL c uc o src = .ok html` -/
theorem convertl_total_of_records_and_esc : type_of% @GM.Props.ConvertNPX.convertl_total_of_records_and_esc := @GM.Props.ConvertNPX.convertl_total_of_records_and_esc

/-- (re-export of `GM.Props.ConvertXE2E.row_escaped_pipe_positions_ascend`) **one row** (table.go:215-235): the positions parseRow records for the escaped pipes of a row are strictly ascending and
    lie inside the paragraph line the row is cut from, `[seg.start, seg.stop)` -/
theorem row_escaped_pipe_positions_ascend : type_of% @GM.Props.ConvertXE2E.row_escaped_pipe_positions_ascend := @GM.Props.ConvertXE2E.row_escaped_pipe_positions_ascend

/-- (re-export of `GM.Props.ConvertXE2E.table_escaped_pipe_positions_ascend`) **one Table**: whenever tableParagraphTransformer.Transform builds a table from paragraph lines that follow each other in
    the source (none inverted, each ends where or before the next starts), the escaped-pipe positions it records — the header's,
    then the body rows' in order: exactly the `lines` `buildTable` writes into the TableHeader / TableRow records, i.e. this
    table's stretch of `escOfTree` — are strictly ascending, each inside one of the paragraph's lines. What is left of
    "the recorded positions ascend" is the order ACROSS tables (tree order = source order: a fact about the driver). -/
theorem table_escaped_pipe_positions_ascend : type_of% @GM.Props.ConvertXE2E.table_escaped_pipe_positions_ascend := @GM.Props.ConvertXE2E.table_escaped_pipe_positions_ascend

/-- (re-export of `GM.Props.ConvertNPX.esc_ascending_of_spans`) round 4, the tree-level half of the escaped-pipe clause: if the node ids of the final store can be labelled by source spans
    `[lo id, hi id)` (`SpanOK`: a node's own recorded positions ascend inside its span and lie before its children's spans; children's
    spans are nested in the parent's and disjoint in child-list order), then `escOfTree` of the tree is strictly ascending. What is
    still missing is the DRIVER fact that such a labelling exists (children appended in source order, the Table inserted directly
    behind its paragraph). -/
theorem esc_ascending_of_spans : type_of% @GM.Props.ConvertNPX.esc_ascending_of_spans := @GM.Props.ConvertNPX.esc_ascending_of_spans

end GM.Props.C01
