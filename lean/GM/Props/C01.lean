/-
  Property C01 — conversion is total: no panic, no error, always terminates, for any bytes.
  What is PROVED here: for every component of goldmark that is inside the model, on every input (every byte
  string, tree, call sequence, fault position) and under exactly the guard the real code runs it with, the
  model's explicit panic / fuel-exhaustion outcomes are unreachable — the model functions are total Lean
  definitions whose recursion is justified, and each loop that is modelled with fuel has its `fuel suffices`
  theorem here. The theorems are proved in the packages of the properties that own the components and are
  collected here under C01 names (`type_of%` restates the exact statement):
    renderer + node renderers (C03), dispatch of unknown kinds (C20), the AST mutators and Walk (C13), the
    bufio/Render/Convert error path (C14), heading-id probing (C15), Reader/BlockReader and their helpers (C18),
    the inline driver loop for contract-abiding parsers (C05a/C11), line recognisers (C02a).
  The util transformers (escape, unescape, resolvers, URL escape, case folding, label normalisation) are total
  definitions without any panic outcome; their recursion is by structural or well-founded descent
  (GM.Model.Util, GM.Model.Writer) and they are tied to the Go functions by the `util` correspondence.
  The whole BLOCK PHASE is modelled (GM.Model.Blocks) and proved to terminate on every byte string.
  The whole INLINE PHASE with the concrete parsers is modelled (GM.Model.Inlines*) and proved total (no panic, terminates).
  The COMPOSITION for the default CommonMark configuration (block phase with the link reference paragraph transformer,
  inline phase of every block, renderer; GM.Model.Convert, tied to goldmark.Convert on whole documents by component
  `convert`) never hangs: convert_never_loops.
  What is NOT proved: no-panic of the COMPOSITION (GM.Props.Convert.NoPanic: the block phase with the paragraph
  transformer and the hand-over of block lines to the inline phase; the block phase alone and the inline phase alone
  are proved panic-free), the extensions' parsers, stack depth, super-linear running time. That part is
  searched: component `total` (exhaustive short strings + mutated corpus under the configuration lattice,
  panic recovery, per-input watchdog, Convert vs Parse+Render).
-/
import GM.Props.C03
import GM.Props.C13
import GM.Props.C14
import GM.Props.C15
import GM.Props.C18
import GM.Props.C20
import GM.Props.C05a
import GM.Props.C02a
import GM.Props.Blocks
import GM.Props.Inlines
import GM.Props.Attribute
import GM.Props.Convert
import GM.Props.ConvertE2E

namespace GM.Props.C01
open GM

/-- Rendering a tree that satisfies the renderer invariant never panics (heading level index, `c.(*ast.Text)`
    in code spans, the `[]byte` assertion on a table cell's style attribute). -/
theorem render_no_panic : type_of% @GM.Props.C03.inv_noPanic := @GM.Props.C03.inv_noPanic

/-- A node whose kind has no renderer function — inside or beyond the function table — is skipped, its
    children are still walked; no index out of range. -/
theorem unknown_kind_no_panic : type_of% @GM.Props.C20.kind_beyond_table := @GM.Props.C20.kind_beyond_table
theorem unknown_kind_children_walked : type_of% @GM.Props.C20.missing_kind_skipped := @GM.Props.C20.missing_kind_skipped

/-- Every AST mutator call inside the API's proviso returns normally (no nil dereference, its loops end). -/
theorem ast_mutators_no_panic : type_of% @GM.Props.C13.step_refines := @GM.Props.C13.step_refines
/-- …for whole call sequences, with the fuel the model gives its loops. -/
theorem ast_runs_no_panic : type_of% @GM.Props.C13.fuel_suffices := @GM.Props.C13.fuel_suffices
/-- Walk terminates on every tree built through the API and visits it as the textbook traversal. -/
theorem walk_terminates : type_of% @GM.Props.C13.walk_after_run := @GM.Props.C13.walk_after_run

/-- Render/Convert over a failing or non-failing writer never panics and the model's buffer loops never starve. -/
theorem write_path_no_panic : type_of% @GM.Props.C14.never_panics_fuel_suffices := @GM.Props.C14.never_panics_fuel_suffices

/-- The unbounded `for i := 1; ; i++` probing of ids.Generate terminates for every table and value. -/
theorem heading_id_probing_terminates : type_of% @GM.Props.C15.generate_terminates := @GM.Props.C15.generate_terminates

/-- Reader and BlockReader calls inside their documented preconditions never panic; the helper loops
    (SkipSpaces, SkipBlankLines, ReadRune, FindClosure) terminate. -/
theorem reader_no_panic : type_of% @GM.Props.C18.reader_no_panic := @GM.Props.C18.reader_no_panic
theorem blockReader_no_panic : type_of% @GM.Props.C18.blockReader_no_panic := @GM.Props.C18.blockReader_no_panic
theorem reader_helpers_terminate : type_of% @GM.Props.C18.reader_helpers_no_panic := @GM.Props.C18.reader_helpers_no_panic

/-- The inline driver loop terminates without panic for every well-formed block and all parsers that consume at
    least one byte when they accept (a parser that accepts without consuming would spin: the contract). -/
theorem inline_loop_terminates : type_of% @GM.Props.C05a.loop_terminates := @GM.Props.C05a.loop_terminates
theorem inline_loop_fuel_suffices : type_of% @GM.Props.C05a.fuel_suffices := @GM.Props.C05a.fuel_suffices

/-- The closing-fence and ATX-open recognisers index their line safely for every line. -/
theorem fence_close_no_panic : type_of% @GM.Props.C02a.fence_close_noPanic := @GM.Props.C02a.fence_close_noPanic
theorem atx_open_no_panic : type_of% @GM.Props.C02a.atx_open_noPanic := @GM.Props.C02a.atx_open_noPanic

/-- The whole block phase (parseBlocks / openBlocks / closeBlocks with the ten block parsers, as modelled in
    GM.Model.Blocks and tied to the real parser by the `blocks` correspondence) terminates for EVERY byte string:
    neither line loop needs more than (number of newlines + 3) iterations and the container retry loop never
    exceeds its bound. -/
theorem block_phase_terminates : type_of% @GM.Props.Blocks.parseBlocks_fuel_suffices := @GM.Props.Blocks.parseBlocks_fuel_suffices
theorem block_phase_outcome : type_of% @GM.Props.Blocks.parseBlocks_outcome := @GM.Props.Blocks.parseBlocks_outcome

/-- The whole block phase returns a block tree for EVERY byte string: no Go run-time panic (index, slice, nil,
    type assertion, explicit) is reachable in parseBlocks / openBlocks / closeBlocks or in Open / Continue / Close of
    the ten default block parsers, and the BlockParser contract ("Open must advance the reader") is kept at every
    `goto retry` (the model's contract monitor never fires). Invariant proof over the model GM.Model.Blocks. -/
theorem block_phase_no_panic : type_of% @GM.Props.Blocks.no_panic := @GM.Props.Blocks.no_panic
theorem block_phase_never_errs : type_of% @GM.Props.Blocks.run_never_errs := @GM.Props.Blocks.run_never_errs
theorem block_phase_contract_kept : type_of% @GM.Props.Blocks.monitor_never_fires := @GM.Props.Blocks.monitor_never_fires

/-- The delimiter-processing loop of the INLINE PHASE (emphasis matching over the delimiter list, as modelled in
    GM.Model.Inlines and tied to the real parser by the `inlines` correspondence) terminates without a Go panic
    for every child list. (Termination/no-panic of the whole inline phase with the concrete parsers is stated in
    notes/status_inlines.md and not yet proved; none occurred on 16.6M sources.) -/
theorem process_delimiters_terminates : type_of% @GM.Props.Inlines.processDelimiters_terminates_no_panic := @GM.Props.Inlines.processDelimiters_terminates_no_panic

/-- The whole INLINE PHASE with the concrete default inline parsers (code span, emphasis + ProcessDelimiters, links and
    images with inline / full / collapsed / shortcut references, autolinks, raw HTML) returns a tree — no Go panic, no
    non-termination, none of the model's guards — for EVERY source, every padding-free well-formed segment list,
    every reference map and every Unicode-class assignment. -/
theorem inline_phase_total : type_of% @GM.Props.Inlines.parseBlock_total := @GM.Props.Inlines.parseBlock_total
/-- the link parser keeps the contract the loop relies on (consumes at least one byte when it returns a node,
    restores the reader otherwise, keeps the delimiter/label context invariant) -/
theorem link_parser_contract : type_of% @GM.Props.Inlines.link_parser_keeps_contract := @GM.Props.Inlines.link_parser_keeps_contract

/-- Block phase: blockquote.process, the paragraph parser's Open/Continue/Close, thematic-break Open and ATX Open never
    panic from any reader state satisfying the block-phase reader invariant. -/
theorem blockquote_process_total : type_of% @GM.Props.Blocks.blockquote_process_total_progress := @GM.Props.Blocks.blockquote_process_total_progress
theorem paragraph_open_total : type_of% @GM.Props.Blocks.paragraph_open_total := @GM.Props.Blocks.paragraph_open_total
theorem atx_open_total : type_of% @GM.Props.Blocks.atx_open_total := @GM.Props.Blocks.atx_open_total

/-- The Attribute option: `parser.ParseAttributes` from every reader offset of every byte string, the last-line scan
    `parseLastLineAttributes`, and ATX Open (+ Close of both heading parsers) with WithAttribute / WithAutoHeadingID
    never panic and terminate (package `attribute`). -/
theorem attribute_parser_total : type_of% @GM.Props.Attribute.parseAttributes_total := @GM.Props.Attribute.parseAttributes_total
theorem attribute_last_line_total : type_of% @GM.Props.Attribute.lastLineAttrs_total := @GM.Props.Attribute.lastLineAttrs_total
theorem attribute_heading_total : type_of% @GM.Props.Attribute.atx_heading_attrs_inv := @GM.Props.Attribute.atx_heading_attrs_inv

/-- The whole pipeline of the default CommonMark configuration (package `convert`): `convertCore` — block phase WITH the
    link reference paragraph transformer, inline phase of every non-raw block, HTML renderer, options Unsafe / XHTML /
    HardWraps — never ends in fuel exhaustion, for EVERY byte string; its outcome is HTML or a non-loop error; the block
    driver with ANY admissible list of paragraph transformers terminates. -/
theorem convert_never_loops : type_of% @GM.Props.Convert.convert_never_loops := @GM.Props.Convert.convert_never_loops
theorem convert_outcome : type_of% @GM.Props.Convert.convert_outcome := @GM.Props.Convert.convert_outcome
theorem block_phase_with_transformers_terminates : type_of% @GM.Props.Convert.block_phase_with_transformers_terminates :=
  @GM.Props.Convert.block_phase_with_transformers_terminates
theorem link_reference_scanner_total : type_of% @GM.Props.Convert.definition_scanner_total := @GM.Props.Convert.definition_scanner_total
theorem link_reference_scan_total : type_of% @GM.Props.Convert.transform_scan_total := @GM.Props.Convert.transform_scan_total
theorem link_reference_scan_never_loops : type_of% @GM.Props.Convert.transform_never_loops := @GM.Props.Convert.transform_never_loops

/-- (re-export of `GM.Props.ConvertE2E.convert_no_render_panic`) `convert_no_render_panic`. For EVERY source, Unicode class assignment and option set `convertCore` never ends in
    `Err.render k`: no node renderer function panics on parser output (`"0123456"[n.Level]` in renderHeading,
    `c.(*ast.Text)` in renderCodeSpan; the table-cell assertion needs the table extension). -/
theorem convert_no_render_panic : type_of% @GM.Props.ConvertE2E.convert_no_render_panic := @GM.Props.ConvertE2E.convert_no_render_panic

/-- (re-export of `GM.Props.ConvertE2E.convert_no_value_panic_partial`) `convert_no_value_panic_partial`. Given (a) the segments the inline phase records never carry a negative padding
    (`InlineSegsUnpadded`, a statement about `GM.Inl.parseBlock` on `WF0` lines) and (b) in the store the block phase
    returns for `src` the lines of raw blocks, fenced info segments and HTML closure lines are inside the source with
    non-negative padding (`RawSegsInRange`): `convertCore` never ends in `Err.value p`, for every Unicode class
    assignment and option set. The RANGE of the inline segments is not a hypothesis: it follows from the `WF0` check
    `convertCore` makes and the segment theorem of the inline phase. -/
theorem convert_no_value_panic_partial : type_of% @GM.Props.ConvertE2E.convert_no_value_panic_partial := @GM.Props.ConvertE2E.convert_no_value_panic_partial

end GM.Props.C01
