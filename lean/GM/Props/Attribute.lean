/-
  Package `attribute` — parser/attribute.go (the `{#id .class key=value}` syntax enabled by parser.WithAttribute) and
  the glue that attaches the parsed attributes to headings (atx_heading.go, setext_headings.go, ast.SetAttribute).

  Model: GM.Model.Attribute, tied to the Go code by harness component `attribute` (ParseAttributes on every string of
  a small scope + random blocks: attributes, ok flag and reader position compared; heading documents: level, lines
  and attribute list of the real tree compared). The reader is the source reader without padding, i.e. the cursor
  `RCur` of C18 with `pad = 0`, given by a byte offset `p ≤ len(src)`.

  What the theorems say, for EVERY byte string and every reader offset:
    C01  ParseAttributes, parseLastLineAttributes and the heading parsers' Open/Close with the Attribute option
         neither panic nor loop;
    C03  every attribute name the parser can produce is an attribute name in the sense of `Spec.Inv`
         (`[A-Za-z_:][A-Za-z0-9_:.-]*`), and the names on a heading node are pairwise distinct — the two
         attribute clauses of `Spec.Inv` (`attrsInv`), which the renderer theorems of C03 assume.
  Only property theorems and their non-vacuity examples live here; lemmas are in GM/Proof/Attribute.lean.
-/
import GM.Proof.Attribute
import GM.Proof.AttributeReader

namespace GM.Props.Attribute
open GM GM.Attr GM.Text GM.Proof.Attribute

/-! ### the reader the model runs on is the reader model of C18 -/

/-- The closed-form reader operations of GM.Model.Attribute are the calls of text.Reader as C18 specifies them: on
    every cursor without padding (`Flat`: what `text.NewReader` starts with and what every call below preserves),
    Peek returns `peekAt`, PeekLine returns `restLine` (nil at the end), Advance(n) moves to `adv`, SkipSpaces moves
    to `skipWs` (the fuel of C18's helper suffices), Position is `(lineOf p, [p, lineEnd p))` and SetPosition with a
    Position brings any cursor back to it. -/
theorem reader_calls_closed_form (src : Bytes) (c : Spec.RCur) (h : Proof.AttributeReader.Flat src c) :
    Spec.RCur.step src c .peek = .ok (.byte (peekAt src c.p), c) ∧
    Spec.RCur.step src c .peekLine =
      .ok (.line (if c.p < src.length then some (restLine src c.p) else none) (Spec.RCur.seg src c), c) ∧
    (∀ n : Nat, ∃ c', Spec.RCur.step src c (.advance n) = .ok (.unit, c') ∧ c'.p = adv src c.p n ∧
      Proof.AttributeReader.Flat src c') ∧
    (∃ r c', Spec.RCur.step src c .skipSpaces = .ok (.skip r, c') ∧ c'.p = skipWs src c.p ∧
      Proof.AttributeReader.Flat src c') ∧
    Spec.RCur.step src c .position =
      .ok (.pos (lineOf src c.p) { start := c.p, stop := lineEnd src c.p, padding := 0 }, c) ∧
    (∀ c2, Spec.RCur.step src c2 (.setPosition (lineOf src c.p) { start := c.p, stop := lineEnd src c.p, padding := 0 }) =
      .ok (.unit, c)) :=
  ⟨Proof.AttributeReader.step_peek src c h, Proof.AttributeReader.step_peekLine src c h,
   fun n => Proof.AttributeReader.step_advance src c n h, Proof.AttributeReader.step_skipSpaces src c h,
   Proof.AttributeReader.step_position src c h, fun c2 => Proof.AttributeReader.step_setPosition src c c2 h⟩

/-- … and therefore of GM.Model.Reader, the field-by-field model of text/reader.go (C18 `reader_refines`): in a reader
    state `r` that stands for a padding-free cursor at `p`, SkipSpaces does not panic and leaves the reader at
    `skipWs src p`; Peek answers `peekAt src p`. (The same composition works for the other four calls.) -/
theorem reader_model_skipSpaces_peek {src : Bytes} {r : Reader} {c : Spec.RCur} (ha : Proof.Reader.RAbs src r c)
    (h : Proof.AttributeReader.Flat src c) :
    (∃ x r' c', r.step .skipSpaces = .ok (.skip x, r') ∧ Proof.Reader.RAbs src r' c' ∧ c'.p = skipWs src c.p ∧
      Proof.AttributeReader.Flat src c') ∧
    (∃ r', r.step .peek = .ok (.byte (peekAt src c.p), r') ∧ Proof.Reader.RAbs src r' c) := by
  obtain ⟨x, c', e, hp, hf⟩ := Proof.AttributeReader.step_skipSpaces src c h
  obtain ⟨r', e', ha'⟩ := Proof.Reader.reader_refines ha e
  obtain ⟨r2, e2, ha2⟩ := Proof.Reader.reader_refines ha (Proof.AttributeReader.step_peek src c h)
  exact ⟨⟨x, r', c', e', ha', hp, hf⟩, ⟨r2, e2, ha2⟩⟩

/-! ### ParseAttributes -/

/-- C01 for attribute.go: from every reader offset of every source, `ParseAttributes` returns — attributes and
    `true`, or `false` — and never panics (`line[0]` in parseAttributeOthers, the `.([]byte)` assertions of the class
    merge) nor exhausts the fuel the model gives its mutually recursive loops (termination). -/
theorem parseAttributes_total (src : Bytes) (p : Nat) (hp : p ≤ src.length) :
    (∃ as p', parseAttributes src p = .ok as p') ∨ parseAttributes src p = .fail :=
  parseAttributes_good src p hp

/-- The mechanism C03's anchors name ("attribute-name character set restricted at parse time"): every name in a
    successful result is lexically what `Spec.Inv` demands (`Spec.attrNameOK`), whatever bytes the source holds. -/
theorem parseAttributes_names_valid (src : Bytes) (p : Nat) (as : List PAttr) (p' : Nat)
    (h : parseAttributes src p = .ok as p') : ∀ a ∈ as, Spec.attrNameOK a.1 = true :=
  parseAttributes_names src p as p' h

/-- Where the reader stands afterwards. Success: strictly behind where it started, inside the source, and the last
    byte consumed is the closing `}`. Failure: `posAfter` is the starting offset — ParseAttributes restores the saved
    position on both failure exits (attribute.go:52, 64; the tie compares the real reader's Position). -/
theorem parseAttributes_position (src : Bytes) (p : Nat) (hp : p ≤ src.length) :
    (∀ as p', parseAttributes src p = .ok as p' → p < p' ∧ p' ≤ src.length ∧ src[p' - 1]? = some 125) ∧
    (parseAttributes src p = .fail → posAfter p (parseAttributes src p) = p) :=
  ⟨parseAttributes_pos src p hp, fun h => by rw [h]; rfl⟩

/-- "Not beyond the line" is FALSE of the code in general: SkipSpaces crosses line ends, so a block may close on a
    later line (decided witness: `{#a⏎}` parses, the reader ends on line 1). In parseLastLineAttributes the reader is
    built over one heading line, so `p' ≤ len` above is the line bound there; in atxHeadingParser.Open the reader is
    the document reader and the heading swallows the following line (see notes/status_attribute.md, finding 1). -/
theorem parseAttributes_crosses_lines_witness :
    (parseAttributes [123, 35, 97, 10, 125] 0).pos? = some 5 ∧ lineOf [123, 35, 97, 10, 125] 5 = 1 :=
  ⟨by decide +kernel, by decide +kernel⟩

/-! ### the heading glue -/

/-- `ast.BaseNode.SetAttribute` replaces the value of an existing name: applying any attribute list to a node whose
    names are pairwise distinct leaves them pairwise distinct (`{a=1 a=2}`, `{#x #y id=z}` end up with one `a`, one
    `id`). -/
theorem setAttribute_names_distinct (node as : List PAttr) (h : (names node).Nodup) :
    (names (setAll node as)).Nodup :=
  setAll_nodup node as h

/-- parseLastLineAttributes (the scan for the last `{…}` of a heading's last line) never panics or loops, the
    attributes it attaches have valid names. -/
theorem lastLineAttrs_total (line : Bytes) :
    ∃ r, lastLineAttrs line = .ok r ∧ ∀ as n, r = some (as, n) → ∀ a ∈ as, Spec.attrNameOK a.1 = true :=
  lastLineAttrs_ok line

/-- The first block of any document whose first line is an ATX heading line, parsed with any combination of
    WithAttribute / WithAutoHeadingID: Open (incl. the `# text ## {…}` branch that runs ParseAttributes on the document
    reader) and Close never panic; the heading's level is 1..6 and its attribute list satisfies `Spec.attrsInv` —
    names lexically valid and pairwise distinct — i.e. the heading's own clause of `Spec.Inv`. -/
theorem atx_heading_attrs_inv (src : Bytes) (attrOn autoId : Bool) :
    ∃ r, atxHeading src attrOn autoId = .ok r ∧
      ∀ h, r = some h → Spec.attrsInv (h.attrs.map (List.map toTreeAttr)) = true ∧ 1 ≤ h.level ∧ h.level ≤ 6 := by
  obtain ⟨r, hr, hk⟩ := atxHeading_ok src attrOn autoId
  exact ⟨r, hr, fun h e => ⟨attrsInv_of_HOK h (hk h e), (hk h e).2.2⟩⟩

/-- Close of a Setext heading (a fresh heading of level 1 or 2 that took over the paragraph's lines): the same. -/
theorem setext_close_attrs_inv (src : Bytes) (attrOn autoId : Bool) (lvl : Nat) (hl : 1 ≤ lvl ∧ lvl ≤ 6)
    (lines : List (Nat × Nat)) :
    ∃ h', closeHeading src attrOn autoId { level := lvl, lines := lines, attrs := none } = .ok h' ∧
      Spec.attrsInv (h'.attrs.map (List.map toTreeAttr)) = true := by
  obtain ⟨h', e, hk⟩ := closeHeading_ok src attrOn autoId _ (hok_none lvl lines hl)
  exact ⟨h', e, attrsInv_of_HOK h' hk⟩

/-- … and that is the heading node's part of `Spec.Inv`: with children that satisfy the invariant, the heading node
    built from the model's heading satisfies `nodeInv` (attribute clauses, no clash with a renderer-written
    attribute, level 1..6). -/
theorem heading_node_inv (rc : RCfg) (src : Bytes) (attrOn autoId : Bool) (h : Heading) (cs : List Node)
    (e : atxHeading src attrOn autoId = .ok (some h)) (hcs : Spec.nodesInv rc .any cs = true) :
    Spec.nodeInv rc .any (.mk (.heading h.level) (h.attrs.map (List.map toTreeAttr)) cs) = true := by
  obtain ⟨r, hr, hk⟩ := atx_heading_attrs_inv src attrOn autoId
  rw [e] at hr
  cases hr
  obtain ⟨h1, h2, h3⟩ := hk h rfl
  have hc : Spec.noClash (.heading h.level) (h.attrs.map (List.map toTreeAttr)) = true := by
    cases h.attrs with
    | none => rfl
    | some as => simp [Spec.noClash, Spec.fixedAttrNames]
  have hd : Spec.nodeInv rc .any (.mk (.heading h.level) (h.attrs.map (List.map toTreeAttr)) cs) =
      (Spec.attrsInv (h.attrs.map (List.map toTreeAttr)) && Spec.noClash (.heading h.level) (h.attrs.map (List.map toTreeAttr)) &&
        (decide (1 ≤ h.level) && decide (h.level ≤ 6)) && Spec.nodesInv rc .any cs) := rfl
  rw [hd, h1, hc, hcs]
  simp [h2, h3]

/-! ### non-vacuity (tests on literals) -/

/-- `{#a .b c=1}` parses: three attributes `id`, `class`, `c`, reader behind the brace -/
example : (parseAttributes (strBytes "{#a .b c=1}") 0).pos? = some 11 ∧
    (parseAttributes (strBytes "{#a .b c=1}") 0).val?.map names = some [strBytes "id", strBytes "class", strBytes "c"] :=
  ⟨by decide +kernel, by decide +kernel⟩
/-- a failing parse: `{a=}` -/
example : (parseAttributes (strBytes "{a=}") 0).isFail = true := by decide +kernel
/-- duplicate names in one block collapse on the node -/
example : names (setAll [] [(strBytes "a", .null), (strBytes "id", .null), (strBytes "a", .bool true)]) =
    [strBytes "a", strBytes "id"] := by decide +kernel
/-- `# h ## {#x .y}`: a heading of level 1 with the two attributes `id`, `class` -/
example : (match atxHeading (strBytes "# h ## {#x .y}") true false with
    | .ok (some h) => some (h.level, names h.attrList)
    | _ => none) = some (1, [strBytes "id", strBytes "class"]) := by decide +kernel
/-- `lastLineAttrs` attaches and cuts: `t {#i}` keeps 2 bytes -/
example : (match lastLineAttrs (strBytes "t {#i}") with
    | .ok (some (as, n)) => some (names as, n)
    | _ => none) = some ([strBytes "id"], 2) := by decide +kernel

end GM.Props.Attribute
