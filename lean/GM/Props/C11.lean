/-
  Property C11 — extensions are conservative: no trigger syntax, no change.
  What is PROVED here is the shared machinery every inline extension hooks into: the per-block inline driver
  `(*parser).parseBlock` (dispatch by trigger byte, flushing of pending text with `MergeOrAppendTextSegment`,
  position restore after a declined consultation, `goto retry`, end-of-line trimming including repair 8b9b792),
  modelled in GM.Model.InlineLoop for ABSTRACT parsers (trigger bytes + a script position ↦ decline | accept n).
  What the extensions' own `Parse` bodies / paragraph transformers / renderer options do on trigger-free
  documents is NOT modelled: that half of C11 is searched by component `conservative`.
  Helper lemmas: GM/Proof/InlineLoop.lean.
-/
import GM.Model.InlineLoop
import GM.Proof.InlineLoop

namespace GM.Props.C11
open GM GM.InlineLoop GM.Proof.InlineLoop

/-- `silent_parser_irrelevant`. Take any well-formed block (line segments inside the source, increasing, every
    line but the last ending with its newline — what the block parsers produce), any list of inline parsers that
    obey the forward-progress contract (a parser returning a node consumed ≥ 1 byte), and ADD one parser `q` — any
    trigger bytes, any place in the priority order — that declines at every position (it may move the reader
    before returning nil). Then the loop terminates in both configurations and the RESOLVED TEXT of the block is
    the same: the same bytes in the same order, the same soft/hard break flags at the same places, the same
    parser-made nodes. (How the text is cut into `Text` nodes may differ: the additional consultations flush the
    pending text earlier; `MergeOrAppendTextSegment` and, at the end of a line, repair 8b9b792 make that
    invisible.) Before 8b9b792 this statement was false (`### bar    ###` with Linkify: `<h3>bar   </h3>`). -/
theorem silent_parser_irrelevant (b : Block) (hWF : WF b) (l1 l2 : List Parser) (q : Parser) (escapedSpace : Bool)
    (hq : Silent q) (hC : Contract (l1 ++ l2)) :
    ∃ stA stB, run ⟨l1 ++ l2, escapedSpace⟩ b = .done stA ∧ run ⟨l1 ++ q :: l2, escapedSpace⟩ b = .done stB ∧
      resolve b.src stB.kids = resolve b.src stA.kids :=
  run_silent hWF l1 l2 q escapedSpace hq hC

/-- `not_consulted`. Every `Parse` call the loop makes (on any block, well-formed or not, whatever the parsers
    do) is for a byte `c = line[i]` that passed the trigger test of parser.go:1199 — unescaped punctuation, a
    space/tab that is not an escaped space under `WithEscapedSpace`, or the first byte of a scan (`i = 0`) — and
    goes to a parser registered for the table index of that byte: the byte itself for punctuation, `' '` for a
    space/tab and for a non-punctuation first byte. A parser whose trigger set does not contain that index is
    not called there. -/
theorem not_consulted (P : Params) (b : Block) :
    ∀ e ∈ (run P b).st.log,
      e.pc = (if (isSpace e.c && e.c != 13 && e.c != 10) || (e.i == 0 && !isPunct e.c) then 32 else e.c) ∧
      ((isPunct e.c && !e.escaped) || ((isSpace e.c && e.c != 13 && e.c != 10) && !(e.escaped && P.escapedSpace)) ||
        e.i == 0) = true ∧
      ∃ q ∈ P.parsers, q.id = e.id ∧ e.pc ∈ q.triggers :=
  run_log P b

/-- `not_consulted`, contrapositive for one parser: a parser with no trigger equal to the table index of a call
    is not the parser of that call (ids identify parsers). -/
theorem not_consulted_off_trigger (P : Params) (b : Block) (q : Parser)
    (uniq : ∀ x ∈ P.parsers, x.id = q.id → x = q) :
    ∀ e ∈ (run P b).st.log, e.pc ∉ q.triggers → e.id ≠ q.id := by
  intro e he hnot hid
  obtain ⟨_, _, x, hx, hxid, hmem⟩ := run_log P b e he
  have := uniq x hx (hxid.trans hid)
  subst this
  exact hnot hmem

/-- `first_accept_wins`. In one consultation (parser.go:1213-1219) over the table entry `pre ++ p :: post` (the
    parsers sharing the trigger, in priority order — `table` keeps the order of the sorted configuration): if all
    of `pre` decline at the saved position (wherever they left the reader) and `p` accepts `n` bytes, the result
    is `p`'s node with the reader `n` bytes after the SAVED position, exactly `pre ++ [p]` were called, in that
    order, each at the saved position, and nobody in `post` was called. -/
theorem first_accept_wins (b : Block) (saved : Reader) (pc : UInt8) (i : Nat) (c : UInt8) (esc : Bool)
    (pre post : List Parser) (p : Parser) (n id : Nat) (log : List Call)
    (hpre : ∀ x ∈ pre, ∃ m, x.script saved.line saved.start = .decline m)
    (hp : p.script saved.line saved.start = .accept n id) :
    tryParsers b saved pc i c esc (pre ++ p :: post) log =
      (some (advance b saved n, id),
       ((pre ++ [p]).map fun x => (⟨x.id, saved.line, saved.start, pc, i, c, esc⟩ : Call)).reverse ++ log) :=
  tryParsers_first_accept b saved pc i c esc pre post p n id log hpre hp

/-- the table entry for a byte lists the parsers triggered by it in the order of the configuration -/
theorem table_keeps_order (xs ys : List Parser) (pc : UInt8) : table (xs ++ ys) pc = table xs pc ++ table ys pc :=
  table_append xs ys pc

/-! ### non-vacuity and tests on literals -/

/-- "bar    " (the content of `### bar    ###`) as a one-line block -/
def barBlock : Block := ⟨[35, 35, 35, 32, 98, 97, 114, 32, 32, 32, 32, 35, 35, 35], [⟨4, 11⟩]⟩
/-- a space-triggered parser that always declines (Linkify on text without links) -/
def linkifyLike : Parser := ⟨7, [32], fun _ _ => .decline 0⟩

/-- the hypotheses are satisfiable: this block is well-formed, the parser is silent, the empty list obeys the contract -/
example : WF barBlock := by
  refine ⟨?_, ?_, ?_⟩
  · intro i s h
    match i, h with
    | 0, h => cases h; decide
  · intro i s t h1 h2
    match i, h1, h2 with
    | 0, _, h2 => cases h2
  · intro i s h hl
    have : i + 1 < 1 := hl
    omega
example : Silent linkifyLike := fun _ _ => ⟨0, rfl⟩
example : Contract ([] : List Parser) := fun _ h => by cases h

/-- test: without the parser one Text `bar`; with it the pieces `bar`, three flushed spaces … trimmed to the
    same resolved text `bar` by the repair -/
example : (run ⟨[], false⟩ barBlock).st.kids = [.text 4 7 false false] := by decide +kernel
example : (run ⟨[linkifyLike], false⟩ barBlock).st.kids = [.text 10 10 false false, .text 4 7 false false] := by decide +kernel
example : resolve barBlock.src (run ⟨[linkifyLike], false⟩ barBlock).st.kids =
    resolve barBlock.src (run ⟨[], false⟩ barBlock).st.kids := by decide +kernel

end GM.Props.C11
