/-
  Property C11 — extensions are conservative: no trigger syntax, no change.
  What is PROVED here is the shared machinery every inline extension hooks into: the per-block inline driver
  `(*parser).parseBlock` (dispatch by trigger byte, flushing of pending text with `MergeOrAppendTextSegment`,
  position restore after a declined consultation, `goto retry`, end-of-line trimming including repair 8b9b792),
  modelled in GM.Model.InlineLoop for ABSTRACT parsers (trigger bytes + a script position ↦ decline | accept n).
  PER EXTENSION (second half of this file) the extensions' own code is tied to theorems:
   * regenerated facts (GM.Gen.ExtFacts, read from extension/*.go and parser/*.go by gmgen on every run): the byte
     literals of every `Trigger()`, what every `Extend` registers, GFM's member list — `facts_*` obligations;
   * `never_consulted`: a parser none of whose trigger bytes occurs in the source changes nothing at all;
   * decline models (GM.Model.ExtDecline, tied by component `extdecline`) of Linkify, the footnote parsers and
     transformer, the definition-list parsers, the task-list and typographer parsers, the table transformer
     (GM.Model.Table) and the East-Asian line-break decision, with a theorem each: on input without the
     extension's characters the code returns nil / leaves the paragraph / writes the break, without effect;
   * `ext_*_conservative_inline`: facts + loop theorem + decline theorem composed, per extension;
   * `never_consulted_concrete`, `ext_strikethrough/tasklist_conservative_concrete`: the same on the CONCRETE inline
     phase (GM.Model.InlinesLoop with the default parser models; open-table variant GM.Model.InlinesLoopX).
  Still SEARCHED, not proved (component `conservative`): the composition with the block phase and the renderer
  (that a block parser which declines leaves the block structure alone is the contract of openBlocks, not proved
  here), the node renderers each extension registers (inert without their node kinds), Table's AST transformer.
  Helper lemmas: GM/Proof/InlineLoop.lean, InlineLoopUnused.lean, ExtDecline.lean, ExtLoop.lean.
-/
import GM.Model.InlineLoop
import GM.Proof.InlineLoop
import GM.Model.ExtDecline
import GM.Model.InlinesLoop
import GM.Spec.ExtFacts
import GM.Proof.InlineLoopUnused
import GM.Proof.ExtDecline
import GM.Proof.ExtLoop
import GM.Proof.ExtWriter
import GM.Model.InlinesLoopX
import GM.Proof.InlinesLoopX
import GM.Props.Convert
import GM.Props.Consts.Ext
import GM.Props.ConvertX
import GM.Props.C16E2E
import GM.Props.ConvertL

namespace GM.Props.C11
open GM GM.InlineLoop GM.Proof.InlineLoop

/-- `silent_parser_irrelevant`. Take any well-formed block (line segments inside the source, increasing, every
    line but the last ending with its newline — what the block parsers produce), any list of inline parsers that
    obey the forward-progress contract (a parser returning a node consumed ≥ 1 byte), and ADD one parser `q` — any
    trigger bytes, any place in the priority order — that declines at every position (it may move the reader
    before returning nil). Then the loop terminates in both configurations and the RESOLVED TEXT of the block is
    the same: the same bytes in the same order, the same soft/hard break flags at the same places, the same
    parser-made nodes. (How the text is cut into `Text` nodes may differ: the additional consultations flush the
    pending text earlier; `MergeOrAppendTextSegment` and, at the end of a line, repair 8b9b792 make that
    invisible.) Before 8b9b792 this statement was false (`### bar    ###` with Linkify: `<h3>bar   </h3>`). -/
theorem silent_parser_irrelevant (b : Block) (hWF : WF b) (l1 l2 : List Parser) (q : Parser) (escapedSpace : Bool)
    (hq : Silent q) (hC : Contract (l1 ++ l2)) :
    ∃ stA stB, run ⟨l1 ++ l2, escapedSpace⟩ b = .done stA ∧ run ⟨l1 ++ q :: l2, escapedSpace⟩ b = .done stB ∧
      resolve b.src stB.kids = resolve b.src stA.kids :=
  run_silent hWF l1 l2 q escapedSpace hq hC

/-- `not_consulted`. Every `Parse` call the loop makes (on any block, well-formed or not, whatever the parsers
    do) is for a byte `c = line[i]` that passed the trigger test of parser.go:1199 — unescaped punctuation, a
    space/tab that is not an escaped space under `WithEscapedSpace`, or the first byte of a scan (`i = 0`) — and
    goes to a parser registered for the table index of that byte: the byte itself for punctuation, `' '` for a
    space/tab and for a non-punctuation first byte. A parser whose trigger set does not contain that index is
    not called there. -/
theorem not_consulted (P : Params) (b : Block) :
    ∀ e ∈ (run P b).st.log,
      e.pc = (if (isSpace e.c && e.c != 13 && e.c != 10) || (e.i == 0 && !isPunct e.c) then 32 else e.c) ∧
      ((isPunct e.c && !e.escaped) || ((isSpace e.c && e.c != 13 && e.c != 10) && !(e.escaped && P.escapedSpace)) ||
        e.i == 0) = true ∧
      ∃ q ∈ P.parsers, q.id = e.id ∧ e.pc ∈ q.triggers :=
  run_log P b

/-- `not_consulted`, contrapositive for one parser: a parser with no trigger equal to the table index of a call
    is not the parser of that call (ids identify parsers). -/
theorem not_consulted_off_trigger (P : Params) (b : Block) (q : Parser)
    (uniq : ∀ x ∈ P.parsers, x.id = q.id → x = q) :
    ∀ e ∈ (run P b).st.log, e.pc ∉ q.triggers → e.id ≠ q.id := by
  intro e he hnot hid
  obtain ⟨_, _, x, hx, hxid, hmem⟩ := run_log P b e he
  have := uniq x hx (hxid.trans hid)
  subst this
  exact hnot hmem

/-- `first_accept_wins`. In one consultation (parser.go:1213-1219) over the table entry `pre ++ p :: post` (the
    parsers sharing the trigger, in priority order — `table` keeps the order of the sorted configuration): if all
    of `pre` decline at the saved position (wherever they left the reader) and `p` accepts `n` bytes, the result
    is `p`'s node with the reader `n` bytes after the SAVED position, exactly `pre ++ [p]` were called, in that
    order, each at the saved position, and nobody in `post` was called. -/
theorem first_accept_wins (b : Block) (saved : Reader) (pc : UInt8) (i : Nat) (c : UInt8) (esc : Bool)
    (pre post : List Parser) (p : Parser) (n id : Nat) (log : List Call)
    (hpre : ∀ x ∈ pre, ∃ m, x.script saved.line saved.start = .decline m)
    (hp : p.script saved.line saved.start = .accept n id) :
    tryParsers b saved pc i c esc (pre ++ p :: post) log =
      (some (advance b saved n, id),
       ((pre ++ [p]).map fun x => (⟨x.id, saved.line, saved.start, pc, i, c, esc⟩ : Call)).reverse ++ log) :=
  tryParsers_first_accept b saved pc i c esc pre post p n id log hpre hp

/-- the table entry for a byte lists the parsers triggered by it in the order of the configuration -/
theorem table_keeps_order (xs ys : List Parser) (pc : UInt8) : table (xs ++ ys) pc = table xs pc ++ table ys pc :=
  table_append xs ys pc

/-! ## Per extension -/

open GM.ExtLoop GM.Proof.ExtLoop GM.Proof.InlineLoopUnused

/-! ### regenerated facts (a changed `Trigger()` / `Extend` breaks one of these on the next run) -/

/-- Regenerated fact: gmgen understood every `Trigger()` body, every registered constructor and every option call. -/
theorem facts_understood : Spec.Ext.allUnderstood = true := by decide +kernel

/-- Regenerated fact: each built-in extension's `Extend` registers exactly what is expected of it — Strikethrough,
    TaskList, Linkify, Typographer one inline parser (plus a node renderer for the first two); Table a paragraph
    transformer, an AST transformer, a node renderer; Footnote a block parser, an inline parser, an AST
    transformer, a node renderer; DefinitionList two block parsers and a node renderer; CJK only renderer/parser
    options; GFM nothing of its own — with the priorities of the documentation. -/
theorem facts_registrations : Spec.Ext.registrationsAsExpected = true ∧ Spec.Ext.noOtherExtension = true := by
  decide +kernel

/-- Regenerated fact: the trigger bytes of every parser an extension registers lie inside the characters C11 names
    for it: Strikethrough ⊆ {~}; TaskList ⊆ {[}; Footnote block ⊆ {[}, inline ⊆ {!, [}; DefinitionList ⊆ {:};
    Typographer ⊆ {' " - . < >} ∪ {, * [} (at the last three its Parse declines: `typographer_declines`);
    Linkify = {space * _ ~ (} exactly (NOT inside {: @ w}: Linkify is covered by `linkify_declines`);
    Table and CJK register no block or inline parser. -/
theorem facts_triggers : Spec.Ext.triggersAsExpected = true := by decide +kernel

/-- Regenerated fact: `extension.GFM.Extend` is exactly `Linkify.Extend; Table.Extend; Strikethrough.Extend;
    TaskList.Extend`, registers nothing itself, and no other extension delegates. -/
theorem facts_gfm_members : Spec.Ext.gfmAsExpected = true := by decide +kernel

/-- Regenerated fact: the trigger table of the DEFAULT inline parsers, as `Trigger()` and
    `parser.DefaultInlineParsers` say, is the one hard-coded in the concrete inline-phase model
    (GM.Inl.parsersFor): same parsers for every byte, in priority order. -/
theorem facts_default_inline_table : Spec.Ext.defaultInlineSorted = true ∧
    ∀ c : UInt8, Spec.Ext.defaultInlineFor c = (Inl.parsersFor c).map fun
      | .codeSpan => "codeSpanParser" | .link => "linkParser" | .autoLink => "autoLinkParser"
      | .rawHTML => "rawHTMLParser" | .emphasis => "emphasisParser" := by
  refine ⟨by decide +kernel, ?_⟩
  apply forall_uint8
  decide +kernel

/-! ### never consulted -/

/-- `never_consulted`. If no byte of the source is a trigger byte of `q`, and `q` is not registered for ' ' (the
    table index of white space and of a line head), then inserting `q` ANYWHERE in the priority order changes
    nothing: the two runs are EQUAL — same children, same reader, same Parse call log, same outcome — for every
    block (well-formed or not), whatever `q` and the other parsers would do. -/
theorem never_consulted (b : Block) (l1 l2 : List Parser) (q : Parser) (escapedSpace : Bool)
    (h32 : (32 : UInt8) ∉ q.triggers) (hsrc : ∀ c ∈ b.src, c ∉ q.triggers) :
    run ⟨l1 ++ q :: l2, escapedSpace⟩ b = run ⟨l1 ++ l2, escapedSpace⟩ b :=
  run_unused b l1 l2 q escapedSpace h32 hsrc

/-- Strikethrough, inline side: ANY parser carrying the trigger bytes `(*strikethroughParser).Trigger()` returns
    (regenerated) is never consulted on a source without '~': the runs with and without it are equal. -/
theorem ext_strikethrough_conservative_inline (b : Block) (l1 l2 : List Parser) (q : Parser) (escapedSpace : Bool)
    (hq : q.triggers = Spec.Ext.triggersOf "strikethrough" "inline") (hsrc : (126 : UInt8) ∉ b.src) :
    run ⟨l1 ++ q :: l2, escapedSpace⟩ b = run ⟨l1 ++ l2, escapedSpace⟩ b :=
  run_unused_of_subset b l1 l2 q escapedSpace [126] (hq ▸ strikethrough_triggers) (by decide)
    (fun c hc => by simp at hc; subst hc; exact hsrc)

/-- TaskList, inline side: the same for `(*taskCheckBoxParser).Trigger()` and sources without '['. -/
theorem ext_tasklist_conservative_inline (b : Block) (l1 l2 : List Parser) (q : Parser) (escapedSpace : Bool)
    (hq : q.triggers = Spec.Ext.triggersOf "taskList" "inline") (hsrc : (91 : UInt8) ∉ b.src) :
    run ⟨l1 ++ q :: l2, escapedSpace⟩ b = run ⟨l1 ++ l2, escapedSpace⟩ b :=
  run_unused_of_subset b l1 l2 q escapedSpace [91] (hq ▸ taskList_triggers) (by decide)
    (fun c hc => by simp at hc; subst hc; exact hsrc)

/-- TaskList, parser body: called on a line that does not start with '[' (impossible through the loop, see above)
    or outside the first text block of a list item, Parse returns nil without effect. -/
theorem tasklist_declines (inItem : Bool) (line : Bytes) (h : line.head? ≠ some 91) :
    Ext.taskParse inItem line = .nil 0 := Ext.taskParse_needs_bracket inItem line h

/-! ### Typographer -/

/-- `typographer_declines`. `(*typographerParser).Parse` (model `Ext.typoParse`, default substitutions) consulted at a
    byte other than ' " - . < > — in particular at its three other trigger bytes , * [ — returns nil without
    advancing the reader or touching the parent. -/
theorem typographer_declines (c : UInt8) (rest : Bytes) (h : c ≠ 39 ∧ c ≠ 34 ∧ c ≠ 45 ∧ c ≠ 46 ∧ c ≠ 60 ∧ c ≠ 62) :
    Ext.typoParse (c :: rest) = .nil 0 := Ext.typoParse_declines c rest h

/-- Typographer, inline side: the parser with the REGENERATED trigger bytes whose answers are those of the decline
    model on the line the reader shows, added anywhere to a configuration obeying the progress contract, leaves the
    resolved text of every well-formed block without ' " - . < > unchanged. (It IS consulted at , * [ and at
    nothing else; it declines there.) -/
theorem ext_typographer_conservative_inline (b : Block) (hWF : WF b) (l1 l2 : List Parser) (id : Nat) (escapedSpace : Bool)
    (hC : Contract (l1 ++ l2))
    (hsrc : ∀ c ∈ b.src, c ≠ 39 ∧ c ≠ 34 ∧ c ≠ 45 ∧ c ≠ 46 ∧ c ≠ 60 ∧ c ≠ 62) :
    ∃ stA stB, run ⟨l1 ++ l2, escapedSpace⟩ b = .done stA ∧
      run ⟨l1 ++ extParser b id (Spec.Ext.triggersOf "typographer" "inline") (fun _ _ => Ext.typoParse) :: l2, escapedSpace⟩ b = .done stB ∧
      resolve b.src stB.kids = resolve b.src stA.kids :=
  run_silent hWF l1 l2 _ escapedSpace (typographer_silent b id _ hsrc) hC

/-! ### Linkify -/

/-- `linkify_declines`. `(*linkifyParser).Parse` (model `Ext.linkifyParse`: default configuration; the first byte is
    skipped when it is one of the trigger bytes; `http:`/`https:`/`ftp:`/`www.` guards; e-mail candidate through
    util.FindEmailIndex) on ANY non-empty peeked line without ':', without '@' and without the substring `www.`
    returns nil, with the reader where it was and the parent untouched — inside or outside a link label. -/
theorem linkify_declines (inLinkLabel : Bool) (line : Bytes) (hne : line ≠ [])
    (hcolon : (58 : UInt8) ∉ line) (hat : (64 : UInt8) ∉ line) (hwww : Ext.hasInfix Ext.domainWWW line = false) :
    Ext.linkifyParse inLinkLabel line = .nil 0 := Ext.linkifyParse_declines inLinkLabel line hne hcolon hat hwww

/-- Linkify, inline side. Linkify IS consulted on trigger-free documents — at every space, tab, line head, `*`,
    `_`, `~`, `(` — and every consultation flushes the pending text. With the REGENERATED trigger bytes and the
    decline model as script (whatever the link-label state at each position): on every well-formed block whose
    source has no ':', no '@' and no `www.`, the resolved text is the same with and without it. -/
theorem ext_linkify_conservative_inline (b : Block) (hWF : WF b) (l1 l2 : List Parser) (id : Nat) (escapedSpace : Bool)
    (inLabel : Nat → Nat → Bool) (hC : Contract (l1 ++ l2))
    (hcolon : (58 : UInt8) ∉ b.src) (hat : (64 : UInt8) ∉ b.src) (hwww : Ext.hasInfix Ext.domainWWW b.src = false) :
    ∃ stA stB, run ⟨l1 ++ l2, escapedSpace⟩ b = .done stA ∧
      run ⟨l1 ++ extParser b id (Spec.Ext.triggersOf "linkify" "inline") (fun l p => Ext.linkifyParse (inLabel l p)) :: l2, escapedSpace⟩ b = .done stB ∧
      resolve b.src stB.kids = resolve b.src stA.kids :=
  run_silent hWF l1 l2 _ escapedSpace (linkify_silent b id _ inLabel hcolon hat hwww) hC

/-! ### Footnote -/

/-- `footnote_open_declines`. `(*footnoteBlockParser).Open` on a line without the two bytes `[^` (block offset inside
    the line, or −1 for a blank line, as openBlocks sets it) returns (nil, NoChildren) before creating anything. -/
theorem footnote_open_declines (line : Bytes) (pos : Int) (hpos : pos < 0 ∨ pos.toNat < line.length)
    (h : Ext.hasInfix [91, 94] line = false) : Ext.footnoteOpen line pos = .nil :=
  Ext.footnoteOpen_declines line pos hpos h

/-- `footnote_inline_declines`. (a) While the context holds no FootnoteList — none exists until a footnote
    definition has been opened and closed, which needs `[^` by `footnote_open_declines` — `(*footnoteParser).Parse`
    returns nil on EVERY line (it may have advanced the reader first; the loop restores it), parent untouched.
    (b) At a '[' not followed by '^' it returns nil at its first test whatever the context holds. -/
theorem footnote_inline_declines (line : Bytes) :
    (∃ m, Ext.footnoteParse none line = .nil m) ∧
    (∀ refs, line.head? = some 91 → Ext.hasInfix [91, 94] line = false → Ext.footnoteParse refs line = .nil 0) :=
  ⟨Ext.footnoteParse_noList line, fun refs hh h => Ext.footnoteParse_bracket refs line hh h⟩

/-- Footnote, inline side: with the REGENERATED triggers ('!' and '[' — it IS consulted at every image and link
    opener) and the decline model without a list as script, the resolved text of every well-formed block is
    unchanged. -/
theorem ext_footnote_conservative_inline (b : Block) (hWF : WF b) (l1 l2 : List Parser) (id : Nat) (escapedSpace : Bool)
    (hC : Contract (l1 ++ l2)) :
    ∃ stA stB, run ⟨l1 ++ l2, escapedSpace⟩ b = .done stA ∧
      run ⟨l1 ++ extParser b id (Spec.Ext.triggersOf "footnote" "inline") (fun _ _ => Ext.footnoteParse none) :: l2, escapedSpace⟩ b = .done stB ∧
      resolve b.src stB.kids = resolve b.src stA.kids :=
  run_silent hWF l1 l2 _ escapedSpace (footnote_silent b id _) hC

/-- the footnote AST transformer returns the document as it is when the context holds no FootnoteList
    (footnote.go:202-218; by construction of the model, tied by op `fntr`) -/
theorem footnote_transformer_without_list {Doc : Type} (d : Doc) : Ext.footnoteTransformNoList d = d := rfl

/-! ### DefinitionList -/

/-- `deflist_open_declines`. Both definition-list block parsers' `Open` return (nil, NoChildren) on a line without
    ':' — whatever the parent, its last child and the indent are. -/
theorem deflist_open_declines (parentIsDL : Bool) (line : Bytes) (pos indent : Int) (last : Ext.LastChild)
    (hpos : pos < 0 ∨ pos.toNat < line.length) (h : (58 : UInt8) ∉ line) :
    Ext.defListOpen parentIsDL line pos indent last = .nil ∧ Ext.defDescOpen parentIsDL line pos indent = .nil :=
  ⟨Ext.defListOpen_declines parentIsDL line pos indent last hpos h, Ext.defDescOpen_declines parentIsDL line pos indent hpos h⟩

/-- Block side of "never consulted": a block parser with trigger bytes `t` does not change the list of parsers
    openBlocks tries on a line whose first non-space byte is not in `t` (parser.go:749-771, 845-849, 949-955:
    triggered parsers in priority order, then the free ones) — so DefinitionList's and Footnote's block parsers are
    not even called on lines that do not start with ':' / '['. -/
theorem block_parser_not_tried (l1 l2 : List Ext.BlockP) (q : Ext.BlockP) (t : Bytes) (c : UInt8)
    (hq : q.triggers = some t) (hc : c ∉ t) :
    Ext.blockCandidates (l1 ++ q :: l2) c = Ext.blockCandidates (l1 ++ l2) c :=
  Ext.blockCandidates_insert_off l1 l2 q t c hq hc

/-! ### Table -/

/-- `table_needs_dash`. The table paragraph transformer (model GM.Table.transform, tied by component `table`) leaves
    every paragraph of a source without '-' exactly as it is: no delimiter row, no table. -/
theorem table_needs_dash (src : Bytes) (lines : List Table.Seg) (h : (45 : UInt8) ∉ src) :
    Table.transform src lines = { para := lines, table := none } :=
  Ext.transform_no_dash src lines fun l _ => Ext.value_no_dash src l h

/-! ### CJK -/

/-- `cjk_ascii_breaks_kept`. With the Unicode predicates as parameters that are false on ASCII (`AsciiNarrow`:
    checked exhaustively on the real tables by `extdecline`), under both East-Asian styles the renderer writes the
    newline of a soft break whenever the text before it ends in, and the text after it (if any) starts with, an
    ASCII character — exactly as without the option. -/
theorem cjk_ascii_breaks_kept (U : Ext.RuneClass) (hU : Ext.AsciiNarrow U) (style : Nat) (hs : style ≤ 2) (valueEmpty : Bool)
    (last : Nat) (next : Option Nat) (hl : last < 128) (hn : ∀ r, next = some r → r < 128) :
    Ext.softBreakWritten U style valueEmpty last next = Ext.softBreakWritten U 0 valueEmpty last next :=
  Ext.softBreakWritten_ascii U hU style hs valueEmpty last next hl hn

/-- `cjk_escaped_space_inert`. `parser.WithEscapedSpace()` is read by the inline loop only in the trigger test of a
    space/tab; when no inline parser is registered for ' ' (every built-in configuration without Linkify) the run
    is EQUAL with and without it. (With Linkify the extra/missing consultations are declined ones:
    `silent_parser_irrelevant`.) -/
theorem cjk_escaped_space_inert (ps : List Parser) (b : Block) (h : table ps 32 = []) :
    run ⟨ps, true⟩ b = run ⟨ps, false⟩ b := run_escSpace ps b h

/-- `cjk_escaped_space_writer`. `html.NewWriter(html.WithEscapedSpace())` (model GM.Model.Writer, tied by component
    `render`) writes, for every byte string that does not contain the two bytes backslash-space, exactly what the
    default writer writes. -/
theorem cjk_escaped_space_writer (v : Bytes) (h : Ext.hasInfix Ext.escSp v = false) : write true v = write false v :=
  Ext.write_escSpace v h

/-- `never_consulted`, sharper: only PUNCTUATION bytes of the source matter (a byte that is neither punctuation nor
    white space is never a table index: it passes the trigger test only at a line head, with index ' '). -/
theorem never_consulted_punct (b : Block) (l1 l2 : List Parser) (q : Parser) (escapedSpace : Bool)
    (h32 : (32 : UInt8) ∉ q.triggers) (hsrc : ∀ c ∈ b.src, isPunct c = true → c ∉ q.triggers) :
    run ⟨l1 ++ q :: l2, escapedSpace⟩ b = run ⟨l1 ++ l2, escapedSpace⟩ b :=
  run_unused_punct b l1 l2 q escapedSpace h32 hsrc

/-! ### never consulted, on the CONCRETE inline phase (default parsers plugged in) -/

/-- `never_consulted_concrete`. GM.Model.InlinesLoopX is the concrete inline phase of a block (`parseBlock` of
    GM.Model.InlinesLoop: the real code span / link / autolink / raw HTML / emphasis parser models, delimiter
    processing, link labels) over an open trigger table. Add ONE more inline parser `x` to the default table — at any
    place `pos c` of any entry, whatever its `Parse` does to reader, children and context. For every source that
    contains none of `x`'s trigger bytes (and `x` not registered for ' '), every well-formed padding-free line list,
    every reference map and Unicode class assignment (`env`): the result is `parseBlock`'s — the same tree, or the
    same panic. -/
theorem never_consulted_concrete {src : Bytes} {segs : List Text.Segment} (W : Spec.WFSegs src segs)
    (Z : ∀ s ∈ segs, s.padding = 0) (env : Inl.Env) (x : Inl.XParser) (pos : UInt8 → Nat)
    (h32 : (32 : UInt8) ∉ x.triggers) (hsrc : ∀ c ∈ src, c ∉ x.triggers) :
    Inl.parseBlockX env (Inl.insertTbl x pos Inl.baseTbl) src segs = Inl.parseBlock env src segs :=
  Proof.InlinesLoopX.parseBlock_unused W Z env x pos h32 hsrc

/-- the open-table model with the default table IS the concrete model (refinement, every source) -/
theorem concrete_open_table_refines {src : Bytes} {segs : List Text.Segment} (W : Spec.WFSegs src segs)
    (Z : ∀ s ∈ segs, s.padding = 0) (env : Inl.Env) :
    Inl.parseBlockX env Inl.baseTbl src segs = Inl.parseBlock env src segs :=
  Proof.InlinesLoopX.parseBlockX_eq W Z env _ rfl (fun _ _ => rfl)

/-- Strikethrough on the concrete inline phase: ANY parser with the regenerated trigger bytes of
    `(*strikethroughParser).Trigger()`, added to the default parsers at any priority, leaves the inline tree of every
    block of a source without '~' unchanged. -/
theorem ext_strikethrough_conservative_concrete {src : Bytes} {segs : List Text.Segment} (W : Spec.WFSegs src segs)
    (Z : ∀ s ∈ segs, s.padding = 0) (env : Inl.Env) (x : Inl.XParser) (pos : UInt8 → Nat)
    (hx : x.triggers = Spec.Ext.triggersOf "strikethrough" "inline") (hsrc : (126 : UInt8) ∉ src) :
    Inl.parseBlockX env (Inl.insertTbl x pos Inl.baseTbl) src segs = Inl.parseBlock env src segs := by
  have hsub := hx ▸ strikethrough_triggers
  refine Proof.InlinesLoopX.parseBlock_unused W Z env x pos (fun h => ?_) (fun c hc ht => ?_)
  · have := mem_of_subset hsub h; simp at this
  · have := mem_of_subset hsub ht; simp at this; subst this; exact hsrc hc

/-- TaskList on the concrete inline phase: the same for `(*taskCheckBoxParser).Trigger()` and sources without '['. -/
theorem ext_tasklist_conservative_concrete {src : Bytes} {segs : List Text.Segment} (W : Spec.WFSegs src segs)
    (Z : ∀ s ∈ segs, s.padding = 0) (env : Inl.Env) (x : Inl.XParser) (pos : UInt8 → Nat)
    (hx : x.triggers = Spec.Ext.triggersOf "taskList" "inline") (hsrc : (91 : UInt8) ∉ src) :
    Inl.parseBlockX env (Inl.insertTbl x pos Inl.baseTbl) src segs = Inl.parseBlock env src segs := by
  have hsub := hx ▸ taskList_triggers
  refine Proof.InlinesLoopX.parseBlock_unused W Z env x pos (fun h => ?_) (fun c hc ht => ?_)
  · have := mem_of_subset hsub h; simp at this
  · have := mem_of_subset hsub ht; simp at this; subst this; exact hsrc hc

/-! ### non-vacuity and tests on literals -/

/-- "bar    " (the content of `### bar    ###`) as a one-line block -/
def barBlock : Block := ⟨[35, 35, 35, 32, 98, 97, 114, 32, 32, 32, 32, 35, 35, 35], [⟨4, 11⟩]⟩
/-- a space-triggered parser that always declines (Linkify on text without links) -/
def linkifyLike : Parser := ⟨7, [32], fun _ _ => .decline 0⟩

/-- the hypotheses are satisfiable: this block is well-formed, the parser is silent, the empty list obeys the contract -/
example : WF barBlock := by
  refine ⟨?_, ?_, ?_⟩
  · intro i s h
    match i, h with
    | 0, h => cases h; decide
  · intro i s t h1 h2
    match i, h1, h2 with
    | 0, _, h2 => cases h2
  · intro i s h hl
    have : i + 1 < 1 := hl
    omega
example : Silent linkifyLike := fun _ _ => ⟨0, rfl⟩
example : Contract ([] : List Parser) := fun _ h => by cases h

/-- test: without the parser one Text `bar`; with it the pieces `bar`, three flushed spaces … trimmed to the
    same resolved text `bar` by the repair -/
example : (run ⟨[], false⟩ barBlock).st.kids = [.text 4 7 false false] := by decide +kernel
example : (run ⟨[linkifyLike], false⟩ barBlock).st.kids = [.text 10 10 false false, .text 4 7 false false] := by decide +kernel
example : resolve barBlock.src (run ⟨[linkifyLike], false⟩ barBlock).st.kids =
    resolve barBlock.src (run ⟨[], false⟩ barBlock).st.kids := by decide +kernel


/-- the hypotheses of the per-extension theorems are satisfiable, and the models do accept when the characters are
    there (tests on literals) -/
example : Ext.linkifyParse false (strBytes " see a@b.cd.") = .nil 0 := by decide +kernel
example : Ext.linkifyParse false (strBytes " a@b.cd.") = .node "email" 7 true := by decide +kernel
example : Ext.linkifyParse false (strBytes "(www.x") = .regexp := by decide +kernel
example : Ext.hasInfix Ext.domainWWW (strBytes "see www.x") = true := by decide +kernel
example : Ext.hasInfix Ext.domainWWW (strBytes "ww w. wow") = false := by decide +kernel
example : Ext.footnoteParse (some [strBytes "a"]) (strBytes "[^a] x") = .node "footnoteLink" 4 false := by decide +kernel
example : Ext.footnoteParse none (strBytes "!x^a] y") = .nil 5 := by decide +kernel
example : Ext.footnoteOpen (strBytes "[^a]: x") 0 = .node "footnote" 8 5 := by decide +kernel
example : Ext.defListOpen false (strBytes ": x") 0 0 (.paragraph false) = .node "new" 40 0 := by decide +kernel
example : Ext.typoParse (strBytes "--- x") = .node "emdash" 3 false := by decide +kernel
example : Ext.typoParse (strBytes "*x") = .nil 0 := by decide +kernel
example : Ext.taskParse true (strBytes "[x]  y") = .node "checked" 5 false := by decide +kernel
/-- a rune class that is wide exactly on the CJK ideograph 一: ASCII-narrow, and it does suppress a break -/
def demoClass : Ext.RuneClass := ⟨(· == 0x4E00), (· == 0x4E00), fun _ => false, fun _ => false, fun _ => false⟩
example : Ext.AsciiNarrow demoClass := fun r hr => by
  have : (r == 0x4E00) = false := by simp; omega
  simp [demoClass, this]
example : Ext.softBreakWritten demoClass 1 false 0x4E00 (some 0x4E00) = false := by decide
example : Ext.softBreakWritten demoClass 1 false 97 (some 98) = true := by decide
example : write true (strBytes "a\\ b") ≠ write false (strBytes "a\\ b") := by decide +kernel
example : Ext.hasInfix Ext.escSp (strBytes "a \\b\\") = false := by decide +kernel
/-- a block without '~': strikethrough's hypothesis holds; the regenerated trigger set is not empty -/
example : (126 : UInt8) ∉ barBlock.src := by decide
example : Spec.Ext.triggersOf "strikethrough" "inline" ≠ [] := by decide +kernel
example : Spec.Ext.triggersOf "linkify" "inline" = [32, 42, 95, 126, 40] := by decide +kernel
/-- Linkify on `### bar    ###`: consulted (5 calls), all declined, same resolved text -/
example : (run ⟨[extParser barBlock 7 (Spec.Ext.triggersOf "linkify" "inline") (fun _ _ => Ext.linkifyParse false)], false⟩ barBlock).st.log.length = 5 := by
  decide +kernel
example : resolve barBlock.src (run ⟨[extParser barBlock 7 (Spec.Ext.triggersOf "linkify" "inline") (fun _ _ => Ext.linkifyParse false)], false⟩ barBlock).st.kids =
    resolve barBlock.src (run ⟨[], false⟩ barBlock).st.kids := by decide +kernel

/-! ### paragraph transformers return without touching paragraphs they do not recognise: the built-in link reference
    transformer (package `convert`, GM.Model.LinkRef = parser/link_ref.go) -/

theorem unrecognised_paragraph_untouched : type_of% @GM.Props.Convert.unrecognised_paragraph_untouched :=
  @GM.Props.Convert.unrecognised_paragraph_untouched
/-- `Transform` on a paragraph it does not recognise ends in EXACTLY the state it started from -/
theorem unrecognised_paragraph_state_untouched : type_of% @GM.Props.Convert.unrecognised_paragraph_state_untouched :=
  @GM.Props.Convert.unrecognised_paragraph_state_untouched
theorem paragraph_not_started_by_bracket_untouched : type_of% @GM.Props.Convert.paragraph_not_started_by_bracket_untouched :=
  @GM.Props.Convert.paragraph_not_started_by_bracket_untouched

/-- (package consts) the task-list expression, linkify guards, footnote and definition-list openers are the decline models' -/
theorem consts_extension_regexps_tied : GM.Spec.Consts.allOk GM.Spec.Consts.extensionRegexps = true := GM.Props.Consts.Ext.extension_regexps_tied
/-- (package consts) goldmark compiles exactly the 18 known regular expressions, all understood by the extractor -/
theorem consts_regexp_inventory_complete : GM.Spec.Consts.allOk GM.Spec.Consts.regexpInventory = true := GM.Props.Consts.Ext.regexp_inventory_complete

/-- (re-export of `GM.Props.ConvertX.convertx_off_is_core`) `convertx_off_is_core`. With no member switched on the composed model IS the model of the default CommonMark pipeline:
    same HTML, same outcome, for every source, Unicode class assignment and renderer option set — guarded and unguarded. -/
theorem convertx_off_is_core : type_of% @GM.Props.ConvertX.convertx_off_is_core := @GM.Props.ConvertX.convertx_off_is_core

/-- (re-export of `GM.Props.ConvertX.convertx_conservative_tasklist`) `convertx_conservative_tasklist` — C11 AT WHOLE-DOCUMENT LEVEL on the model, for every member set without Strikethrough
    (Table on or off): a source without `[` converts to the same HTML — or the same error outcome — with and without
    TaskList, for every renderer option set and Unicode class assignment. Composed from `never_consulted_concrete`
    (GM.Props.C11: the checkbox parser is never consulted, so the inline children of every block are `parseBlock`'s), the shape
    theorem of the default inline phase (`parseBlock_wf`: emphasis levels 1 or 2, so the representation of a TaskCheckBox does
    not occur and decoding does not depend on the flag; kept through the table AST transformer) and "the renderer reads
    `Exts` only through `handled`" on a tree without TaskCheckBox nodes.
    Missing for `ConservativeTasklist`: the same with Strikethrough on (needs the loop invariant of the open-table loop with
    the strikethrough parser and the link parser over `processDelimitersG true`, see `ConvertXNeverLoops`). -/
theorem convertx_conservative_tasklist : type_of% @GM.Props.ConvertX.convertx_conservative_tasklist := @GM.Props.ConvertX.convertx_conservative_tasklist

/-- (re-export of `GM.Props.ConvertX.convertx_conservative_tasklist_phases`) the same at phase level: the block phase is the same, and behind the run-time check the inline children of EVERY block
    (any line list) are the same -/
theorem convertx_conservative_tasklist_phases : type_of% @GM.Props.ConvertX.convertx_conservative_tasklist_phases := @GM.Props.ConvertX.convertx_conservative_tasklist_phases

/-- (re-export of `GM.Props.ConvertX.convertx_conservative_table`) `convertx_conservative_table` — C11 AT WHOLE-DOCUMENT LEVEL on the model, for EVERY member set (Strikethrough / TaskList
    on or off): a source without '-' converts to the same HTML — or the same error outcome — with and without Table, for
    every renderer option set and Unicode class assignment; the only other possibility is that the table transformer's domain
    monitor answers `blocks pre` (a paragraph line outside the source; never in the tie, and excluded for well-formed lines by
    the check `guardedTransform` makes on the same paragraph just before). Composed from `table_needs_dash` (GM.Props.C11: the
    transformer returns the state unchanged), the monotonicity of the block driver `runT` in its transformer list
    (GM.Proof.ConvertXRel: a relation closed under bind from every state, through all thirteen driver functions: same node
    store, context, reader), "no node decodes as a table node on a source without '-'" (the witness of GM.Model.ExtTableX, so
    the tree, the escaped-pipe list and every block's inline phase are the same) and "the renderer reads `Exts` only through
    `handled`" on a tree without table kinds. Missing for `ConservativeTable`: the monitor unreachable. -/
theorem convertx_conservative_table : type_of% @GM.Props.ConvertX.convertx_conservative_table := @GM.Props.ConvertX.convertx_conservative_table

/-- (re-export of `GM.Props.ConvertX.convertx_conservative_table_blockphase`) the same for the block phase alone (guarded or not): exactly the state — node store, parse context with the reference
    map, reader — or the error of the block phase without Table, or `pre` -/
theorem convertx_conservative_table_blockphase : type_of% @GM.Props.ConvertX.convertx_conservative_table_blockphase := @GM.Props.ConvertX.convertx_conservative_table_blockphase

/-- (re-export of `GM.Props.ConvertX.convertx_conservative_table_partial`) the same at transformer level (any state of the block phase): the state is returned unchanged, or `pre` -/
theorem convertx_conservative_table_partial : type_of% @GM.Props.ConvertX.convertx_conservative_table_partial := @GM.Props.ConvertX.convertx_conservative_table_partial

/-- (re-export of `GM.Props.ConvertX.convertx_conservative_strikethrough_partial`) `convertx_conservative_strikethrough`, byte-loop level (any member set): on a line without `~` the byte loop of
    parseBlock never consults the strikethrough parser — the loop over the member set's table is the loop over the table
    with the entry of `~` emptied, from every state. Missing for `ConservativeStrikethrough`: (1) every peeked line is a
    slice of the source (the open-table loop invariant, see `ConvertXNeverLoops`); (2) `processDelimitersG true` is
    `processDelimiters` on children without a `~` delimiter and the link parser keeps that invariant; (3) no emphasis node
    of level 0 (the representation of Strikethrough) in the default model; (4) `render` and `Exts.strike`. -/
theorem convertx_conservative_strikethrough_partial : type_of% @GM.Props.ConvertX.convertx_conservative_strikethrough_partial := @GM.Props.ConvertX.convertx_conservative_strikethrough_partial

/-- (re-export of `GM.Props.C16E2E.convertf_conservative`) **C11 at whole-document level, full statement**: for EVERY byte string without the two bytes `[^` (every Unicode class
    assignment, every renderer option set), `goldmark.New(WithExtensions(extension.Footnote), …)` as modelled by `convertF`
    answers exactly what `convertCore` answers: the same HTML, or the same error outcome. Composition of
    `convertf_conservative_blockphase` (the block parser is consulted at every line that starts with `[` and declines
    without a trace), `convertf_inline_phase_without_list` (the inline parser is consulted at every `!` and `[`, may even
    ADVANCE the reader — `!x^abc]`, `list == nil` is tested behind `block.Advance` — and the loop's SetPosition gives back
    the very reader it saved), `parseBlock_wf` (the default parsers build no FootnoteLink representation),
    `footnote_transformer_without_list_concrete` and the renderer lemma (a tree without footnote kinds renders alike with
    and without FootnoteHTMLRenderer). -/
theorem convertf_conservative : type_of% @GM.Props.C16E2E.convertf_conservative := @GM.Props.C16E2E.convertf_conservative

/-- (re-export of `GM.Props.C16E2E.convertf_conservative_blockphase`) **C11 for the block phase at whole-document level.** For EVERY source without the two bytes `[^`: the block phase with
    the footnote block parser registered returns exactly the state of `convertCore`'s block phase (same node store,
    context, reader — or the same Go panic / monitor outcome), and no Footnote / FootnoteList exists. The parser IS
    consulted on every line whose first non-space byte is `[`; it declines (`footnote_open_declines_concrete`) — and the
    `reader.PeekLine()` it has called changes nothing, because openBlocks' own PeekLine has filled the reader's cache
    already and the cache is coherent (a reader invariant kept by every reader primitive, hence — through the `Pres`
    calculus of GM.Proof.BlocksPres — by all ten block parsers, the link-reference transformer and the driver). The
    proof also follows the one place where the footnote parser's presence changes a local variable of openBlocks
    (`lastBlock` is re-read in front of its `Open`): it is only read when it is fresh. -/
theorem convertf_conservative_blockphase : type_of% @GM.Props.C16E2E.convertf_conservative_blockphase := @GM.Props.C16E2E.convertf_conservative_blockphase

/-- (re-export of `GM.Props.C16E2E.convertf_inline_phase_without_list`) **the inline phase while the context holds no FootnoteList is the default inline phase** — for every block with
    well-formed padding-free lines (what the run-time check of `convertF` lets through), WHATEVER the source: the footnote
    parser in front of the link parser returns nil, and SetPosition restores the reader exactly (under the invariant of
    GM.Proof.InlinesLoopTotal every field but `lineOffset` is determined by the cursor the reader stands for, and
    `lineOffset` is −1 behind Advance and behind SetPosition). -/
theorem convertf_inline_phase_without_list : type_of% @GM.Props.C16E2E.convertf_inline_phase_without_list := @GM.Props.C16E2E.convertf_inline_phase_without_list

/-- (re-export of `GM.Props.C16E2E.convertf_off_is_core`) **Without the extension the model is `convertCore`** (guarded and unguarded): the copied block driver with the footnote
    state layer erased is the driver of GM.Convert (no Footnote is ever opened: the layer stays empty), every tag is plain,
    the trigger table is the default one, no FootnoteLink is decoded, the transformer finds no list, and the node renderers'
    state is the core's. -/
theorem convertf_off_is_core : type_of% @GM.Props.C16E2E.convertf_off_is_core := @GM.Props.C16E2E.convertf_off_is_core

/-- (re-export of `GM.Props.C16E2E.footnote_open_declines_concrete`) `footnote_open_declines` on the concrete block model: on a peeked line without the two bytes `[^`,
    (*footnoteBlockParser).Open returns (nil, NoChildren) with the footnote state untouched and the `St` `peekLine` leaves —
    or panics with the index panic of `line[pos]` (block offset outside the line: never, by the driver). -/
theorem footnote_open_declines_concrete : type_of% @GM.Props.C16E2E.footnote_open_declines_concrete := @GM.Props.C16E2E.footnote_open_declines_concrete

/-- (re-export of `GM.Props.C16E2E.footnote_inline_declines_concrete`) `footnote_inline_declines` on the concrete inline model: while the context holds no FootnoteList — none exists until a
    definition has been opened and closed, which needs `[^` — (*footnoteParser).Parse returns nil on EVERY line and leaves
    the parent's children alone (it may have advanced the reader; the loop puts it back). -/
theorem footnote_inline_declines_concrete : type_of% @GM.Props.C16E2E.footnote_inline_declines_concrete := @GM.Props.C16E2E.footnote_inline_declines_concrete

/-- (re-export of `GM.Props.C16E2E.footnote_transformer_without_list_concrete`) `footnote_transformer_without_list` on the composed model: without a FootnoteList in the context the transformer
    returns the document as it is (footnote.go:217-219) -/
theorem footnote_transformer_without_list_concrete : type_of% @GM.Props.C16E2E.footnote_transformer_without_list_concrete := @GM.Props.C16E2E.footnote_transformer_without_list_concrete

/-- (re-export of `GM.Props.ConvertX.convertx_conservative_strikethrough`) `convertx_conservative_strikethrough` — C11 AT WHOLE-DOCUMENT LEVEL on the model, for EVERY member set (TaskList / Table on or
    off): a source without `~` converts to the same HTML — or the same error outcome — with and without Strikethrough, for
    every renderer option set and Unicode class assignment. Composed from: (1) the strikethrough parser is never consulted
    (`lineLoopX_eq2`: the open-table loop does not look at a table entry whose byte does not occur in the source; the peeked
    lines are slices of the source by the loop invariant of the totality proof, GM.Proof.ConvertXTotal); (2) no `~` delimiter
    ever stands among `parent`'s children (`NT`, kept by every parser of the table), and on such children ProcessDelimiters and
    the link parser over both delimiter processors ARE the default ones (`processDelimitersG_NT`, `parseLinkG_eq`), so the
    loops over the two tables are equal step by step (`lineLoopX_sim` with the identity relabelling); (3) a member set without
    Strikethrough never builds the representation of a Strikethrough node (`parseBlockG_fix`: its inline phase simulates itself
    under the relabelling that moves the levels −3 / −4, so its result is a fixed point), hence decoding does not depend on the
    flag; (4) the renderer reads `Exts` only through `handled`, on a tree without Strikethrough nodes. -/
theorem convertx_conservative_strikethrough : type_of% @GM.Props.ConvertX.convertx_conservative_strikethrough := @GM.Props.ConvertX.convertx_conservative_strikethrough

/-- (re-export of `GM.Props.ConvertX.convertx_conservative_tasklist_all`) `ConservativeTasklist`, proved: the same for EVERY member set (Strikethrough on, too): the checkbox parser is never
    consulted (`lineLoopX_eq2` on the open table with the contracts of GM.Proof.ConvertXTotal), and a member set without
    TaskList never builds the representation of a TaskCheckBox (`parseBlockG_fixS`: the inline phase of any member set simulates
    itself under a relabelling that fixes the levels its members build) -/
theorem convertx_conservative_tasklist_all : type_of% @GM.Props.ConvertX.convertx_conservative_tasklist_all := @GM.Props.ConvertX.convertx_conservative_tasklist_all

/-- (re-export of `GM.Props.ConvertL.convertl_off_is_convertx`) `convertl_off_is_convertx`. Without Linkify the extended model IS `convertX` of the remaining member set — every source,
    option set, class assignment; guarded and unguarded. With `convertx_off_is_core`: all four off = `convertCore`. -/
theorem convertl_off_is_convertx : type_of% @GM.Props.ConvertL.convertl_off_is_convertx := @GM.Props.ConvertL.convertl_off_is_convertx

/-- (re-export of `GM.Props.ConvertL.convertx_gfm_is_members`) `convertx_gfm_is_members` (C11, last clause, on the model): `extension.GFM` is its four members. ON THE MODEL THIS IS BY
    CONSTRUCTION: `convertGFM` is defined as `convertL` with all four flags — justified by gfm.go:13-18, whose `Extend` calls
    exactly `Linkify.Extend`, `Table.Extend`, `Strikethrough.Extend`, `TaskList.Extend` (GM.Props.C11.facts_gfm_members proves
    that of the regenerated source facts). What the tie adds: on every document of member set 15 (quick: ≈ 20k, thorough ≈ 10×)
    component `convertx` converts with a REAL `goldmark.New(WithExtensions(extension.GFM))` instance and with the real
    four-member instance and compares the HTML byte for byte (clause `gfm-differs-from-members`: 0), and compares the latter
    with `convertL gfmCfg`. -/
theorem convertx_gfm_is_members : type_of% @GM.Props.ConvertL.convertx_gfm_is_members := @GM.Props.ConvertL.convertx_gfm_is_members

/-- (re-export of `GM.Props.ConvertL.convertl_conservative_strikethrough`) Strikethrough: a source without `~` converts to the same HTML / outcome with and without it — whatever the other three
    members, Linkify among them (whose trigger set contains `~`: on such a source its entry of `~` is never consulted
    either). The proofs of GM.Props.ConvertX over `inlineTblL`: the Linkify parser keeps the loop's contract, keeps "no `~`
    delimiter among the children" and commutes with every relabelling of emphasis levels. -/
theorem convertl_conservative_strikethrough : type_of% @GM.Props.ConvertL.convertl_conservative_strikethrough := @GM.Props.ConvertL.convertl_conservative_strikethrough

/-- (re-export of `GM.Props.ConvertL.convertl_conservative_tasklist`) TaskList: a source without `[` -/
theorem convertl_conservative_tasklist : type_of% @GM.Props.ConvertL.convertl_conservative_tasklist := @GM.Props.ConvertL.convertl_conservative_tasklist

/-- (re-export of `GM.Props.ConvertL.convertl_conservative_table`) Table: a source without '-' -/
theorem convertl_conservative_table : type_of% @GM.Props.ConvertL.convertl_conservative_table := @GM.Props.ConvertL.convertl_conservative_table

/-- (re-export of `GM.Props.ConvertL.gfm_without_triggers_is_linkify`) `extension.GFM` on a source without `~`, `[` and '-' is Linkify alone -/
theorem gfm_without_triggers_is_linkify : type_of% @GM.Props.ConvertL.gfm_without_triggers_is_linkify := @GM.Props.ConvertL.gfm_without_triggers_is_linkify

/-- (re-export of `GM.Props.ConvertL.convertx_conservative_linkify_partial`) `convertx_conservative_linkify`, parser level, on the CONCRETE loop (composes the decline argument of
    GM.Props.C11.linkify_declines for the accept-path model): whatever the state — children, open labels, delimiters —, when
    the peeked line has no ':', no '@' and no `www.`, `(*linkifyParser).Parse` returns nil and leaves the children, the id
    counter and the link-bottom stack exactly as they are; only the reader's line cache may be filled (PeekLine). -/
theorem convertx_conservative_linkify_partial : type_of% @GM.Props.ConvertL.convertx_conservative_linkify_partial := @GM.Props.ConvertL.convertx_conservative_linkify_partial

/-- (re-export of `GM.Props.ConvertL.convertl_linkify_is_flush`) `convertl_linkify_is_flush` (C11 for Linkify, whole documents, what IS proved): on a source without ':', '@' and `www.`,
    for every member set, option set and class assignment, `convertL` with Linkify is `convertFlush` — the same pipeline with
    a parser in Linkify's place that returns nil and touches nothing (GM.ConvertX.nullParser). In EVERY consultation of every
    run of the inline loop of every block the peeked line is a piece of the source, so `(*linkifyParser).Parse` returns nil
    and leaves reader, children, delimiters and link bottoms as they are (loop level: `linkify_consultation_without_effect`).
    What remains of Linkify on such a document is the consultation itself: Advance, the flush of the pending text
    (parser.go:1203-1211), SetPosition. -/
theorem convertl_linkify_is_flush : type_of% @GM.Props.ConvertL.convertl_linkify_is_flush := @GM.Props.ConvertL.convertl_linkify_is_flush

/-- (re-export of `GM.Props.ConvertL.linkify_consultation_without_effect`) the loop-level statement: the inline loop of a block whose lines pass the run-time check, over the trigger table with
    Linkify, is the loop over the table with `nullParser` in its place -/
theorem linkify_consultation_without_effect : type_of% @GM.Props.ConvertL.linkify_consultation_without_effect := @GM.Props.ConvertL.linkify_consultation_without_effect

/-- (re-export of `GM.Props.ConvertL.conservative_linkify_iff_flush_insensitive`) what is missing for `ConservativeLinkify`, exactly: that the consultation flush does not change the HTML of such a
    document -/
theorem conservative_linkify_iff_flush_insensitive : type_of% @GM.Props.ConvertL.conservative_linkify_iff_flush_insensitive := @GM.Props.ConvertL.conservative_linkify_iff_flush_insensitive

/-- (re-export of `GM.Props.ConvertL.consultation_flush_merges`) `consultation_flush_merges` (flush-insensitivity, inside a line): flushing the pending text `[a, b)` into `parent` and later the
    text `[b, c)` behind it leaves exactly the children one flush of `[a, c)` leaves — whatever the children are. So a run with
    an extra consultation (Linkify declining, `nullParser`) and the run without it hold the SAME children again at the next
    common flush; what stays visible of a consultation is only the cut in front of the end-of-line Text, which parseBlock
    appends without merging (parser.go:1252-1269) — there the soft / hard break flag and the trailing-blank trim (with its repair
    for an already flushed blank rest, parser.go:1258-1265) sit, and there the proviso of `ConservativeLinkify` lives. -/
theorem consultation_flush_merges : type_of% @GM.Props.ConvertL.consultation_flush_merges := @GM.Props.ConvertL.consultation_flush_merges

end GM.Props.C11
