/-
  GM.Props.ConvertXE2E — C01 END TO END WITH EXTENSIONS on the composed models (GM.ConvertX.convertX / convertL, tied to the real
  code on whole documents by component `convertx`): for the member sets WITHOUT Table — Strikethrough, TaskList, Linkify on or
  off, 8 of the 16 — the model answers HTML for EVERY byte string, Unicode-class assignment and renderer option set: no error
  outcome of any phase. Composition of package tnopanic's statements about the default block phase (GM.Props.ConvertNP: the
  block phase of these member sets IS the default one), this package's totality of the inline loop over the members' trigger
  table, and, new here: the segments of the inline tree are in range and padding-free (every `Segment.Value` answers), every
  CodeSpan holds Text (no node renderer panics). Helper lemmas: GM/Proof/ConvertXE2E*.lean.
-/
import GM.Proof.ConvertXE2EMain
import GM.Proof.ConvertXE2ESpec
import GM.Proof.ConvertXE2ECells
import GM.Proof.ConvertXE2ETable
import GM.Proof.ConvertXE2EEsc
import GM.Props.ConvertNP
import GM.Props.ConvertL

namespace GM.Props.ConvertXE2E
open GM GM.Text GM.Convert GM.ConvertX GM.Spec

/-- **`convertl_total_no_table`** (C01 end to end, 8 member sets): with Table off — Strikethrough, TaskList, Linkify in any
    combination — `convertL` answers HTML for every source, class assignment and option set. -/
theorem convertl_total_no_table (c : GCfg) (ht : c.base.table = false) (uc : List (Nat × (Bool × Bool))) (o : ROpts)
    (src : Bytes) : ∃ html, convertL c uc o src = .ok html := by
  obtain ⟨st, hst, hN, _⟩ := GM.Props.ConvertNP.block_phase_total src
  have hW := GM.Props.ConvertNP.block_phase_lines_wellformed src st hst
  have hP := GM.Props.ConvertNP.block_phase_lines_padding_zero src st hst
  exact GM.Proof.ConvertXE2E.convertL_total_of_tree_facts c ht uc o st hst (fun n hn t ht => (hN n hn).lines t ht)
    (fun n hn hr hne => ((hW.1 n hn hr).2.2) hne) hP.1 hP.2

/-- **`convertx_total`** (goal 1): the member sets of {Strikethrough, TaskList} — `convertX` answers HTML for every byte string -/
theorem convertx_total (c : XCfg) (ht : c.table = false) (uc : List (Nat × (Bool × Bool))) (o : ROpts) (src : Bytes) :
    ∃ html, convertX c uc o src = .ok html := by
  rw [← GM.Props.ConvertL.convertl_off_is_convertx]
  exact convertl_total_no_table { base := c, linkify := false } ht uc o src

/-- no outcome other than HTML -/
theorem convertx_never_errs (c : XCfg) (ht : c.table = false) (uc : List (Nat × (Bool × Bool))) (o : ROpts) (src : Bytes)
    (e : Err) : convertX c uc o src ≠ .error e := by
  obtain ⟨html, h⟩ := convertx_total c ht uc o src
  rw [h]; intro h'; cases h'

/-- **`convertl_total_linkify`** (goal 3, without Table): Linkify next to any subset of {Strikethrough, TaskList} -/
theorem convertl_total_linkify (s t : Bool) (uc : List (Nat × (Bool × Bool))) (o : ROpts) (src : Bytes) :
    ∃ html, convertL { base := { strikethrough := s, tasklist := t }, linkify := true } uc o src = .ok html :=
  convertl_total_no_table _ rfl uc o src

theorem convertl_never_errs_no_table (c : GCfg) (ht : c.base.table = false) (uc : List (Nat × (Bool × Bool))) (o : ROpts)
    (src : Bytes) (e : Err) : convertL c uc o src ≠ .error e := by
  obtain ⟨html, h⟩ := convertl_total_no_table c ht uc o src
  rw [h]; intro h'; cases h'

/-! ### the pieces, each a statement of its own -/

/-- the inline phase of a block under ANY of the 16 member sets, on lines that pass the run-time check: it answers, and every
    segment of its tree lies inside the source, is not inverted and carries no padding (so every `Segment.Value` answers) -/
theorem inline_phase_total_segments_resolve (c : GCfg) (inItem : Bool) (env : GM.Inl.Env) (src : Bytes) (segs : List Segment)
    (W : WFSegs src segs) (Z : ∀ s ∈ segs, s.padding = 0) :
    ∃ kids, parseBlockG env (inlineTblL c inItem) (pdX c.base) src segs = .ok kids ∧
      ∀ s ∈ GM.Proof.InlinesTotal.segsOfL kids, segInRange src s :=
  GM.Proof.ConvertXE2E.parseBlockL_total_segs c inItem W Z env

/-- every CodeSpan of the tree the inline phase answers holds Text nodes only (what renderCodeSpan's `c.(*ast.Text)` needs),
    all 16 member sets, every source and lines -/
theorem inline_phase_code_spans_hold_text (c : GCfg) (inItem : Bool) (env : GM.Inl.Env) (src : Bytes) (lines : List Segment)
    (kids : List GM.Inl.Node) (h : parseBlockG env (inlineTblL c inItem) (pdX c.base) src lines = .ok kids) :
    GM.Proof.ConvertXE2E.csHL kids = true :=
  GM.Proof.ConvertXE2ECS.parseBlockG_csHL c inItem env src lines kids h

/-- the segments of that tree are padding-free whenever the lines are (no reader refinement needed) -/
theorem inline_phase_segments_unpadded (c : GCfg) (inItem : Bool) (env : GM.Inl.Env) (src : Bytes) (segs : List Segment)
    (hz : ∀ s ∈ segs, s.padding = 0) (kids : List GM.Inl.Node)
    (h : parseBlockG env (inlineTblL c inItem) (pdX c.base) src segs = .ok kids) :
    ∀ s ∈ GM.Proof.InlinesTotal.segsOfL kids, s.padding = 0 :=
  GM.Proof.ConvertXE2EPad.parseBlockG_unpadded c inItem env src segs hz kids h

/-- no node renderer panics on a tree without attributes whose Headings have level ≤ 6 and whose CodeSpans hold Text —
    whatever the renderer configuration and member set -/
theorem render_no_panic_of_shape (rc : RCfg) (t : GM.Node) (h : GM.Proof.ConvertXE2E.okN t = true) : renderPanics rc t = none :=
  GM.Proof.ConvertXE2E.renderPanics_none_of_okN rc t h

/-! ### with Table: sources without '-' -/

/-- **`convertl_total_dash_free`**: ALL 16 member sets (Table and `extension.GFM` among them) on a source without '-' — the table
    paragraph transformer never finds a delimiter row (`convertl_conservative_table`), so the conversion is the one without
    Table, which is total -/
theorem convertl_total_dash_free (c : GCfg) (uc : List (Nat × (Bool × Bool))) (o : ROpts) (src : Bytes)
    (hsrc : (45 : UInt8) ∉ src) : ∃ html, convertL c uc o src = .ok html := by
  have e := GM.Props.ConvertL.convertl_conservative_table c uc o src hsrc
  have hc : ({ c with base := { c.base with table := true } } : GCfg) = c ∨
      ({ c with base := { c.base with table := false } } : GCfg) = c := by
    cases h : c.base.table with
    | true => left; cases c with | mk b l => cases b; simp_all
    | false => right; cases c with | mk b l => cases b; simp_all
  have tot := convertl_total_no_table { c with base := { c.base with table := false } } rfl uc o src
  rcases hc with hc | hc
  · rw [hc] at e; rw [e]; exact tot
  · rw [hc] at tot; exact tot

theorem convertgfm_total_dash_free (uc : List (Nat × (Bool × Bool))) (o : ROpts) (src : Bytes) (hsrc : (45 : UInt8) ∉ src) :
    ∃ html, convertGFM uc o src = .ok html :=
  convertl_total_dash_free gfmCfg uc o src hsrc

theorem convertx_total_dash_free (c : XCfg) (uc : List (Nat × (Bool × Bool))) (o : ROpts) (src : Bytes)
    (hsrc : (45 : UInt8) ∉ src) : ∃ html, convertX c uc o src = .ok html := by
  rw [← GM.Props.ConvertL.convertl_off_is_convertx]
  exact convertl_total_dash_free { base := c, linkify := false } uc o src hsrc

/-! ### with Table: why `block_phase_with_transformers_total` does not apply -/

/-- **`table_transformer_outside_contract`** (goal 2, negative): package tnopanic's driver theorem takes any transformer list with
    `PTsSpec src e` — every call ends in `PTPost` (the paragraph keeps a SUFFIX of its lines and nothing else changes, or it is
    replaced by ONE fresh TextBlock) or answers `e`. The table paragraph transformer is OUTSIDE that contract on every call
    that builds a table: from any state, if `GM.Table.transform` finds a table in the paragraph's lines and `transformPT`
    answers a state, that state is not `PTPost` of the initial one (it holds at least two more nodes: Table, TableHeader; the
    paragraph keeps a PREFIX of its lines, or is removed). So block-phase totality with Table needs a third alternative in
    `PTPost` and the driver proof (GM.Proof.BlocksTNP*) re-run for it. -/
theorem table_transformer_outside_contract (src : Bytes) (node : Nat) (s s' : GM.Blocks.St) (t : GM.Table.Table)
    (ht : (GM.Table.transform src ((GM.Blocks.nd s node).lines.map GM.TableX.toSeg)).table = some t)
    (h : GM.TableX.transformPT src node s = .ok ((), s')) : ¬ GM.Blocks.PTPost node s s' :=
  GM.Proof.ConvertXE2ESpec.transformPT_not_ptPost src node s s' t ht h

/-- the two counts behind it -/
theorem contract_adds_at_most_one_node {node : Nat} {s s' : GM.Blocks.St} (h : GM.Blocks.PTPost node s s') :
    s'.nodes.length ≤ s.nodes.length + 1 :=
  GM.Proof.ConvertXE2ESpec.ptPost_adds_at_most_one h

theorem build_table_adds_two_nodes (src : Bytes) (node : Nat) (parent : Option Nat) (para : List GM.Table.Seg)
    (t : GM.Table.Table) (s s' : GM.Blocks.St) (h : GM.TableX.buildTable src node parent para t s = .ok ((), s')) :
    s.nodes.length + 2 ≤ s'.nodes.length :=
  GM.Proof.ConvertXE2ESpec.buildTable_adds_two src node parent para t s s' h

/-! ### with Table: the tree phases below a cell (pieces) -/

/-- tableASTTransformer's walk below a cell keeps "every CodeSpan holds Text nodes only", for ANY list of recorded positions -/
theorem escaped_pipe_walk_keeps_code_spans (ps : List Int) (ns : List GM.Inl.Node)
    (h : GM.Proof.ConvertXE2E.csHL ns = true) : GM.Proof.ConvertXE2E.csHL (GM.TableX.escNodes ps ns) = true :=
  GM.Proof.ConvertXE2ECells.escNodes_csHL ps ns h

/-- … and keeps every segment in range when the positions are ascending (they are recorded in document order): the pieces
    `[start, pos)` and `[pos+1, stop)` of a Text that holds an escaped pipe are never inverted; so every `Segment.Value` of a
    cell's decoded children answers -/
theorem escaped_pipe_walk_segments_resolve (c : GCfg) (src : Bytes) (ps : List Int) (hs : ps.Pairwise (· < ·))
    (kids : List GM.Inl.Node) (h : ∀ s ∈ GM.Proof.InlinesTotal.segsOfL kids, segInRange src s) :
    ∃ ts, inlineTreesL c src (GM.TableX.escNodes ps kids) = .ok ts :=
  GM.Proof.ConvertXE2ECells.cell_children_resolve c src ps hs kids h

/-! ### `BlockPhaseXGood`, the part about escaped-pipe positions that does not need the block driver -/

/-- **one row** (table.go:215-235): the positions parseRow records for the escaped pipes of a row are strictly ascending and
    lie inside the paragraph line the row is cut from, `[seg.start, seg.stop)` -/
theorem row_escaped_pipe_positions_ascend (src : Bytes) (seg : GM.Table.Seg) (aligns : List GM.Table.Align) (isHeader : Bool)
    (h : seg.start ≤ seg.stop) :
    (GM.Proof.ConvertXE2EEsc.rowEsc (GM.Table.parseRow src seg aligns isHeader)).Pairwise (· < ·) ∧
      ∀ p ∈ GM.Proof.ConvertXE2EEsc.rowEsc (GM.Table.parseRow src seg aligns isHeader), seg.start ≤ p ∧ p < seg.stop :=
  GM.Proof.ConvertXE2EEsc.parseRow_esc_in src seg aligns isHeader h

/-- **one Table**: whenever tableParagraphTransformer.Transform builds a table from paragraph lines that follow each other in
    the source (none inverted, each ends where or before the next starts), the escaped-pipe positions it records — the header's,
    then the body rows' in order: exactly the `lines` `buildTable` writes into the TableHeader / TableRow records, i.e. this
    table's stretch of `escOfTree` — are strictly ascending, each inside one of the paragraph's lines. What is left of
    "the recorded positions ascend" is the order ACROSS tables (tree order = source order: a fact about the driver). -/
theorem table_escaped_pipe_positions_ascend (src : Bytes) (lines : List GM.Table.Seg) (t : GM.Table.Table)
    (ho : GM.Proof.ConvertXE2EEsc.OrdLines lines) (h : (GM.Table.transform src lines).table = some t) :
    (GM.Proof.ConvertXE2EEsc.tableEsc t).Pairwise (· < ·) ∧
      ∀ p ∈ GM.Proof.ConvertXE2EEsc.tableEsc t, ∃ s ∈ lines, s.start ≤ p ∧ p < s.stop :=
  GM.Proof.ConvertXE2EEsc.transform_esc src lines t ho h

/-- the full statement (all 16 member sets, `extension.GFM` among them): with Table NOT proved. `convertl_total_of_block_phase_x`
    reduces it to a statement about the block phase with the table paragraph transformer (`BlockPhaseXGood`);
    `table_transformer_outside_contract` says why tnopanic's generic driver theorem does not give that statement as it is. -/
def ConvertLTotal : Prop :=
  ∀ (c : GCfg) uc o src, ∃ html, convertL c uc o src = .ok html

/-- what is left of `ConvertLTotal`, exactly — a statement about the LINES in the store `blockPhaseX` (the block phase with
    `[guardedTransform, transformPT src]` when Table is on) ends in: it answers; the lines of raw blocks are in range; the lines
    of every node that is somebody's child and bears inline content — not raw, not a TableHeader / TableRow (whose `lines` are
    the model's bookkeeping), not an empty cell — are `WF0`; the Document has no lines; the recorded escaped-pipe positions
    are ascending. (Heading levels, the root, info / closure segments: `table_transformer_keeps_frame_invariants`.) -/
def BlockPhaseXGood : Prop :=
  ∀ (c : GCfg) (src : Bytes), ∃ st, blockPhaseX c.base true src = .ok st ∧
    (∀ n ∈ st.nodes, isRawKind n.kind = true → ∀ t ∈ n.lines, segInRange src t) ∧
    (∀ p ch, ch ∈ (st.nodes.getD p default).children → isRawKind (st.nodes.getD ch default).kind = false →
      (c.base.table && GM.TableX.isRowNode src (st.nodes.getD ch default)) = false →
      (c.base.table && GM.TableX.isCellNode src (st.nodes.getD ch default) &&
        (st.nodes.getD ch default).lines.all (fun s => s.start == s.stop && s.padding == 0)) = false →
      (st.nodes.getD ch default).lines ≠ [] → GM.Proof.InlinesReader.WF0 src (st.nodes.getD ch default).lines) ∧
    (st.nodes.getD 0 default).lines = [] ∧
    (if c.base.table then GM.TableX.escOfTree src (GM.Blocks.treeOf st.nodes st.nodes.length 0) else []).Pairwise (· < ·)

/-- **`convertl_total_of_block_phase_x`** (the interface for Table / `extension.GFM`): the tree phases and the renderer side of
    ALL 16 member sets are total on such a store — the inline phase of every inline-bearing node (table cells among them)
    answers, the escaped-pipe transformer keeps segments in range and CodeSpans on Text, every `Segment.Value` answers, no node
    renderer panics. For the 8 member sets without Table the hypothesis is a theorem (`convertl_total_no_table`). -/
theorem convertl_total_of_block_phase_x (H : BlockPhaseXGood) : ConvertLTotal := by
  intro c uc o src
  obtain ⟨st, hst, hL, hW, h0, hE⟩ := H c src
  exact GM.Proof.ConvertXE2E.convertL_total_of_lines_facts c uc o st hst hL hW h0 hE

/-- the same for one source and member set, in `NodeTotX` form (with the frame facts as hypotheses) -/
theorem convertl_total_of_store_facts (c : GCfg) (uc : List (Nat × (Bool × Bool))) (o : ROpts) (src : Bytes)
    (st : GM.Blocks.St) (hst : blockPhaseX c.base true src = .ok st)
    (h0 : GM.Proof.ConvertXE2E.NodeTotX c src (st.nodes.getD 0 default) ∧ GM.E2E.HeadP (st.nodes.getD 0 default))
    (hk : ∀ p ch, ch ∈ (st.nodes.getD p default).children →
      GM.Proof.ConvertXE2E.NodeTotX c src (st.nodes.getD ch default) ∧ GM.E2E.HeadP (st.nodes.getD ch default))
    (hE : (if c.base.table then GM.TableX.escOfTree src (GM.Blocks.treeOf st.nodes st.nodes.length 0) else []).Pairwise (· < ·)) :
    ∃ html, convertL c uc o src = .ok html :=
  GM.Proof.ConvertXE2E.convertL_total_of_treeX c uc o st hst h0 hk hE

/-- **`table_transformer_keeps_frame_invariants`**: the table paragraph transformer keeps EVERY frame invariant of package e2e
    (GM.E2E.Frame) — it allocates `thematicBreak` records without info segment / closure line and rewrites only `lines`,
    `children`, `parent`. Instances, for the store the block phase of ANY member set returns: Heading levels are 1..6, node 0 is
    the Document, a fenced block's info segment and an HTML block's closure line are in range. -/
theorem table_transformer_keeps_frame_invariants {I : GM.Blocks.St → Prop} [GM.E2E.Frame I] (src : Bytes) (node : Nat) :
    GM.E2E.Keeps I (GM.TableX.transformPT src node) :=
  GM.E2E.transformPT_keeps src node

theorem block_phase_x_heading_levels (c : XCfg) (guard : Bool) (src : Bytes) (st : GM.Blocks.St)
    (h : blockPhaseX c guard src = .ok st) : GM.E2E.HeadOK st :=
  GM.E2E.blockPhaseX_headOK c guard src st h

theorem block_phase_x_root_is_document (c : XCfg) (guard : Bool) (src : Bytes) (st : GM.Blocks.St)
    (h : blockPhaseX c guard src = .ok st) : GM.E2E.RootDoc st :=
  GM.E2E.blockPhaseX_rootDoc c guard src st h

theorem block_phase_x_info_closure_in_range (c : XCfg) (guard : Bool) (src : Bytes) (st : GM.Blocks.St)
    (h : blockPhaseX c guard src = .ok st) : ∀ n ∈ st.nodes, GM.E2E.XP src n :=
  GM.E2E.blockPhaseX_xsegs c guard src st h

end GM.Props.ConvertXE2E
