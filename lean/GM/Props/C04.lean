/-
  Property C04 — safe mode never emits a script-capable or local-file URL.

  `Spec.hrefDangerous named v` is the browser-like reading of one href/src attribute value `v` as it stands in
  the output (GM.Spec.Url, written independently of goldmark's code): decode character references with the HTML5
  table, trim C0-control/space at both ends, remove tab/CR/LF everywhere, read the scheme up to the first `:`,
  lower-case it; dangerous = `javascript`, `vbscript`, `file`, or `data` other than `image/{png,gif,jpeg,webp,svg+xml};`.

  The theorems below are about the values the renderer MODEL (GM.Model.Render `enter`, tied to renderer/html by the
  `render` correspondence runs) writes between `href="`/`src="` and the closing quote in safe mode (`unsafe_ = false`),
  for ALL byte strings stored in the node (destination / autolink URL) — so they hold however the URL was spelled
  in the source and whatever the parser did with it.
  Only property theorems and their non-vacuity examples live here; helper lemmas are in GM/Proof/Url*.lean.
-/
import GM.Model.Render
import GM.Spec.Url
import GM.Gen.RenderFacts
import GM.Proof.UrlBytes
import GM.Proof.UrlSafe
import GM.Props.ConvertE2E
import GM.Props.ConvertE2EAll

namespace GM.Props.C04
open GM GM.Spec

/-- Links (`renderLink`) and images (`renderImage`): whatever bytes the destination holds, the value written
    into `href`/`src` in safe mode is not read by a browser as a dangerous URL. -/
theorem safe_href (dest : Bytes) :
    hrefDangerous lookupEntity (urlOut false (urlEscape dest true)) = false := Proof.safe_href dest

/-- Autolinks (`renderAutoLink`: `<...>` autolinks and linkified URLs / e-mail addresses), including the
    `mailto:` the renderer puts in front of e-mail autolinks: the `href` value is not dangerous. -/
theorem safe_autolink (email : Bool) (url : Bytes) :
    hrefDangerous lookupEntity
      ((if email && !mailtoPrefixed url (strBytes "mailto:") then strBytes "mailto:" else []) ++
        urlOut false (urlEscape url false)) = false := Proof.safe_autolink email url

/-- Footnote references and back-references write `href="#…`: a value that starts with `#` has no scheme,
    whatever follows. -/
theorem footnote_href_harmless (rest : Bytes) : hrefDangerous lookupEntity (35 :: rest) = false :=
  Proof.hash_not_dangerous rest

/-- The string literals through which `href=`/`src=` is written anywhere in renderer/html and extension
    (regenerated from the Go source on every run) belong to exactly the five modelled emitters: a new emitter
    in the code breaks this obligation. -/
theorem emitters_complete :
    Gen.urlAttrSites.map (·.1) =
      ["html.renderAutoLink", "html.renderLink", "html.renderImage",
       "extension.renderFootnoteLink", "extension.renderFootnoteBacklink"] := by decide

/-- The two footnote emitters' literals end in `href="#` — the premise of `footnote_href_harmless`. -/
theorem footnote_sites_hash :
    ((Gen.urlAttrSites.filter fun s => s.1.startsWith "extension.").all fun s =>
      s.2.reverse.take 7 == (strBytes "href=\"#").reverse) = true := by decide +kernel

/-- The second way an attribute reaches the output is `RenderAttributes(w, node, <filter>)`, which writes only names
    the filter contains: none of the attribute filters regenerated from the Go source admits `href` or `src`
    (the name list pins the set of filters, so a new filter must be added here). -/
theorem attribute_filters_exclude_urls :
    Gen.attributeFilterNames =
      ["GlobalAttributeFilter", "HeadingAttributeFilter", "BlockquoteAttributeFilter", "ListAttributeFilter",
       "ListItemAttributeFilter", "ParagraphAttributeFilter", "ThematicAttributeFilter", "LinkAttributeFilter",
       "CodeAttributeFilter", "EmphasisAttributeFilter", "ImageAttributeFilter", "DefinitionListAttributeFilter",
       "DefinitionTermAttributeFilter", "DefinitionDescriptionAttributeFilter", "StrikethroughAttributeFilter",
       "TableAttributeFilter", "TableHeaderAttributeFilter", "TableRowAttributeFilter",
       "TableThCellAttributeFilter", "TableTdCellAttributeFilter"] ∧
    ([Gen.GlobalAttributeFilter, Gen.HeadingAttributeFilter, Gen.BlockquoteAttributeFilter, Gen.ListAttributeFilter,
      Gen.ListItemAttributeFilter, Gen.ParagraphAttributeFilter, Gen.ThematicAttributeFilter, Gen.LinkAttributeFilter,
      Gen.CodeAttributeFilter, Gen.EmphasisAttributeFilter, Gen.ImageAttributeFilter,
      Gen.DefinitionListAttributeFilter, Gen.DefinitionTermAttributeFilter, Gen.DefinitionDescriptionAttributeFilter,
      Gen.StrikethroughAttributeFilter, Gen.TableAttributeFilter, Gen.TableHeaderAttributeFilter,
      Gen.TableRowAttributeFilter, Gen.TableThCellAttributeFilter, Gen.TableTdCellAttributeFilter].all fun f =>
        urlAttrNames.all fun n => !f.contains n) = true := by
  constructor
  · decide
  · decide +kernel

/-- The scheme constants of the model's `isDangerousURL` are the ones regenerated from renderer/html/html.go:
    a changed constant in the code breaks this obligation. -/
theorem schemes_tied :
    bJs = Gen.bJs ∧ bVb = Gen.bVb ∧ bFile = Gen.bFile ∧ bData = Gen.bData ∧ bDataImage = Gen.bDataImage ∧
    imageTypes = [Gen.bPng, Gen.bGif, Gen.bJpeg, Gen.bWebp, Gen.bSvg] := by decide +kernel

/-- Why the guard sees what the browser sees (a): util.URLEscape's result never contains a space or control
    byte (≤ 0x20, 0x7f), `"`, `<` or `>` — on every branch, including "input returned unchanged". -/
theorem urlEscape_plain (v : Bytes) (resolve : Bool) : Proof.plainUrl (urlEscape v resolve) = true :=
  Proof.urlEscape_plain v resolve

/-- (b)+(c): for such a value, decoding and cleaning the escaped attribute text gives back the value itself. -/
theorem browser_reads_written_value (s : Bytes) (h : Proof.plainUrl s = true) :
    urlClean (attrDecode lookupEntity (escapeHTML s).length (escapeHTML s)) = s := by
  rw [Proof.attrDecode_escapeHTML s _ (Nat.le_refl _), Proof.urlClean_plain s h]

/-- Decoder-independent form of what is written (any `resolve` flag, i.e. all three emitters): either nothing, or
    `EscapeHTML d` for a plain `d` that html.IsDangerousURL accepted; every `&` of it begins one of
    `&amp; &lt; &gt; &quot;`, so no HTML decoder — including the semicolon-less reference forms browsers accept, which
    `Spec.attrDecode` does not model — can read anything but `d` out of it. -/
theorem written_value_form (v : Bytes) (resolve : Bool) :
    urlOut false (urlEscape v resolve) = [] ∨
      (urlOut false (urlEscape v resolve) = escapeHTML (urlEscape v resolve) ∧
        Proof.plainUrl (urlEscape v resolve) = true ∧ isDangerousURL (urlEscape v resolve) = false ∧
        ampsOK4 (escapeHTML (urlEscape v resolve)) = true) :=
  Proof.urlOut_form _ (Proof.urlEscape_plain v resolve)

/-- (d): for EVERY byte string, what the independent scheme reader calls dangerous html.IsDangerousURL rejects
    (same four schemes; the media-type exceptions coincide, the code folding the case of the prefix, the spec of
    the whole remainder). -/
theorem guard_covers_spec (d : Bytes) (h : dangerousUrl d = true) : isDangerousURL d = true :=
  Proof.dangerousUrl_imp d h

/-! ### non-vacuity and tests on literals (tests, not proofs of the property) -/

/-- the spec predicate is not constantly false: these are what the pre-fix code emitted -/
example : hrefDangerous lookupEntity (strBytes "javascript:alert(1)") = true := by decide +kernel
example : hrefDangerous lookupEntity (strBytes "&#106;avascript:alert(1)") = true := by decide +kernel
example : hrefDangerous lookupEntity (strBytes "javascript&colon;alert(1)") = true := by decide +kernel
example : hrefDangerous lookupEntity (strBytes " \tJaVa\nScRiPt:alert(1)") = true := by decide +kernel
example : hrefDangerous lookupEntity (strBytes "data:text/html,x") = true := by decide +kernel
example : hrefDangerous lookupEntity (strBytes "data:image/png;base64,AAAA") = false := by decide +kernel
example : hrefDangerous lookupEntity (strBytes "FILE:///etc/passwd") = true := by decide +kernel
/-- the guarded value for those spellings, as destinations, is empty or harmless -/
example : urlOut false (urlEscape (strBytes "javascript&colon;alert(1)") true) = [] := by decide +kernel
example : urlOut false (urlEscape (strBytes "&#106;avascript:alert(1)") true) = [] := by decide +kernel
example : urlOut false (urlEscape (strBytes "java\\script:alert(1)") true) = strBytes "java%5Cscript:alert(1)" := by
  decide +kernel
example : urlOut false (urlEscape (strBytes "http://a/?b=c&d") true) = strBytes "http://a/?b=c&amp;d" := by
  decide +kernel
/-- without the guard (Unsafe) the same value IS dangerous: the theorem is about the guard, not the escaping -/
example : hrefDangerous lookupEntity (urlOut true (urlEscape (strBytes "javascript:alert(1)") true)) = true := by
  decide +kernel
/-- hypothesis of `browser_reads_written_value` is satisfiable -/
example : Proof.plainUrl (strBytes "http://example.com/a%20b") = true := by decide +kernel

/-- (re-export of `GM.Props.ConvertE2E.convert_safe_urls_harmless`) `convert_safe_urls_harmless`. For EVERY source, Unicode class assignment, XHTML / HardWraps setting: the HTML
    `convertCore` answers in safe mode is the concatenation of the emitted pieces of one piece list `ps`
    (`convert_options_orthogonal`), and EVERY destination-carrying piece `.url d` of `ps` — Link, Image and AutoLink
    nodes are the only sources of such pieces — stands at an attribute site: the output reads
    `… tag ++ value ++ '"' …` with `tag` = `<a href="` or `<img src="`, `value` = `m ++ urlOut false d` (`m` = the
    `mailto:` the renderer puts in front of an e-mail autolink, else empty), `value` contains no `"` (so it IS the
    attribute value a tokenizer reads), and `value` is not dangerous under `Spec.hrefDangerous` (decode character
    references, trim, strip tab/CR/LF, read the scheme): C04's `safe_href` / `safe_autolink` composed over whole documents. -/
theorem convert_safe_urls_harmless : type_of% @GM.Props.ConvertE2E.convert_safe_urls_harmless := @GM.Props.ConvertE2E.convert_safe_urls_harmless

/-- (re-export of `GM.Props.ConvertE2E.url_pieces_at_attribute_sites`) the piece-list fact behind it holds for EVERY tree, extension set and alignment method (not only parser output):
    C04 quantifies over all byte strings a node can store -/
theorem url_pieces_at_attribute_sites : type_of% @GM.Props.ConvertE2E.url_pieces_at_attribute_sites := @GM.Props.ConvertE2E.url_pieces_at_attribute_sites

/-- (re-export of `GM.Props.ConvertE2E.convert_safe_urls_harmless_tokens`) `convert_safe_urls_harmless_tokens` (C04 at TOKEN level). For EVERY source, Unicode class assignment, XHTML /
    HardWraps setting: the HTML `convertCore` answers in safe mode is accepted by the strict tokenizer and `Spec.urlsOK
    lookupEntity` holds of its tokens — every `href` / `src` value of every start tag, read the way a browser reads it
    (`Spec.hrefDangerous`: decode character references, trim, strip tab / CR / LF, read the scheme), is harmless. This is
    the predicate the run-time oracle `tok urls` evaluates, as a theorem about every document. -/
theorem convert_safe_urls_harmless_tokens : type_of% @GM.Props.ConvertE2E.convert_safe_urls_harmless_tokens := @GM.Props.ConvertE2E.convert_safe_urls_harmless_tokens

/-- (re-export of `GM.Props.ConvertE2E.render_safe_urls_harmless_tokens`) the renderer half of it for EVERY tree with `Spec.Inv`, every option / extension set (footnote `href="#…"` included):
    C04 at token level for the renderer model, not only for parser output -/
theorem render_safe_urls_harmless_tokens : type_of% @GM.Props.ConvertE2E.render_safe_urls_harmless_tokens := @GM.Props.ConvertE2E.render_safe_urls_harmless_tokens

/-- (re-export of `GM.Props.ConvertE2EAll.convert_safe_urls_harmless_total`) **`convert_safe_urls_harmless_total`** — C04 END TO END at TOKEN level, no hypothesis on the source: in safe mode `convertCore`
    answers HTML that the strict tokenizer accepts, and `Spec.urlsOK lookupEntity` holds of its tokens — every `href` / `src`
    value of every start tag, read the way a browser reads it (`Spec.hrefDangerous`: decode character references, trim, strip
    tab / CR / LF, read the scheme), is harmless. -/
theorem convert_safe_urls_harmless_total : type_of% @GM.Props.ConvertE2EAll.convert_safe_urls_harmless_total := @GM.Props.ConvertE2EAll.convert_safe_urls_harmless_total

/-- (re-export of `GM.Props.ConvertE2EAll.convert_safe_urls_harmless_pieces_total`) the piece-level form: every destination-carrying piece stands at an `href=` / `src=` attribute site, its value has no `"`
    and is not dangerous -/
theorem convert_safe_urls_harmless_pieces_total : type_of% @GM.Props.ConvertE2EAll.convert_safe_urls_harmless_pieces_total := @GM.Props.ConvertE2EAll.convert_safe_urls_harmless_pieces_total

end GM.Props.C04
