/-
  Property C02, part b — hard and soft line breaks: the per-line classifier of `(*parser).parseBlock`
  (parser.go:1165-1189, model `GM.InlineLoop.classify`) against the spec-side reading `GM.Spec.hardBreak`
  (CommonMark 0.31.2 §6.7/§6.8/§2.4, written without looking at the code). Helper lemmas: GM/Proof/InlineLoop.lean.

  What the code does, exactly, for a peeked line `body ++ "\n"`:
    hard (backslash form, "visible"): odd run of backslashes directly before "\n", or directly before "\r\n";
        the Text keeps everything before that last backslash, untrimmed (lineLength −2 / −3)
    hard (space form): the two bytes before "\n" (or before "\r\n") are spaces; the Text is right-trimmed
    soft: every other line that ends with "\n"
    neither flag: a line that does not end with "\n"
  Comparison with the CommonMark wording:
    * "preceded by two or more spaces … a backslash before the line ending may be used instead": same; the
      parity rule is §2.4 (an escaped backslash is a literal backslash, not a break) — this is the F8 repair
      (before it `a\\\⏎b` gave a soft break).
    * "and does not occur at the end of a block": the classifier has NO notion of a last line. The block parsers
      strip the block's final newline (paragraph.Close / heading content), so the last line falls under
      `no_newline_no_break`; a block whose last line kept its "\n" would get a flag on its last Text.
    * tabs do not count as the two spaces (`"a \t\n"` is soft), as in the spec.
-/
import GM.Model.InlineLoop
import GM.Spec.HardBreak
import GM.Proof.InlineLoop

namespace GM.Props.C02b
open GM GM.InlineLoop GM.Spec

/-- `hardBreak_iff`. For every line that ends with a newline, the loop's classifier sets the hard-break flag
    exactly when the spec-side reading says so: ≥ 2 spaces, or an ODD number of backslashes, directly before the
    `\n` or before the `\r\n`. -/
theorem hardBreak_iff (body : Bytes) : (classify (body ++ [10])).2.hard = hardBreak body :=
  Proof.InlineLoop.classify_hard body

/-- soft otherwise: a line ending with a newline gets the soft flag exactly when it is not a hard break;
    the two flags are never set together. -/
theorem softBreak_iff (body : Bytes) : (classify (body ++ [10])).2.soft = !hardBreak body := by
  rw [Proof.InlineLoop.classify_soft, hardBreak_iff]
  simp [List.getD_eq_getElem?_getD]

/-- a line that does not end with a newline (the last line of a paragraph, a heading's content) gets neither
    flag and is scanned in full -/
theorem no_newline_no_break (line : Bytes) (h : (line.getD (line.length - 1) 0 == 10) = false) :
    (classify line).2 = ⟨false, false, false⟩ ∧ (classify line).1 = line.length :=
  Proof.InlineLoop.classify_no_newline line h

/-- the scanned part never exceeds the line -/
theorem lineLength_le (line : Bytes) : (classify line).1 ≤ line.length := Proof.InlineLoop.classify_fst_le line

/-! ### tests on literals (`a` = 97, `\` = 92, space = 32, `\r` = 13) -/
example : hardBreak [97, 32, 32] = true := by decide
example : hardBreak [97, 92] = true := by decide
example : hardBreak [97, 92, 92] = false := by decide            -- escaped backslash: soft
example : hardBreak [97, 92, 92, 92] = true := by decide          -- F8: `a\\\` is a hard break
example : hardBreak [97, 92, 13] = true := by decide              -- `a\` CR LF
example : hardBreak [97, 32, 32, 13] = true := by decide
example : hardBreak [97, 32, 9] = false := by decide              -- a tab is not one of the two spaces
example : classify [97, 92, 92, 92, 10] = (3, ⟨true, false, true⟩) := by decide +kernel
example : classify [97, 32, 32, 32, 10] = (2, ⟨true, false, false⟩) := by decide +kernel
example : classify [97, 32, 10] = (3, ⟨false, true, false⟩) := by decide +kernel

end GM.Props.C02b
