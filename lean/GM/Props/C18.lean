/-
  Property C18 — Reader, BlockReader and Segment behave as a cursor over the source.

  Models: GM.Model.Reader / GM.Model.Segment (text/reader.go, text/segment.go, every cached field, Go
  panics explicit). Specification: GM.Spec.Cursor (`RCur` for the source reader, `BCur` for the block
  reader): a cursor `(ln, p, pad)` over the list of line views, every call a *partial* function that is
  undefined (`Panic.pre`) outside the documented preconditions. "The call sequence respects the
  preconditions" therefore reads: the specification's run of the sequence is defined (`= .ok …`).
  The preconditions, spelled out (each is a named definition in GM.Spec.Cursor):
    * `Advance n`: `0 ≤ n` (source reader: stops at the end; block reader also `n ≤ remaining`);
    * `SetPosition line seg`: `WFPos` — `seg` is the rest of a line, as `Position`/`PeekLine` return it;
    * `SetPadding v`: `0 ≤ v`;
    * `LineOffset`: the cursor is not at the end (source reader) / has not left the last line (block);
    * `Value seg`: `seg` lies inside the source;
    * `ResetPosition`, `PrecendingCharacter`: modelled and tied to the code, not specified.
  Only property theorems and their non-vacuity examples live here; lemmas are in GM/Proof/Reader.lean.
-/
import GM.Model.Reader
import GM.Spec.Cursor
import GM.Proof.Reader
import GM.Proof.BlockReader
import GM.Proof.ReaderFuel

namespace GM.Props.C18
open GM GM.Text GM.Spec GM.Proof.Reader

/-! ### source reader -/

/-- One call: if the reader state `r` stands for the cursor `c` and the call is inside the preconditions
    (the cursor's step is defined), the reader does not panic, returns exactly what the cursor returns
    and ends in a state that stands for the cursor's next state. Covers Peek, PeekLine, Advance,
    AdvanceAndSetPadding, AdvanceLine, Position, SetPosition, SetPadding, LineOffset, Value, SkipSpaces,
    SkipBlankLines, ReadRune and FindClosure. -/
theorem reader_refines {src : Bytes} {r : Reader} {c : RCur} (h : RAbs src r c) {op : Op} {out : Out} {c' : RCur}
    (hs : RCur.step src c op = .ok (out, c')) : ∃ r', r.step op = .ok (out, r') ∧ RAbs src r' c' :=
  Proof.Reader.reader_refines h hs

/-- All call sequences, from the fresh reader: whenever the cursor's run of the sequence is defined, the
    reader's run does not panic and every return value of every call agrees (by induction on the
    sequence). -/
theorem reader_refines_seq (src : Bytes) (ops : List Op) {outs : List Out} {c' : RCur}
    (hs : runSteps (RCur.step src) RCur.init ops = .ok (outs, c')) :
    ∃ r', runSteps Reader.step (Reader.new src) ops = .ok (outs, r') ∧ RAbs src r' c' :=
  runSteps_refines (A := RAbs src) (stepC := Reader.step) (stepS := RCur.step src)
    (fun hA h => Proof.Reader.reader_refines hA h) ops (reader_init src) hs

/-- No call sequence inside the preconditions makes the source reader panic (or loop). -/
theorem reader_no_panic (src : Bytes) (ops : List Op) {outs : List Out} {c' : RCur}
    (hs : runSteps (RCur.step src) RCur.init ops = .ok (outs, c')) :
    ∃ x, runSteps Reader.step (Reader.new src) ops = .ok x := by
  obtain ⟨r', h, _⟩ := reader_refines_seq src ops hs
  exact ⟨_, h⟩

/-- pos_in_range: in every state reached inside the preconditions, the segment that Position and
    PeekLine return satisfies `0 ≤ Start ≤ Stop ≤ len(source)`. -/
theorem reader_pos_in_range (src : Bytes) (ops : List Op) {outs : List Out} {c' : RCur} {r' : Reader}
    (hs : runSteps (RCur.step src) RCur.init ops = .ok (outs, c'))
    (hr : runSteps Reader.step (Reader.new src) ops = .ok (outs, r')) :
    0 ≤ r'.position.2.start ∧ r'.position.2.start ≤ r'.position.2.stop ∧
      r'.position.2.stop ≤ src.length := by
  obtain ⟨r2, h, hA⟩ := reader_refines_seq src ops hs
  rw [hr] at h
  simp only [Except.ok.injEq, Prod.mk.injEq, true_and] at h
  subst h
  have := pos_wf hA
  exact ⟨this.1, this.2.1, this.2.2.1⟩

/-- Value(seg) is the segment's own value (source reader): padding spaces, the bytes `src[start:stop)`,
    and a newline if ForceNewline asks for one. -/
theorem reader_value_eq_segment_value {src : Bytes} {r : Reader} {c : RCur} (h : RAbs src r c) (s : Segment)
    (hin : segInRange src s) :
    r.valueOp s = .ok (segValue src s) ∧ s.value src = .ok (segValue src s) :=
  ⟨(value_ref h (c' := c) (v := segValue src s) (by simp [RCur.value, hin])).1, value_spec src s hin⟩

/-- SetPosition with a value Position returned earlier (at state `r`) brings any later state `r2` to a
    state that stands for the same cursor as `r` did — so, by `reader_refines`, every later call sequence
    returns what it would have returned at `r`: the view seen then is restored exactly. -/
theorem reader_setPosition_restores {src : Bytes} {r r2 : Reader} {c c2 : RCur} (h : RAbs src r c) (h2 : RAbs src r2 c2) :
    RAbs src (r2.setPosition r.position.1 r.position.2) c ∧
      (r2.setPosition r.position.1 r.position.2).position = r.position := by
  have h3 := Proof.Reader.reader_setPosition_restores h h2
  exact ⟨h3, by rw [position_ref h3, position_ref h]⟩

/-- FindClosure without the Advance option leaves the cursor, and the reader's Position, untouched. -/
theorem reader_findClosure_noAdvance_restores {src : Bytes} {r : Reader} {c c' : RCur} (h : RAbs src r c)
    {o cl : UInt8} {opts : FindClosureOptions} {out : Out} (hadv : opts.advance = false)
    (hs : RCur.step src c (.findClosure o cl opts) = .ok (out, c')) :
    c' = c ∧ ∃ r', r.step (.findClosure o cl opts) = .ok (out, r') ∧ r'.position = r.position ∧ RAbs src r' c := by
  have e := reader_findClosure_noAdvance hadv h.inRange hs
  obtain ⟨r', h1, h2⟩ := Proof.Reader.reader_refines h hs
  rw [e] at h2
  exact ⟨e, r', h1, by rw [position_ref h2, position_ref h], h2⟩

/-- Peek is the first byte of the line PeekLine returns, or EOF (0xff) when PeekLine returns nil. -/
theorem reader_peek_head {src : Bytes} {r : Reader} {c : RCur} (h : RAbs src r c) :
    ∃ l s r', r.peekLine = .ok ((l, s), r') ∧ r.peek = .ok (match l with | some (b :: _) => b | _ => 255) :=
  Proof.Reader.reader_peek_head h

/-- fuel_suffices and "the helpers stay inside the preconditions" for the source reader: from every cursor
    inside the source, SkipSpaces, SkipBlankLines, ReadRune and FindClosure (any options) are defined — the
    fuel `4·len+64` is never exhausted and no interface call they make is outside Pre. -/
theorem reader_helpers_defined (src : Bytes) (c : RCur) (hc : c.p ≤ src.length) :
    (∃ x, RCur.step src c .skipSpaces = .ok x) ∧ (∃ x, RCur.step src c .skipBlankLines = .ok x) ∧
    (∃ x, RCur.step src c .readRune = .ok x) ∧
    (∀ o cl opts, ∃ x, RCur.step src c (.findClosure o cl opts) = .ok x) :=
  rcur_helpers_defined src c hc

/-- … hence the reader's own SkipSpaces / SkipBlankLines / ReadRune / FindClosure terminate without panic in
    every state that stands for a cursor (no hypothesis on the call itself). -/
theorem reader_helpers_no_panic {src : Bytes} {r : Reader} {c : RCur} (h : RAbs src r c) :
    (∃ x, r.step .skipSpaces = .ok x) ∧ (∃ x, r.step .skipBlankLines = .ok x) ∧ (∃ x, r.step .readRune = .ok x) ∧
    (∀ o cl opts, ∃ x, r.step (.findClosure o cl opts) = .ok x) := by
  obtain ⟨⟨x1, h1⟩, ⟨x2, h2⟩, ⟨x3, h3⟩, h4⟩ := rcur_helpers_defined src c h.inRange
  refine ⟨?_, ?_, ?_, ?_⟩
  · obtain ⟨r', e, _⟩ := Proof.Reader.reader_refines h (out := x1.1) (c' := x1.2) h1; exact ⟨_, e⟩
  · obtain ⟨r', e, _⟩ := Proof.Reader.reader_refines h (out := x2.1) (c' := x2.2) h2; exact ⟨_, e⟩
  · obtain ⟨r', e, _⟩ := Proof.Reader.reader_refines h (out := x3.1) (c' := x3.2) h3; exact ⟨_, e⟩
  · intro o cl opts
    obtain ⟨x, hx⟩ := h4 o cl opts
    obtain ⟨r', e, _⟩ := Proof.Reader.reader_refines h (out := x.1) (c' := x.2) hx; exact ⟨_, e⟩

/-! ### block reader

`WFSegs src segs`: the list of line segments is non-empty; every segment lies in the source, is non-empty,
has padding ≥ 0 and no ForceNewline; the segments are increasing (`stop ≤ next start`). -/

/-- One call of the block reader (Peek, PeekLine, Advance, AdvanceAndSetPadding, AdvanceLine, Position,
    SetPosition, SetPadding, LineOffset, ResetPosition, SkipSpaces, SkipBlankLines, ReadRune, FindClosure):
    inside the preconditions no panic, the cursor's return value, and a state that stands for the cursor's
    next state. -/
theorem blockReader_refines {src : Bytes} {segs : List Segment} (hw : WFSegs src segs) {r : BlockReader} {c : BCur}
    (h : BAbs src segs r c) {op : Op} {out : Out} {c' : BCur} (hs : BCur.step src segs c op = .ok (out, c')) :
    ∃ r', r.step op = .ok (out, r') ∧ BAbs src segs r' c' :=
  Proof.Reader.blockReader_refines (segFacts hw) h hs

/-- All call sequences, from NewBlockReader(src, segs). -/
theorem blockReader_refines_seq {src : Bytes} {segs : List Segment} (hw : WFSegs src segs) (ops : List Op)
    {outs : List Out} {c' : BCur} (hs : runSteps (BCur.step src segs) (BCur.init segs) ops = .ok (outs, c')) :
    ∃ r0 r', BlockReader.new src segs = .ok r0 ∧ runSteps BlockReader.step r0 ops = .ok (outs, r') ∧
      BAbs src segs r' c' := by
  obtain ⟨r0, h0, hA⟩ := blockReader_init (segFacts hw)
  obtain ⟨r', h1, h2⟩ := runSteps_refines (A := BAbs src segs) (stepC := BlockReader.step) (stepS := BCur.step src segs)
    (fun hA h => Proof.Reader.blockReader_refines (segFacts hw) hA h) ops hA hs
  exact ⟨r0, r', h0, h1, h2⟩

/-- No call sequence inside the preconditions makes the block reader panic (or loop). -/
theorem blockReader_no_panic {src : Bytes} {segs : List Segment} (hw : WFSegs src segs) (ops : List Op)
    {outs : List Out} {c' : BCur} (hs : runSteps (BCur.step src segs) (BCur.init segs) ops = .ok (outs, c')) :
    ∃ r0 x, BlockReader.new src segs = .ok r0 ∧ runSteps BlockReader.step r0 ops = .ok x := by
  obtain ⟨r0, r', h0, h1, _⟩ := blockReader_refines_seq hw ops hs
  exact ⟨r0, _, h0, h1⟩

/-- pos_in_range for the block reader: every state that stands for a cursor has
    `0 ≤ Start ≤ Stop ≤ len(source)` (and every state reached inside the preconditions does). -/
theorem blockReader_pos_in_range {src : Bytes} {segs : List Segment} (hw : WFSegs src segs) {r : BlockReader} {c : BCur}
    (h : BAbs src segs r c) :
    0 ≤ r.position.2.start ∧ r.position.2.start ≤ r.position.2.stop ∧ r.position.2.stop ≤ src.length := by
  have := bpos_wf (segFacts hw) h
  exact ⟨this.1, this.2.1, this.2.2.1⟩

/-- SetPosition with a value Position returned earlier restores the cursor (block reader). -/
theorem blockReader_setPosition_restores {src : Bytes} {segs : List Segment} (hw : WFSegs src segs)
    {r r2 : BlockReader} {c c2 : BCur} (h : BAbs src segs r c) (h2 : BAbs src segs r2 c2) :
    ∃ r3, r2.setPosition r.position.1 r.position.2 = .ok r3 ∧ BAbs src segs r3 c ∧ r3.position = r.position := by
  obtain ⟨r3, h3, h4⟩ := Proof.Reader.blockReader_setPosition_restores (segFacts hw) h h2
  exact ⟨r3, h3, h4, by rw [bposition_ref h4, bposition_ref h]⟩

/-- FindClosure without the Advance option leaves the block reader's cursor and Position untouched. -/
theorem blockReader_findClosure_noAdvance_restores {src : Bytes} {segs : List Segment} (hw : WFSegs src segs)
    {r : BlockReader} {c c' : BCur} (h : BAbs src segs r c) {o cl : UInt8} {opts : FindClosureOptions} {out : Out}
    (hadv : opts.advance = false) (hs : BCur.step src segs c (.findClosure o cl opts) = .ok (out, c')) :
    c' = c ∧ ∃ r', r.step (.findClosure o cl opts) = .ok (out, r') ∧ r'.position = r.position ∧ BAbs src segs r' c := by
  have e := blockReader_findClosure_noAdvance (segFacts hw) hadv h.wf hs
  obtain ⟨r', h1, h2⟩ := Proof.Reader.blockReader_refines (segFacts hw) h hs
  rw [e] at h2
  exact ⟨e, r', h1, by rw [bposition_ref h2, bposition_ref h], h2⟩

/-- BlockReader.Value(seg) is the segment's own value (`seg.padding` spaces, then `src[start:stop)`)
    whenever `seg` lies inside one block line `j` (before the next line) without ForceNewline and EITHER starts
    at the line's first byte and carries that line's padding OR starts inside the line and has padding 0
    (`BCur.valuePreAt`; the second case holds since 96b5bf4). -/
theorem blockReader_value_eq_segment_value {src : Bytes} {segs : List Segment} (hw : WFSegs src segs)
    {r : BlockReader} {c : BCur} (h : BAbs src segs r c) (j : Nat) (s : Segment) (hp : BCur.valuePreAt segs j s) :
    r.valueOp s = .ok (segValue src s) :=
  bvalue_ref (segFacts hw) h j s hp

/-- Value(seg) for a segment that starts in block line `j` and may run on over later lines (labels and titles
    that continue on following lines): `BCur.blockValue` — the first line gives its padding only if `seg` starts
    at its first byte, then `src[seg.start : min(seg.stop, line.stop))`; every later line, until one reaches
    `seg.stop`, gives its padding spaces and its bytes. `seg.padding` and ForceNewline are not looked at. -/
theorem blockReader_value_multiline {src : Bytes} {segs : List Segment} (hw : WFSegs src segs)
    {r : BlockReader} {c : BCur} (h : BAbs src segs r c) (j : Nat) (s : Segment) (hp : BCur.valueLineAt segs j s) :
    r.valueOp s = .ok (BCur.blockValue src segs j s) :=
  bvalue_multi (segFacts hw) h j s hp

/-- Peek is the first byte of the line PeekLine returns, or EOF (block reader). -/
theorem blockReader_peek_head {src : Bytes} {segs : List Segment} (hw : WFSegs src segs) {r : BlockReader} {c : BCur}
    (h : BAbs src segs r c) :
    ∃ l s r', r.peekLine = .ok ((l, s), r') ∧ r.peek = .ok (match l with | some (b :: _) => b | _ => 255) :=
  Proof.Reader.blockReader_peek_head (segFacts hw) h

/-- Advance(n) moves exactly n bytes of the view: it uses up exactly n of the bytes that remain in front
    of the cursor (one per step, crossing lines and their padding as needed). -/
theorem blockReader_advance_exact {src : Bytes} {segs : List Segment} (hw : WFSegs src segs) {c : BCur}
    (w : BWF segs c) (hl : BCur.live segs c = true) :
    BCur.remaining segs (BCur.adv1 segs c) = BCur.remaining segs c - 1 :=
  (rem_adv1 (segFacts hw) w hl).1

/-! #### the preconditions are satisfiable (tests on literals) -/

/-- "a\n\tb": PeekLine, Advance 2 (crosses the line), LineOffset, AdvanceAndSetPadding 1 2, PeekLine -/
example : (runSteps (RCur.step [97, 10, 9, 98]) RCur.init
    [.peekLine, .advance 2, .lineOffset, .advanceAndSetPadding 1 2, .peekLine, .position]).isOk = true := by
  decide

instance (src : Bytes) : ∀ (lo : Int) (l : List Segment), Decidable (WFSegsFrom src lo l)
  | _, [] => isTrue trivial
  | lo, s :: rest => by
    unfold WFSegsFrom
    have := instDecidableWFSegsFrom src s.stop rest
    infer_instance

/-- "a\n\tcd\ne" with the block lines {0 2 0}, {3 6 2} (a tab turned into 2 columns of padding), {6 7 0}:
    the segment list is well formed and a sequence crossing the padded line is inside the preconditions -/
example : WFSegs [97, 10, 9, 99, 100, 10, 101] [⟨0, 2, 0, false⟩, ⟨3, 6, 2, false⟩, ⟨6, 7, 0, false⟩] := by
  unfold WFSegs; exact ⟨by simp, by decide⟩

example : (runSteps (BCur.step [97, 10, 9, 99, 100, 10, 101] [⟨0, 2, 0, false⟩, ⟨3, 6, 2, false⟩, ⟨6, 7, 0, false⟩])
    (BCur.init [⟨0, 2, 0, false⟩, ⟨3, 6, 2, false⟩, ⟨6, 7, 0, false⟩])
    [.peekLine, .advance 3, .lineOffset, .peekLine, .position, .skipSpaces, .advanceLine, .peek,
     .findClosure 91 93 ⟨false, false, true, false⟩]).isOk = true := by
  decide +kernel

/-- `valuePreAt` is satisfiable: the rest {4 6 pad 0} of the padded line {3 6 2}, and the whole line -/
example : BCur.valuePreAt [⟨0, 2, 0, false⟩, ⟨3, 6, 2, false⟩, ⟨6, 7, 0, false⟩] 1 ⟨4, 6, 0, false⟩ := by
  refine ⟨⟨3, 6, 2, false⟩, rfl, by decide, by decide, by decide, Or.inr ⟨by decide, rfl⟩, rfl, ?_⟩
  intro n hn
  simp at hn
  subst hn
  decide

example : BCur.valuePreAt [⟨0, 2, 0, false⟩, ⟨3, 6, 2, false⟩, ⟨6, 7, 0, false⟩] 1 ⟨3, 6, 2, false⟩ := by
  refine ⟨⟨3, 6, 2, false⟩, rfl, by decide, by decide, by decide, Or.inl ⟨rfl, rfl⟩, rfl, ?_⟩
  intro n hn
  simp at hn
  subst hn
  decide

/-- test: "a\n\tcd\ne", Value({1 7}) over the three lines = "\n" ++ "  cd\n" ++ "e" -/
example : BCur.blockValue [97, 10, 9, 99, 100, 10, 101] [⟨0, 2, 0, false⟩, ⟨3, 6, 2, false⟩, ⟨6, 7, 0, false⟩] 0
    ⟨1, 7, 0, false⟩ = [10, 32, 32, 99, 100, 10, 101] := by decide

end GM.Props.C18
