/-
  GM.Props.Consts.Mirror — whole-function literal fingerprints.
  One of the five modules behind GM.Props.Consts (see there); separate so that a property can depend on the
  constants of the code its own model mirrors and on no others. Obligations over GM.Gen.Consts (regenerated).
-/
import GM.Spec.ConstFacts

namespace GM.Props.Consts.Mirror
open GM GM.Spec.Consts

/-- Whole-function fingerprints: for each of 50 Go functions that a model mirrors branch by branch, the complete
    sorted multiset of its integer literals is unchanged since the model was last validated against it. Deliberately
    sensitive (a refactoring that adds or rewrites a comparison fires it); it decides nothing about behaviour and is
    meant for `./check consts`, not as a dependency of a property. -/
theorem mirrored_function_literals_tied : allOk mirroredLiterals = true := by decide +kernel

end GM.Props.Consts.Mirror
