/-
  GM.Props.Consts.Parser — constants of the block and inline parsers (parser/*.go, util/util.go): regular expressions, tag set, limits, marker bytes.
  One of the five modules behind GM.Props.Consts (see there); separate so that a property can depend on the
  constants of the code its own model mirrors and on no others. Obligations over GM.Gen.Consts (regenerated).
-/
import GM.Spec.ConstFacts

namespace GM.Props.Consts.Parser
open GM GM.Spec.Consts

/-- The eight regular expressions of parser/html_block.go (start conditions of HTML block types 1-7 and the end
    condition of type 1) have exactly the source text that the matchers `type1Open … type7Match` of
    GM.Model.Blocks.Html were hand-written against, and the alternation `script|pre|style|textarea` is the model's
    `type1Names`. Supports the block-phase model behind C01 (no panic / termination of the block phase), C02
    (CommonMark conformance), C05 (line ranges), C08, C09. -/
theorem html_block_regexps_tied : allOk htmlBlockRegexps = true := by decide +kernel

/-- `allowedBlockTags` (the tag names that open an HTML block of type 6) is, as a set, the model's
    `GM.Blocks.allowedBlockTags`; the closing markers of types 2-5 (`-->`, `?>`, `>`, `]]>`), the three names
    excluded from type 7, the HTMLBlockType numbering and every integer literal of htmlBlockParser.Open/Continue are
    those GM.Model.Blocks.Html uses. Supports the same properties as `html_block_regexps_tied`. -/
theorem html_block_tags_tied : allOk htmlBlockTags = true := by decide +kernel

/-- openTagRegexp / closeTagRegexp of parser/raw_html.go and the three pattern strings they (and HTML block type 7)
    are built from have the text `GM.Inl.matchOpenTag`, `matchCloseTag`, `tagAttrs` and `GM.Blocks.attrOne` were
    written against; the comment / processing-instruction / CDATA / declaration markers are the model's
    `bOpenComment … bCloseCDATA`. Supports the inline-phase model behind C01, C02, C03 (raw HTML is what safe mode
    must omit), C05. -/
theorem raw_html_regexps_tied : allOk rawHtmlRegexps = true := by decide +kernel

/-- util.emailDomainRegexp has the text `GM.Inl.matchEmailDomain` was written against (labels of at most 63 bytes),
    and the literal bounds of FindURLIndex (scheme of 2-32 bytes), FindEmailIndex and autoLinkParser.Parse are the
    model's. Supports the inline-phase model behind C02, C04 (autolink destinations), C11 (linkify's e-mail path). -/
theorem autolink_regexps_tied : allOk autolinkRegexps = true := by decide +kernel

/-- The numeric limits of the grammar as the code states them — link label 999 / 998, ordered-list start of at
    most 9 digits, indentation 3 / 4 in every block parser, code indent 4, fence length 3, ATX level 6, thematic
    break of 3 markers, autolink scheme 32, numeric reference of 7 digits in 32 bits, case-folding fast path below
    0xB5, tab stop 4, the rule of three of emphasis — are the ones the models compare against (one obligation per
    limit: the literal occurs in the named Go function exactly as often as the model mirrors it). Supports
    C01/C02/C05/C08/C09 (block and inline models) and C19 (util model). -/
theorem limits_tied : allOk limits = true := by decide +kernel

/-- The marker bytes — bullets `-*+`, ordered delimiters `.)`, thematic-break `*-_`, fences, `#`, `>`, setext `-`,
    emphasis `*_`, code-span back-tick — are compared in the code exactly as often as the models mirror.
    Supports C02, C08 (marker consumption), C11 (trigger tables). -/
theorem markers_tied : allOk markers = true := by decide +kernel

end GM.Props.Consts.Parser
