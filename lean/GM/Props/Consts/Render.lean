/-
  GM.Props.Consts.Render — literals written by the node renderers; package-level constants that a model names.
  One of the five modules behind GM.Props.Consts (see there); separate so that a property can depend on the
  constants of the code its own model mirrors and on no others. Obligations over GM.Gen.Consts (regenerated).
-/
import GM.Spec.ConstFacts

namespace GM.Props.Consts.Render
open GM GM.Spec.Consts

/-- Every string or byte literal that a node renderer of renderer/html and of the table, footnote, strikethrough,
    task-list and definition-list extensions hands to a Write call is, per renderer function and as a multiset, what
    the renderer model (GM.enter / GM.leave in GM.Model.Render) writes for that node kind — including
    `<!-- raw HTML omitted -->` (= GM.omitted), the footnote id prefixes `fn:` / `fnref` (= the footnote model's
    definitions) and the footnote defaults `footnote-ref`, `footnote-backref`, `&#x21a9;&#xfe0e;` (= the defaults
    of GM.FootCfg). Supports C03 (output vocabulary), C10, C14, C16 (footnote cross-links), C17 (table skeleton). -/
theorem rendered_literals_tied : allOk renderedLiterals = true := by decide +kernel

/-- Package-level constants for which a model has a definition of its own are equal to that definition: attribute
    names and JSON words (GM.Attr), default heading ids (GM.Ids), dangerous URL schemes and image types (GM.Util),
    parser State bits, line-break flags, list types, link FindClosure options, East-Asian and table-align enums;
    and the limits of the renderer-side models: bufio's default buffer of 4096 bytes (read from GOROOT; anchored
    to GM.Bufio.render by `Spec.Consts.bufio_anchor`), the reader's EOF byte 255, the prefix length 11 of
    IsDangerousURL. Supports C03/C04 (attributes, schemes), C14 (bufio), C15 (ids), C11 (state bits), C10 (enums). -/
theorem named_constants_tied : allOk namedConstants = true := by decide +kernel

end GM.Props.Consts.Render
