/-
  GM.Props.Consts.Ext — constants of the other extensions, and the inventory of regular expressions / string sets.
  One of the five modules behind GM.Props.Consts (see there); separate so that a property can depend on the
  constants of the code its own model mirrors and on no others. Obligations over GM.Gen.Consts (regenerated).
-/
import GM.Spec.ConstFacts

namespace GM.Props.Consts.Ext
open GM GM.Spec.Consts

/-- taskListRegexp has the text `GM.Ext.taskParse` was written against; the linkify protocol / `www.` guards are the
    model's definitions; the trigger bytes of the footnote and definition-list openers are the model's; the two
    linkify URL expressions (not modelled) are recorded. Supports C11 (extensions decline without their syntax). -/
theorem extension_regexps_tied : allOk extensionRegexps = true := by decide +kernel

/-- The code compiles exactly the 18 regular expressions named in `regexpNames`, each from string literals and
    never-reassigned package-level strings (so gmgen evaluated its full text), and declares no package-level string
    set other than `allowedBlockTags`: there is no expression or tag list the models have not seen. -/
theorem regexp_inventory_complete : allOk regexpInventory = true := by decide +kernel

end GM.Props.Consts.Ext
