/-
  GM.Props.Consts.Table — constants of extension/table.go.
  One of the five modules behind GM.Props.Consts (see there); separate so that a property can depend on the
  constants of the code its own model mirrors and on no others. Obligations over GM.Gen.Consts (regenerated).
-/
import GM.Spec.ConstFacts

namespace GM.Props.Consts.Table
open GM GM.Spec.Consts

/-- The four delimiter-row expressions of extension/table.go have the text `GM.Table.tableDelimLeft/Right/Center/
    None` were written against; the literals of isTableDelim, parseDelimiter, parseRow, Transform and the alignment
    numbering are the model's. Supports C17 (every rendered table is rectangular) and C11 (table declines). -/
theorem table_regexps_tied : allOk tableRegexps = true := by decide +kernel

end GM.Props.Consts.Table
