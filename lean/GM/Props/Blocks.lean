/-
  GM.Props.Blocks — theorems about the block phase of goldmark (`parser.parseBlocks` with the ten default
  block parsers), over the executable model GM.Model.Blocks that is tied to the real parser by the
  `blocks` correspondence. A shared lemma file: property files for C01 / C05 / C08 / C09 cite these.
  Not a property of its own (no entry in properties_cfg.py).
-/
import GM.Proof.BlocksAtx

namespace GM.Props.Blocks
open GM GM.Text GM.Blocks GM.Spec

/-- **C01, block phase — termination for every byte string.** `GM.Blocks.run src` is the block phase of
    `parser.Parse` on `src` (fresh reader, fresh context, Document node). Its three unbounded Go loops are
    fuelled: the outer `for` of parseBlocks and the `for` over lines with `lineCount src + 2` (number of
    `\n` + 3) iterations, `reader.SkipBlankLines` with the Reader model's `4·len + 64`, the `goto retry` of
    openBlocks with `2·len + 8`. For EVERY source none of them runs out: each line-loop iteration ends in
    `AdvanceLine` after a line that was there (the measure `mu` = lines still to come decreases, and no
    block parser ever moves `pos.Stop` backwards); each `goto retry` follows a container parser that made
    progress (checked by the model's contract monitor, which answers `pre` — never `loop` — otherwise). -/
theorem parseBlocks_fuel_suffices (src : Bytes) : GM.Blocks.run src ≠ .error .loop :=
  run_noLoop src

/-- The outcome of the block phase is a block tree, a Go run-time panic (index / slice / nil / assert /
    explicit) or the contract monitor's `pre` — nothing else, for every source. (That it is always a tree is
    what the `blocks` correspondence checks input by input: the real parser neither panics nor breaks the
    contract on any evaluated source.) -/
theorem parseBlocks_outcome (src : Bytes) :
    (∃ s, GM.Blocks.run src = .ok s) ∨ (∃ e, GM.Blocks.run src = .error e ∧ e ≠ .loop) := by
  cases h : GM.Blocks.run src with
  | ok s => exact .inl ⟨s, rfl⟩
  | error e => exact .inr ⟨e, rfl, fun he => run_noLoop src (he ▸ h)⟩

/-- The fuel of the line loops is the number of lines plus a constant: at most `lineCount src + 2`
    iterations of either loop. -/
theorem linesFuel_eq (src : Bytes) : linesFuel src = (src.filter (· == 10)).length + 3 := by
  unfold linesFuel lineCount; rfl

/-- **No block parser moves the reader backwards over a line end** (C08 mechanism "leaf parsers must not
    advance beyond the current line" is the converse direction; this is the half termination needs): from a
    state whose reader reads `src` with `0 ≤ pos.Stop ≤ len`, `Open` of any of the ten parsers ends — if it
    does not panic — in such a state with `pos.Stop` at least what it was, and it never exhausts fuel. -/
theorem open_keeps_stop (src : Bytes) (bp : BP) (parent : Nat) (s : St)
    (hsrc : s.r.source = src) (h0 : 0 ≤ s.r.pos.stop) (hlen : s.r.pos.stop ≤ src.length) :
    match bpOpen bp parent s with
    | .ok (_, s') => s'.r.source = src ∧ s.r.pos.stop ≤ s'.r.pos.stop ∧ s'.r.pos.stop ≤ src.length
    | .error e => e ≠ .loop := by
  have := (bpOpen_pres (stop_prims src s.r.pos.stop) bp parent).h s ⟨hsrc, h0, hlen, Int.le_refl _⟩
  revert this
  cases bpOpen bp parent s with
  | error e => exact id
  | ok x => intro h; exact ⟨h.source, h.lb, h.stop_le⟩

/-- the same for `Continue` -/
theorem continue_keeps_stop (src : Bytes) (bp : BP) (node : Nat) (s : St)
    (hsrc : s.r.source = src) (h0 : 0 ≤ s.r.pos.stop) (hlen : s.r.pos.stop ≤ src.length) :
    match bpContinue bp node s with
    | .ok (_, s') => s'.r.source = src ∧ s.r.pos.stop ≤ s'.r.pos.stop ∧ s'.r.pos.stop ≤ src.length
    | .error e => e ≠ .loop := by
  have := (bpContinue_pres (stop_prims src s.r.pos.stop) bp node).h s ⟨hsrc, h0, hlen, Int.le_refl _⟩
  revert this
  cases bpContinue bp node s with
  | error e => exact id
  | ok x => intro h; exact ⟨h.source, h.lb, h.stop_le⟩

/-- the same for `Close` -/
theorem close_keeps_stop (src : Bytes) (bp : BP) (node : Nat) (s : St)
    (hsrc : s.r.source = src) (h0 : 0 ≤ s.r.pos.stop) (hlen : s.r.pos.stop ≤ src.length) :
    match bpClose bp node s with
    | .ok (_, s') => s'.r.source = src ∧ s.r.pos.stop ≤ s'.r.pos.stop ∧ s'.r.pos.stop ≤ src.length
    | .error e => e ≠ .loop := by
  have := (bpClose_pres (stop_prims src s.r.pos.stop) bp node).h s ⟨hsrc, h0, hlen, Int.le_refl _⟩
  revert this
  cases bpClose bp node s with
  | error e => exact id
  | ok x => intro h; exact ⟨h.source, h.lb, h.stop_le⟩

/-- **Only the three container parsers can make `openBlocks` retry**: a parser whose `Open` answers
    `HasChildren` is the block quote, list or list item parser (the seven leaf parsers always answer
    `NoChildren`, whatever the state). -/
theorem only_containers_have_children (bp : BP) (parent : Nat) (s s' : St) (a : Option Nat × PState)
    (h : bpOpen bp parent s = .ok (a, s')) (hc : a.2.hasChildren = true) : bp.isContainer = true :=
  hasChildren_only_containers bp parent s s' a h hc

/-! ### no Go panic, parser by parser, from the reader invariant `RI`
   (`RI src r c`: the reader `r` stands for C18's cursor `c` over `src`, GM.Proof.BlocksReader; it holds for
   `Reader.new src` — `ri_init` — and every reader call below ends in it) -/

/-- the reader the block phase starts with satisfies the reader invariant -/
theorem reader_invariant_init (src : Bytes) : RI src (initSt src).r RCur.init := ri_init src

/-- **`blockquote.process` (blockquote.go:20-40): no panic and PROGRESS.** From any state whose reader
    satisfies `RI`, it returns normally (`run_noLoop` excludes the other disjunct for whole runs); the result
    state differs only in the reader, which satisfies `RI` again; when the answer is `true` (a block quote is
    opened or continued) the cursor has passed at least one byte of the source — the marker `>` — and when it
    is `false` the cursor has not moved. This is the block quote's share of the BlockParser contract the
    model's retry monitor checks, and of C08's "a container consumes exactly its marker". -/
theorem blockquote_process_total_progress (src : Bytes) (s : St) (c : RCur) (h : RI src s.r c) :
    (∃ b s', blockquoteProcess s = .ok (b, s') ∧ ∃ r' c', s' = { s with r := r' } ∧ RI src r' c' ∧
        c.p ≤ c'.p ∧ (b = true → c.p < c'.p) ∧ (b = false → c' = c))
    ∨ blockquoteProcess s = .error .loop :=
  blockquoteProcess_okl h

/-- **paragraphParser.Open: no panic; what it builds is in range** (C01 + C05(c) for this entry point). The
    context is untouched; either nothing is built and the cursor has not moved, or the next node of the store
    is a parentless Paragraph with exactly one line, inside the source. -/
theorem paragraph_open_total (src : Bytes) (s : St) (c : RCur) (h : RI src s.r c) (parent : Nat) :
    OKL (fun a s' => ∃ r' c', s'.r = r' ∧ RI src r' c' ∧ c.p ≤ c'.p ∧ s'.pc = s.pc ∧ a.2 = stNoChildren ∧
        ((a.1 = none ∧ s'.nodes = s.nodes ∧ c' = c) ∨
         (a.1 = some s.nodes.length ∧ ∃ nd seg, s'.nodes = s.nodes ++ [nd] ∧ nd.kind = .paragraph ∧
            nd.lines = [seg] ∧ SegOK src seg ∧ nd.parent = none)))
      (paragraphOpen parent s) :=
  paragraphOpen_okl h parent

/-- **paragraphParser.Continue: no panic; the appended line is the (non-empty) rest of the current line.** -/
theorem paragraph_continue_total (src : Bytes) (s : St) (c : RCur) (h : RI src s.r c) (node : Nat) :
    OKL (fun st s' => ∃ r' c', s'.r = r' ∧ RI src r' c' ∧ c.p ≤ c'.p ∧ s'.pc = s.pc ∧
        ((st = stClose ∧ s'.nodes = s.nodes ∧ c' = c) ∨
         (st = stContinueNoChildren ∧ c.p < src.length ∧ SegOK src (RCur.seg src c) ∧
            s'.nodes = s.nodes.set node
              { (s.nodes.getD node default) with
                  lines := (s.nodes.getD node default).lines ++ [RCur.seg src c], linesNil := false })))
      (paragraphContinue node s) :=
  paragraphContinue_okl h node

/-- **paragraphParser.Close keeps the lines in range** (C05(c) under trimming): on a paragraph that has a
    line and whose lines lie inside the source it does not panic, touches neither reader nor context, and
    leaves the node with as many lines, all inside the source. -/
theorem paragraph_close_total (src : Bytes) (s : St) (node : Nat) (hsrc : s.r.source = src)
    (hl : LinesOK src (s.nodes.getD node default).lines) (hne : (s.nodes.getD node default).lines ≠ []) :
    OKL (fun _ s' => s'.r = s.r ∧ s'.pc = s.pc ∧ ∃ ls, LinesOK src ls ∧
        ls.length = (s.nodes.getD node default).lines.length ∧
        s'.nodes = s.nodes.set node { (s.nodes.getD node default) with lines := ls })
      (paragraphClose node s) :=
  paragraphClose_okl node hsrc hl hne

/-- **thematicBreakParser.Open: no panic.** -/
theorem thematic_open_total (src : Bytes) (s : St) (c : RCur) (h : RI src s.r c) (parent : Nat) :
    OKL (fun a s' => ∃ r' c', s'.r = r' ∧ RI src r' c' ∧ c.p ≤ c'.p ∧ s'.pc = s.pc ∧ a.2 = stNoChildren ∧
        ((a.1 = none ∧ s'.nodes = s.nodes ∧ c' = c) ∨
         (a.1 = some s.nodes.length ∧ s'.nodes = s.nodes ++ [{ kind := .thematicBreak }])))
      (thematicOpen parent s) :=
  thematicOpen_okl h parent

/-- **atxHeadingParser.Open: no panic, for any `BlockOffset` in the context** — in particular the backward loop
    `for ; line[i] == '#' && i >= start; i-- {}` (atx_heading.go:153), which reads `line[i]` before testing
    `i >= start`, never reaches index −1 (`start ≥ 1`), and every slice it takes is inside the line. It moves
    neither the cursor nor the context. -/
theorem atx_open_total (src : Bytes) (s : St) (c : RCur) (h : RI src s.r c) (parent : Nat) :
    OKL (fun a s' => ∃ r', s'.r = r' ∧ RI src r' c ∧ s'.pc = s.pc ∧ a.2 = stNoChildren) (atxOpen parent s) :=
  atxOpen_okl h parent

/-! ### statements kept visible but NOT proved (decidable / executable; checked input by input) -/

/-- **C05(c), block phase** (`lines_in_range`, `lines_increasing`): every line segment of every block the
    block phase builds satisfies `0 ≤ start ≤ stop ≤ len`, `padding ≥ 0`, and a block's lines increase.
    NOT PROVED. It is evaluated by the driver (`blocks lines`) on the model's tree for every source of the
    correspondence, and by the Go oracle on the real tree. Missing for a proof: the strong reader invariant
    (`RAbs` of GM.Proof.Reader) through the driver loop, which needs the stack invariant "a list item's
    parent list precedes it in `openedBlocks`" to exclude `Advance(-1)` in list_item.go:75-76. -/
def LinesInRange (src : Bytes) : Prop :=
  ∀ s, GM.Blocks.run src = .ok s → allLinesOK src s = true

/-- **C01, block phase — no panic** for whole runs: NOT PROVED (termination is; no-panic is proved entry point by
    entry point above: blockquote.process, paragraph Open/Continue/Close, thematic break Open). What composing
    them needs is listed in notes/status_blocks.md. -/
def NoPanic (src : Bytes) : Prop := ∃ s, GM.Blocks.run src = .ok s

/-- **C08 on block trees** (`quote_prefix_simulation`), stated, NOT PROVED in general: for a tab- and CR-free,
    non-blank source, the block tree of the source with `"> "` in front of every line (`quotePrefix`) is a
    Document with one Blockquote whose children are the children of the original Document's tree with every
    segment moved by the markers before it (`shiftSeg`); node fields, list item offsets (relative) and the
    `HasBlankPreviousLines` flags the block phase reads (`Tree.readBlank`: list items and children of list
    items, the first excepted) are unchanged. The other blank flags DO differ (a new block directly inside the
    quote after a marker-only line has the flag unset, parser.go:1099), which no renderer observes.
    `quoteSimPair src` computes both canonical dumps (`none` = the statement does not apply); the driver
    evaluates it (`blocks quotesim`) for every tab-free non-blank source of the `blocks` component. -/
def QuotePrefixSimulation (src : Bytes) : Prop :=
  ∀ e g, quoteSimPair src = some (e, g) → e = g

/-! ### tests (non-vacuity: the model produces trees; examples, not theorems) -/

/-- test: a quote with a list and a paragraph -/
example : GM.Blocks.dump (strBytes "> - a\n\nb") =
    "Document(0|||Blockquote(1|||List(1|45,0,1||ListItem(1|2||TextBlock(0||4:5:0:0|))))Paragraph(1||7:8:0:0|))" := by
  decide +kernel

/-- test: `LinesInRange` holds on a sample -/
example : GM.Blocks.checkLines (strBytes "1. a\n\n   b\n```\nc") = "ok" := by decide +kernel

/-- test: the quote-prefix statement on a sample with a loose list, a fence and an HTML block -/
example : GM.Blocks.quoteSim (strBytes "- a\n\n  b\n```\nc\n```\n<!-- x\n-->\ny") = "ok" := by decide +kernel

end GM.Props.Blocks
