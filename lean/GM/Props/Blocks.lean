/-
  GM.Props.Blocks — theorems about the block phase of goldmark (`parser.parseBlocks` with the ten default
  block parsers), over the executable model GM.Model.Blocks that is tied to the real parser by the
  `blocks` correspondence. A shared lemma file: property files for C01 / C05 / C08 / C09 cite these.
  Not a property of its own (no entry in properties_cfg.py).
-/
import GM.Proof.BlocksNoPanicAll
import GM.Proof.BlocksWF0

namespace GM.Props.Blocks
open GM GM.Text GM.Blocks GM.Spec

/-- **C01, block phase — termination for every byte string.** `GM.Blocks.run src` is the block phase of
    `parser.Parse` on `src` (fresh reader, fresh context, Document node). Its three unbounded Go loops are
    fuelled: the outer `for` of parseBlocks and the `for` over lines with `lineCount src + 2` (number of
    `\n` + 3) iterations, `reader.SkipBlankLines` with the Reader model's `4·len + 64`, the `goto retry` of
    openBlocks with `2·len + 8`. For EVERY source none of them runs out: each line-loop iteration ends in
    `AdvanceLine` after a line that was there (the measure `mu` = lines still to come decreases, and no
    block parser ever moves `pos.Stop` backwards); each `goto retry` follows a container parser that made
    progress (checked by the model's contract monitor, which answers `pre` — never `loop` — otherwise). -/
theorem parseBlocks_fuel_suffices (src : Bytes) : GM.Blocks.run src ≠ .error .loop :=
  run_noLoop src

/-- The outcome of the block phase is a block tree, a Go run-time panic (index / slice / nil / assert /
    explicit) or the contract monitor's `pre` — nothing else, for every source. (That it is always a tree is
    what the `blocks` correspondence checks input by input: the real parser neither panics nor breaks the
    contract on any evaluated source.) -/
theorem parseBlocks_outcome (src : Bytes) :
    (∃ s, GM.Blocks.run src = .ok s) ∨ (∃ e, GM.Blocks.run src = .error e ∧ e ≠ .loop) := by
  cases h : GM.Blocks.run src with
  | ok s => exact .inl ⟨s, rfl⟩
  | error e => exact .inr ⟨e, rfl, fun he => run_noLoop src (he ▸ h)⟩

/-- The fuel of the line loops is the number of lines plus a constant: at most `lineCount src + 2`
    iterations of either loop. -/
theorem linesFuel_eq (src : Bytes) : linesFuel src = (src.filter (· == 10)).length + 3 := by
  unfold linesFuel lineCount; rfl

/-- **No block parser moves the reader backwards over a line end** (C08 mechanism "leaf parsers must not
    advance beyond the current line" is the converse direction; this is the half termination needs): from a
    state whose reader reads `src` with `0 ≤ pos.Stop ≤ len`, `Open` of any of the ten parsers ends — if it
    does not panic — in such a state with `pos.Stop` at least what it was, and it never exhausts fuel. -/
theorem open_keeps_stop (src : Bytes) (bp : BP) (parent : Nat) (s : St)
    (hsrc : s.r.source = src) (h0 : 0 ≤ s.r.pos.stop) (hlen : s.r.pos.stop ≤ src.length) :
    match bpOpen bp parent s with
    | .ok (_, s') => s'.r.source = src ∧ s.r.pos.stop ≤ s'.r.pos.stop ∧ s'.r.pos.stop ≤ src.length
    | .error e => e ≠ .loop := by
  have := (bpOpen_pres (stop_prims src s.r.pos.stop) bp parent).h s ⟨hsrc, h0, hlen, Int.le_refl _⟩
  revert this
  cases bpOpen bp parent s with
  | error e => exact id
  | ok x => intro h; exact ⟨h.source, h.lb, h.stop_le⟩

/-- the same for `Continue` -/
theorem continue_keeps_stop (src : Bytes) (bp : BP) (node : Nat) (s : St)
    (hsrc : s.r.source = src) (h0 : 0 ≤ s.r.pos.stop) (hlen : s.r.pos.stop ≤ src.length) :
    match bpContinue bp node s with
    | .ok (_, s') => s'.r.source = src ∧ s.r.pos.stop ≤ s'.r.pos.stop ∧ s'.r.pos.stop ≤ src.length
    | .error e => e ≠ .loop := by
  have := (bpContinue_pres (stop_prims src s.r.pos.stop) bp node).h s ⟨hsrc, h0, hlen, Int.le_refl _⟩
  revert this
  cases bpContinue bp node s with
  | error e => exact id
  | ok x => intro h; exact ⟨h.source, h.lb, h.stop_le⟩

/-- the same for `Close` -/
theorem close_keeps_stop (src : Bytes) (bp : BP) (node : Nat) (s : St)
    (hsrc : s.r.source = src) (h0 : 0 ≤ s.r.pos.stop) (hlen : s.r.pos.stop ≤ src.length) :
    match bpClose bp node s with
    | .ok (_, s') => s'.r.source = src ∧ s.r.pos.stop ≤ s'.r.pos.stop ∧ s'.r.pos.stop ≤ src.length
    | .error e => e ≠ .loop := by
  have := (bpClose_pres (stop_prims src s.r.pos.stop) bp node).h s ⟨hsrc, h0, hlen, Int.le_refl _⟩
  revert this
  cases bpClose bp node s with
  | error e => exact id
  | ok x => intro h; exact ⟨h.source, h.lb, h.stop_le⟩

/-- **Only the three container parsers can make `openBlocks` retry**: a parser whose `Open` answers
    `HasChildren` is the block quote, list or list item parser (the seven leaf parsers always answer
    `NoChildren`, whatever the state). -/
theorem only_containers_have_children (bp : BP) (parent : Nat) (s s' : St) (a : Option Nat × PState)
    (h : bpOpen bp parent s = .ok (a, s')) (hc : a.2.hasChildren = true) : bp.isContainer = true :=
  hasChildren_only_containers bp parent s s' a h hc

/-! ### no Go panic, parser by parser, from the reader invariant `RI`
   (`RI src r c`: the reader `r` stands for C18's cursor `c` over `src`, GM.Proof.BlocksReader; it holds for
   `Reader.new src` — `ri_init` — and every reader call below ends in it) -/

/-- the reader the block phase starts with satisfies the reader invariant -/
theorem reader_invariant_init (src : Bytes) : RI src (initSt src).r RCur.init := ri_init src

/-- **`blockquote.process` (blockquote.go:20-40): no panic and PROGRESS.** From any state whose reader
    satisfies `RI`, it returns normally (`run_noLoop` excludes the other disjunct for whole runs); the result
    state differs only in the reader, which satisfies `RI` again; when the answer is `true` (a block quote is
    opened or continued) the cursor has passed at least one byte of the source — the marker `>` — and when it
    is `false` the cursor has not moved. This is the block quote's share of the BlockParser contract the
    model's retry monitor checks, and of C08's "a container consumes exactly its marker". -/
theorem blockquote_process_total_progress (src : Bytes) (s : St) (c : RCur) (h : RI src s.r c) :
    (∃ b s', blockquoteProcess s = .ok (b, s') ∧ ∃ r' c', s' = { s with r := r' } ∧ RI src r' c' ∧
        c.p ≤ c'.p ∧ (b = true → c.p < c'.p) ∧ (b = false → c' = c))
    ∨ blockquoteProcess s = .error .loop :=
  blockquoteProcess_okl h

/-- **paragraphParser.Open: no panic; what it builds is in range** (C01 + C05(c) for this entry point). The
    context is untouched; either nothing is built and the cursor has not moved, or the next node of the store
    is a parentless Paragraph with exactly one line, inside the source. -/
theorem paragraph_open_total (src : Bytes) (s : St) (c : RCur) (h : RI src s.r c) (parent : Nat) :
    OKL (fun a s' => ∃ r' c', s'.r = r' ∧ RI src r' c' ∧ c.p ≤ c'.p ∧ s'.pc = s.pc ∧ a.2 = stNoChildren ∧
        ((a.1 = none ∧ s'.nodes = s.nodes ∧ c' = c) ∨
         (a.1 = some s.nodes.length ∧ ∃ nd seg, s'.nodes = s.nodes ++ [nd] ∧ nd.kind = .paragraph ∧
            nd.lines = [seg] ∧ SegOK src seg ∧ nd.parent = none)))
      (paragraphOpen parent s) :=
  paragraphOpen_okl h parent

/-- **paragraphParser.Continue: no panic; the appended line is the (non-empty) rest of the current line.** -/
theorem paragraph_continue_total (src : Bytes) (s : St) (c : RCur) (h : RI src s.r c) (node : Nat) :
    OKL (fun st s' => ∃ r' c', s'.r = r' ∧ RI src r' c' ∧ c.p ≤ c'.p ∧ s'.pc = s.pc ∧
        ((st = stClose ∧ s'.nodes = s.nodes ∧ c' = c) ∨
         (st = stContinueNoChildren ∧ c.p < src.length ∧ SegOK src (RCur.seg src c) ∧
            s'.nodes = s.nodes.set node
              { (s.nodes.getD node default) with
                  lines := (s.nodes.getD node default).lines ++ [RCur.seg src c], linesNil := false })))
      (paragraphContinue node s) :=
  paragraphContinue_okl h node

/-- **paragraphParser.Close keeps the lines in range** (C05(c) under trimming): on a paragraph that has a
    line and whose lines lie inside the source it does not panic, touches neither reader nor context, and
    leaves the node with as many lines, all inside the source. -/
theorem paragraph_close_total (src : Bytes) (s : St) (node : Nat) (hsrc : s.r.source = src)
    (hl : LinesOK src (s.nodes.getD node default).lines) (hne : (s.nodes.getD node default).lines ≠ []) :
    OKL (fun _ s' => s'.r = s.r ∧ s'.pc = s.pc ∧ ∃ ls, LinesOK src ls ∧
        ls.length = (s.nodes.getD node default).lines.length ∧
        s'.nodes = s.nodes.set node { (s.nodes.getD node default) with lines := ls })
      (paragraphClose node s) :=
  paragraphClose_okl node hsrc hl hne

/-- **thematicBreakParser.Open: no panic.** -/
theorem thematic_open_total (src : Bytes) (s : St) (c : RCur) (h : RI src s.r c) (parent : Nat) :
    OKL (fun a s' => ∃ r' c', s'.r = r' ∧ RI src r' c' ∧ c.p ≤ c'.p ∧ s'.pc = s.pc ∧ a.2 = stNoChildren ∧
        ((a.1 = none ∧ s'.nodes = s.nodes ∧ c' = c) ∨
         (a.1 = some s.nodes.length ∧ s'.nodes = s.nodes ++ [{ kind := .thematicBreak }])))
      (thematicOpen parent s) :=
  thematicOpen_okl h parent

/-- **atxHeadingParser.Open: no panic, for any `BlockOffset` in the context** — in particular the backward loop
    `for ; line[i] == '#' && i >= start; i-- {}` (atx_heading.go:153), which reads `line[i]` before testing
    `i >= start`, never reaches index −1 (`start ≥ 1`), and every slice it takes is inside the line. It moves
    neither the cursor nor the context. -/
theorem atx_open_total (src : Bytes) (s : St) (c : RCur) (h : RI src s.r c) (parent : Nat) :
    OKL (fun a s' => ∃ r', s'.r = r' ∧ RI src r' c ∧ s'.pc = s.pc ∧ a.2 = stNoChildren) (atxOpen parent s) :=
  atxOpen_okl h parent

/-! ### Round 3: no panic for whole runs, for EVERY byte string -/

/-- **C01, block phase — no Go panic, for every byte string.** `GM.Blocks.run src` (the block phase of `parser.Parse`:
    `parseBlocks / openBlocks / closeBlocks` with the ten default block parsers) always ends normally with a block
    tree: no index / slice / nil / type-assertion / explicit panic is reachable, none of the fuelled loops runs out,
    and the contract monitor of the `goto retry` loop never fires. Every candidate site listed in
    notes/status_blocks.md is covered: `node.LastChild().ChildCount()` (list.go:169,191) and `lastChild.(*ast.ListItem)`
    — a List on `openedBlocks` always has a last child that is a ListItem; `lastOffset(node.Parent())` (list_item.go:62)
    — a ListItem on `openedBlocks` sits directly below its parent List; `reader.AdvanceAndSetPadding(-1,-1)`
    (list_item.go:75-76) — listParser.Continue has closed the list in exactly the cases where IndentPosition is −1;
    the context-key assertions (setext_headings.go:86, fcode_block.go:73,110) — a setext heading / fenced code block
    on `openedBlocks` has its key set; `closeBlocks(-1,-1)` (parser.go:1002) and `lastBlock.Parser.Close` on the zero
    Block (parser.go:977) — RequireParagraph is only answered with a paragraph on top of the stack, which keeps its
    lines and parent; `line[len(line)-1]` (fcode_block.go:84) — a closing fence has ≥ 3 bytes; `Segments.Unshift` /
    `SetSliced` on nil and every `line[i]`, `line[a:b]` of the ten parsers. Proof: the state invariant
    `GM.Blocks.L.StableL` (reader `RI`; node store `NodesOK`, `KidsOK`; stack `BlockOK`, `Leafy`, `ChainedO`) through
    `GM.Blocks.L.runL`; per-parser contracts in GM.Proof.BlocksSpec*. -/
theorem no_panic (src : Bytes) : ∃ s, GM.Blocks.run src = .ok s := by
  obtain ⟨s, h, _⟩ := run_ok_all src
  exact ⟨s, h⟩

/-- no outcome other than a tree: in particular no Go run-time panic of any kind -/
theorem run_never_errs (src : Bytes) (e : Panic) : GM.Blocks.run src ≠ .error e := by
  obtain ⟨s, h, _⟩ := run_ok_all src
  rw [h]; intro h'; cases h'

/-- **The BlockParser contract (parser.go:496-505) is kept at every `goto retry`** — the model's contract monitor
    never fires: a block quote and a list item consume at least their marker byte (`blockquote_process_total_progress`,
    `list_item_open_total_progress`), and a list, which consumes nothing, is never opened directly inside a list
    (so `retryMeasure` decreases there, too). For every byte string. -/
theorem monitor_never_fires (src : Bytes) : GM.Blocks.run src ≠ .error .pre := run_never_errs src .pre

/-- **C05(c), block phase, range clause** (`lines_in_range`): every line segment of every node the block phase builds
    — reachable from the Document or not — satisfies `0 ≤ start ≤ stop ≤ len(source)` and `padding ≥ 0`; moreover a
    node whose `lines.values` is nil has no lines. For every byte string. -/
theorem lines_in_range (src : Bytes) (s : St) (h : GM.Blocks.run src = .ok s) :
    ∀ n ∈ s.nodes, (∀ t ∈ n.lines, 0 ≤ t.start ∧ t.start ≤ t.stop ∧ t.stop ≤ src.length ∧ 0 ≤ t.padding) ∧
      (n.linesNil = true → n.lines = []) := by
  obtain ⟨s', h', hn⟩ := run_ok_all src
  rw [h] at h'; cases h'
  intro n hm
  exact ⟨fun t ht => (hn n hm).lines t ht, (hn n hm).nil⟩

/-- **Every `Open` of the ten default block parsers is total** from the invariant (`LineCtx`: reader invariant `RI`, a
    current line, `BlockOffset` an index of it, `NodesOK`; `KidsOK`: children of Lists are ListItems), with the contract
    `OpenPostW`: where the cursor is afterwards, that the stack is untouched, what the new node looks like, which
    context key is set, that only containers answer HasChildren and then consume a byte (a list excepted). -/
theorem open_total (src : Bytes) (bp : BP) (parent : Nat) (s : St) (c : RCur) (hc : LineCtx src s c) (hk : KidsOK s) :
    OKL (fun a s' => L.OpenPostW src bp parent s c a s') (bpOpen bp parent s) :=
  L.openAllW (lsp_all src) bp parent s c hc hk

/-- **Every `Close` of the ten default block parsers is total** on a block that satisfies `BlockOK`, and keeps the
    store invariants (`ClosePost`). -/
theorem close_total (src : Bytes) (bp : BP) : CloseSpec src bp := L.closeAll src bp

/-- **`Continue` of the eight list-free parsers is total** (`ContSpec`); for the two list parsers see
    `list_continue_total` / `list_item_continue_total`, which need the list hypotheses the driver proof supplies. -/
theorem continue_total (src : Bytes) (bp : BP) (h : bp ≠ .list ∧ bp ≠ .listItem) : ContSpec src bp :=
  (specs_notList src).cont bp h

/-- **listItemParser.Open: no panic and PROGRESS** (the list item's half of "the contract monitor never fires"): when
    it answers HasChildren the cursor has passed at least the marker byte. -/
theorem list_item_open_total_progress (src : Bytes) (parent : Nat) (s : St) (c : RCur) (h : LineCtx src s c)
    (hk : li_ListKidsOK s parent) :
    OKL (fun a s' => ∃ c', RI src s'.r c' ∧ PadOK c' ∧ c.p ≤ c'.p ∧ (a.1 = none → c' = c) ∧
        (a.2.hasChildren = true → c.p < c'.p) ∧
        s'.pc.opened = s.pc.opened ∧ s'.pc.blockOffset = s.pc.blockOffset ∧ s'.pc.tmpPara = s.pc.tmpPara ∧
        s'.pc.fence = s.pc.fence ∧
        (a.1 = none → s'.nodes = s.nodes) ∧
        (∀ id, a.1 = some id → id = s.nodes.length ∧ (nd s parent).kind = .list ∧
            ∃ n, s'.nodes = s.nodes ++ [n] ∧ n.kind = .listItem ∧ n.children = [] ∧ n.lines = [] ∧
              n.linesNil = true ∧ n.parent = none))
      (listItemOpen parent s) :=
  listItemOpen_okl src parent s c h hk

/-- **listItemParser.Continue: no panic** when its parent list has just continued (`li_ListContinued`: listParser.Continue
    did not see `indent < offset` in a situation where it answers Close) — `IndentPosition` is then never −1. -/
theorem list_item_continue_total (src : Bytes) (node : Nat) (s : St) (c : RCur) (h : RI src s.r c) (hpad : PadOK c)
    (hlt : c.p < src.length) (p : Nat) (hp : (nd s node).parent = some p) (hk : li_ListKidsOK s p)
    (hoff : 0 ≤ li_lastOff s p) (hlist : li_ListContinued src s c node p) :
    OKL (fun st s' => ∃ c', RI src s'.r c' ∧ PadOK c' ∧ c.p ≤ c'.p ∧ s'.nodes = s.nodes ∧
        s'.pc.opened = s.pc.opened ∧ s'.pc.tmpPara = s.pc.tmpPara ∧ s'.pc.fence = s.pc.fence ∧
        (st.cont = true → st.hasChildren = true))
      (listItemContinue node s) :=
  listItemContinue_okl src node s c h hpad hlt p hp hk hoff hlist

/-- **The whole-run theorem for the list-free fragment, from parser contracts alone** (the generic driver proof
    `GM.Blocks.run_okl`, which needs no list invariant): sources without `-`, `*`, `+` and digits. Subsumed by
    `no_panic`; kept because its proof (GM.Proof.BlocksDriver) is the readable core of the list-aware one. -/
theorem no_panic_list_free (src : Bytes) (h : ListFree src) : ∃ s, GM.Blocks.run src = .ok s := by
  obtain ⟨s, hs, _⟩ := run_ok_listFree src h
  exact ⟨s, hs⟩

/-! ### statements kept visible but NOT proved (decidable / executable; checked input by input) -/

/-- **C05(c), block phase, with the order clause** (`lines_in_range` + `lines_increasing`): in addition to
    `lines_in_range` (PROVED above) a block's lines do not overlap and increase. The order clause is NOT PROVED. It is
    evaluated by the driver (`blocks lines`) on the model's tree for every source of the correspondence, and by the Go
    oracle on the real tree. Missing for a proof: the per-line protocol as an invariant — "every line of every node
    ends at or before the start of the current source line, until that node receives its (single) line for this
    line" — threaded through the same contracts (`OpenPost`, `ContPost`) that carry `NodesOK` now. -/
def LinesInRange (src : Bytes) : Prop :=
  ∀ s, GM.Blocks.run src = .ok s → allLinesOK src s = true

/-- **What the inline phase assumes about the lines of the blocks it visits** (`WF0` of GM.Props.Inlines: non-empty
    list, every line non-empty and inside the source, padding 0, no ForceNewline, increasing), stated for every
    inline-bearing node (`!IsRaw()` and `Lines().Len() > 0`: Paragraph, Heading, TextBlock — parser.go:1152-1163) of
    the final store. NOT PROVED; `GM.Proof.BlocksWF0.allInlineWF0` evaluates it (exhaustive strings ≤ 7 over an
    8-symbol alphabet in the model and against the real parser: no counterexample). Missing: the order clause as for
    `LinesInRange`, plus "a closed paragraph's lines are non-empty with padding 0" (trim-left of a non-blank line). -/
def InlineLinesWF0 (src : Bytes) : Prop := GM.Proof.BlocksWF0.BlocksEstablishWF0 src

/-- **C08 on block trees** (`quote_prefix_simulation`), stated, NOT PROVED in general: for a tab- and CR-free,
    non-blank source, the block tree of the source with `"> "` in front of every line (`quotePrefix`) is a
    Document with one Blockquote whose children are the children of the original Document's tree with every
    segment moved by the markers before it (`shiftSeg`); node fields, list item offsets (relative) and the
    `HasBlankPreviousLines` flags the block phase reads (`Tree.readBlank`: list items and children of list
    items, the first excepted) are unchanged. The other blank flags DO differ (a new block directly inside the
    quote after a marker-only line has the flag unset, parser.go:1099), which no renderer observes.
    `quoteSimPair src` computes both canonical dumps (`none` = the statement does not apply); the driver
    evaluates it (`blocks quotesim`) for every tab-free non-blank source of the `blocks` component. -/
def QuotePrefixSimulation (src : Bytes) : Prop :=
  ∀ e g, quoteSimPair src = some (e, g) → e = g

/-! ### tests (non-vacuity: the model produces trees; examples, not theorems) -/

/-- test: a quote with a list and a paragraph -/
example : GM.Blocks.dump (strBytes "> - a\n\nb") =
    "Document(0|||Blockquote(1|||List(1|45,0,1||ListItem(1|2||TextBlock(0||4:5:0:0|))))Paragraph(1||7:8:0:0|))" := by
  decide +kernel

/-- test: `LinesInRange` holds on a sample -/
example : GM.Blocks.checkLines (strBytes "1. a\n\n   b\n```\nc") = "ok" := by decide +kernel

/-- test: the quote-prefix statement on a sample with a loose list, a fence and an HTML block -/
example : GM.Blocks.quoteSim (strBytes "- a\n\n  b\n```\nc\n```\n<!-- x\n-->\ny") = "ok" := by decide +kernel

end GM.Props.Blocks
