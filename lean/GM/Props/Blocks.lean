/-
  GM.Props.Blocks — theorems about the block phase of goldmark (`parser.parseBlocks` with the ten default
  block parsers), over the executable model GM.Model.Blocks that is tied to the real parser by the
  `blocks` correspondence. A shared lemma file: property files for C01 / C05 / C08 / C09 cite these.
  Not a property of its own (no entry in properties_cfg.py).
-/
import GM.Proof.BlocksLeaf

namespace GM.Props.Blocks
open GM GM.Text GM.Blocks

/-- **C01, block phase — termination for every byte string.** `GM.Blocks.run src` is the block phase of
    `parser.Parse` on `src` (fresh reader, fresh context, Document node). Its three unbounded Go loops are
    fuelled: the outer `for` of parseBlocks and the `for` over lines with `lineCount src + 2` (number of
    `\n` + 3) iterations, `reader.SkipBlankLines` with the Reader model's `4·len + 64`, the `goto retry` of
    openBlocks with `2·len + 8`. For EVERY source none of them runs out: each line-loop iteration ends in
    `AdvanceLine` after a line that was there (the measure `mu` = lines still to come decreases, and no
    block parser ever moves `pos.Stop` backwards); each `goto retry` follows a container parser that made
    progress (checked by the model's contract monitor, which answers `pre` — never `loop` — otherwise). -/
theorem parseBlocks_fuel_suffices (src : Bytes) : GM.Blocks.run src ≠ .error .loop :=
  run_noLoop src

/-- The outcome of the block phase is a block tree, a Go run-time panic (index / slice / nil / assert /
    explicit) or the contract monitor's `pre` — nothing else, for every source. (That it is always a tree is
    what the `blocks` correspondence checks input by input: the real parser neither panics nor breaks the
    contract on any evaluated source.) -/
theorem parseBlocks_outcome (src : Bytes) :
    (∃ s, GM.Blocks.run src = .ok s) ∨ (∃ e, GM.Blocks.run src = .error e ∧ e ≠ .loop) := by
  cases h : GM.Blocks.run src with
  | ok s => exact .inl ⟨s, rfl⟩
  | error e => exact .inr ⟨e, rfl, fun he => run_noLoop src (he ▸ h)⟩

/-- The fuel of the line loops is the number of lines plus a constant: at most `lineCount src + 2`
    iterations of either loop. -/
theorem linesFuel_eq (src : Bytes) : linesFuel src = (src.filter (· == 10)).length + 3 := by
  unfold linesFuel lineCount; rfl

/-- **No block parser moves the reader backwards over a line end** (C08 mechanism "leaf parsers must not
    advance beyond the current line" is the converse direction; this is the half termination needs): from a
    state whose reader reads `src` with `0 ≤ pos.Stop ≤ len`, `Open` of any of the ten parsers ends — if it
    does not panic — in such a state with `pos.Stop` at least what it was, and it never exhausts fuel. -/
theorem open_keeps_stop (src : Bytes) (bp : BP) (parent : Nat) (s : St)
    (hsrc : s.r.source = src) (h0 : 0 ≤ s.r.pos.stop) (hlen : s.r.pos.stop ≤ src.length) :
    match bpOpen bp parent s with
    | .ok (_, s') => s'.r.source = src ∧ s.r.pos.stop ≤ s'.r.pos.stop ∧ s'.r.pos.stop ≤ src.length
    | .error e => e ≠ .loop := by
  have := (bpOpen_pres (stop_prims src s.r.pos.stop) bp parent).h s ⟨hsrc, h0, hlen, Int.le_refl _⟩
  revert this
  cases bpOpen bp parent s with
  | error e => exact id
  | ok x => intro h; exact ⟨h.source, h.lb, h.stop_le⟩

/-- the same for `Continue` -/
theorem continue_keeps_stop (src : Bytes) (bp : BP) (node : Nat) (s : St)
    (hsrc : s.r.source = src) (h0 : 0 ≤ s.r.pos.stop) (hlen : s.r.pos.stop ≤ src.length) :
    match bpContinue bp node s with
    | .ok (_, s') => s'.r.source = src ∧ s.r.pos.stop ≤ s'.r.pos.stop ∧ s'.r.pos.stop ≤ src.length
    | .error e => e ≠ .loop := by
  have := (bpContinue_pres (stop_prims src s.r.pos.stop) bp node).h s ⟨hsrc, h0, hlen, Int.le_refl _⟩
  revert this
  cases bpContinue bp node s with
  | error e => exact id
  | ok x => intro h; exact ⟨h.source, h.lb, h.stop_le⟩

/-- the same for `Close` -/
theorem close_keeps_stop (src : Bytes) (bp : BP) (node : Nat) (s : St)
    (hsrc : s.r.source = src) (h0 : 0 ≤ s.r.pos.stop) (hlen : s.r.pos.stop ≤ src.length) :
    match bpClose bp node s with
    | .ok (_, s') => s'.r.source = src ∧ s.r.pos.stop ≤ s'.r.pos.stop ∧ s'.r.pos.stop ≤ src.length
    | .error e => e ≠ .loop := by
  have := (bpClose_pres (stop_prims src s.r.pos.stop) bp node).h s ⟨hsrc, h0, hlen, Int.le_refl _⟩
  revert this
  cases bpClose bp node s with
  | error e => exact id
  | ok x => intro h; exact ⟨h.source, h.lb, h.stop_le⟩

/-- **Only the three container parsers can make `openBlocks` retry**: a parser whose `Open` answers
    `HasChildren` is the block quote, list or list item parser (the seven leaf parsers always answer
    `NoChildren`, whatever the state). -/
theorem only_containers_have_children (bp : BP) (parent : Nat) (s s' : St) (a : Option Nat × PState)
    (h : bpOpen bp parent s = .ok (a, s')) (hc : a.2.hasChildren = true) : bp.isContainer = true :=
  hasChildren_only_containers bp parent s s' a h hc

/-! ### statements kept visible but NOT proved (decidable / executable; checked input by input) -/

/-- **C05(c), block phase** (`lines_in_range`, `lines_increasing`): every line segment of every block the
    block phase builds satisfies `0 ≤ start ≤ stop ≤ len`, `padding ≥ 0`, and a block's lines increase.
    NOT PROVED. It is evaluated by the driver (`blocks lines`) on the model's tree for every source of the
    correspondence, and by the Go oracle on the real tree. Missing for a proof: the strong reader invariant
    (`RAbs` of GM.Proof.Reader) through the driver loop, which needs the stack invariant "a list item's
    parent list precedes it in `openedBlocks`" to exclude `Advance(-1)` in list_item.go:75-76. -/
def LinesInRange (src : Bytes) : Prop :=
  ∀ s, GM.Blocks.run src = .ok s → allLinesOK src s = true

/-- **C01, block phase — no panic**: NOT PROVED (only `≠ .loop` is). -/
def NoPanic (src : Bytes) : Prop := ∃ s, GM.Blocks.run src = .ok s

/-- put `"> "` in front of every line -/
def quotePrefix : Bytes → Bytes
  | [] => []
  | l => go l true
where
  go : Bytes → Bool → Bytes
    | [], _ => []
    | c :: cs, atStart => (if atStart then [62, 32] else []) ++ c :: go cs (c == 10)

/-- shift every segment of a tree by the marker bytes put in front of its line: `shift k s` for a segment
    on line number `k` (0-based) of the original source moves it by `2·(k+1)` -/
def lineNo (src : Bytes) (p : Nat) : Nat := ((src.take p).filter (· == 10)).length

def shiftSeg (src : Bytes) (s : Segment) : Segment :=
  { s with start := s.start + 2 * (lineNo src s.start.toNat + 1), stop := s.stop + 2 * (lineNo src (s.stop.toNat - 1) + 1) }

/-- **C08 on block trees** (`quote_prefix_simulation`), stated, NOT PROVED: for a tab- and CR-free,
    non-blank source, the block tree of the prefixed source is a Document with one Blockquote whose children
    are the children of the original Document's tree with every segment shifted by the markers before it
    (node fields and blank-line flags unchanged; list item offsets unchanged because they are relative). -/
def QuotePrefixSimulation (src : Bytes) : Prop :=
  (∀ c ∈ src, c ≠ 9 ∧ c ≠ 13) → ¬ isBlank src →
  ∀ s, GM.Blocks.run src = .ok s →
  ∃ s', GM.Blocks.run (quotePrefix src) = .ok s' ∧
    match treeOf s'.nodes s'.nodes.length 0, treeOf s.nodes s.nodes.length 0 with
    | .node d' [.node q kids'], .node d kids =>
      d'.kind = .document ∧ d.kind = .document ∧ q.kind = .blockquote ∧
      Tree.strs kids' = Tree.strs (kids.map (mapSegs (shiftSeg src)))
    | _, _ => False
where
  mapSegs (f : Segment → Segment) : Tree → Tree
    | .node n cs => .node { n with lines := n.lines.map f, info := n.info.map f,
                                    closure := if n.closure.start < 0 then n.closure else f n.closure }
                      (mapSegsL f cs)
  mapSegsL (f : Segment → Segment) : List Tree → List Tree
    | [] => []
    | t :: ts => mapSegs f t :: mapSegsL f ts

/-! ### tests (non-vacuity: the model produces trees; examples, not theorems) -/

/-- test: a quote with a list and a paragraph -/
example : GM.Blocks.dump (strBytes "> - a\n\nb") =
    "Document(0|||Blockquote(1|||List(1|45,0,1||ListItem(1|2||TextBlock(0||4:5:0:0|))))Paragraph(1||7:8:0:0|))" := by
  decide +kernel

/-- test: `LinesInRange` holds on a sample -/
example : GM.Blocks.checkLines (strBytes "1. a\n\n   b\n```\nc") = "ok" := by decide +kernel

end GM.Props.Blocks
