/-
  C15 / C01 — TOTALITY of `convertH true` (the default pipeline with `parser.WithAutoHeadingID()`), for every byte string
  (package `headingids`, round 3): `converth_total`, `c15_end_to_end_total`.

  Before: `convertH true` answers HTML, or its block phase ended in `lastLine.Value(reader.Source())` inside
  generateAutoHeadingID (atx_heading.go:203) (GM.Props.ConvertE2EAll, builder e2e). That the Heading's last line is inside the
  source when `Close` runs is a fact about an INTERMEDIATE state of the run, which the final-state theorem `block_phase_total`
  does not give.

  How it is closed. `GM.Blocks.runV` (lean/GM/Proof/ConvertHV.lean) is `runT` — the block driver with paragraph transformers, in
  the plain block monad — with ONE difference: behind `Close` of the two heading parsers it evaluates
  `Lines().At(Len()-1).Value(source)` of the node and throws the result away (`bpCloseV`; generated from DriverT.lean by renaming).
    1. `block_phase_h_of_monitor`: when `runV` ends normally, the block phase WITH the option ends normally in the same store
       (GM.Proof.ConvertHVSim / ConvertHVMain: the option's code panics only in that `Value` call, `Generate` always returns).
    2. `runV` is total up to the guard outcome `pre`: builder tnopanic's proof of `block_phase_with_transformers_total`
       (GM.Proof.BlocksTNP1-26, BlocksT) PORTED to `runV` — `lean/GM/Proof/BlocksVNP*.lean`, `BlocksVT.lean` are generated from
       those files by renaming the driver functions and namespaces; the only semantic edits are at the four places where the
       proof uses the contract of `bpClose`: there `bpCloseV_okl` (GM.Proof.BlocksVPre) supplies the same contract for `bpCloseV`,
       because the monitor is a no-op in every state with `NodesOK` — which `ClosePost` gives right behind `bpClose`.
    3. `runV` refines `runT` (GM.Proof.ConvertHVT): a panic of `runV` is a panic of `runT` or a `Value` panic — never `pre`;
       `runT` is total (`block_phase_total`), so `runV` does not answer `pre`.
  Hence `monitored_block_phase_total`, and with e2e's `converth_total_of_block_phase`: `converth_total`.
-/
import GM.Proof.ConvertHVMain
import GM.Proof.ConvertHVT
import GM.Proof.BlocksVNP26
import GM.Props.ConvertE2EAll

namespace GM.Props.C15Total
open GM GM.Text GM.Blocks GM.Convert GM.ConvertH GM.Props.C15E2E

/-- the monitored block driver of the default configuration is total -/
def MonitoredBlockPhaseTotal : Prop := ∀ src : Bytes, ∃ st, runV (paragraphTransformers true) src = .ok st

/-- **the monitored block driver is total for every byte string** (and every line segment of the store it returns lies inside
    the source): the heading's last line is inside the source at the moment `Close` runs -/
theorem monitored_block_phase_total (src : Bytes) :
    ∃ st, runV (paragraphTransformers true) src = .ok st ∧ GM.Blocks.NodesOK src st := by
  rcases GM.Blocks.TV.runV_total src .pre (paragraphTransformers true) (GM.Proof.LinkRefTot2.paragraphTransformers_spec src)
    GM.Proof.LinkRefPres.paragraphTransformers_ok with ⟨s, h, hn, _⟩ | h
  · exact ⟨s, h, hn⟩
  · exfalso
    have ht := GM.Blocks.runV_error_pre _ _ h
    obtain ⟨s, hs, _⟩ := GM.Props.ConvertNP.block_phase_total src
    unfold blockPhase at hs
    rw [hs] at ht
    cases ht

theorem monitored_block_phase_total' : MonitoredBlockPhaseTotal :=
  fun src => (monitored_block_phase_total src).imp fun _ h => h.1

/-- **the option's block phase follows the monitored driver**: when `runV` ends normally, the block phase with
    AutoHeadingID ends normally in the same node store / context, for every transformer list and byte string -/
theorem block_phase_h_of_monitor (guard : Bool) (src : Bytes) (st : Blocks.St)
    (h : runV (paragraphTransformers guard) src = .ok st) : ∃ hs, blockPhaseH true guard src = .ok (hs, st) :=
  runH_of_runV (paragraphTransformers guard) src st h

/-- the monitor only reads: its one step is `valueCheck`, which leaves the state alone (when it returns) -/
theorem monitor_reads_only (node : Nat) (s s' : Blocks.St) (h : valueCheck node s = .ok ((), s')) : s' = s :=
  (generateAutoHeadingID_ok node {} s s' h).1

/-- **`converth_total_of_monitor`**: if the monitored block driver is total, `convertH true` answers HTML for EVERY byte
    string, Unicode-class assignment and renderer option set -/
theorem converth_total_of_monitor (hM : MonitoredBlockPhaseTotal) (uc : List (Nat × (Bool × Bool))) (o : ROpts)
    (src : Bytes) : ∃ html, convertH true uc o src = .ok html := by
  obtain ⟨st, hv⟩ := hM src
  obtain ⟨hs, hb⟩ := block_phase_h_of_monitor true src st hv
  exact GM.Props.ConvertE2EAll.converth_total_of_block_phase uc o src hs st hb

/-- **`c15_end_to_end_total_of_monitor`**: … and every heading start tag of THAT html carries a non-empty id, all distinct:
    `html` is the rendering of the parsed tree; for the Heading nodes the renderer visits, in document order, the attribute lists
    are exactly `id = v`, pairwise distinct; every `v` is non-empty and consists of `a-z 0-9 -`; `<hN id="v">` is a contiguous part
    of `html`. -/
theorem c15_end_to_end_total_of_monitor (hM : MonitoredBlockPhaseTotal) (uc : List (Nat × (Bool × Bool))) (o : ROpts)
    (src : Bytes) :
    ∃ html t, convertH true uc o src = .ok html ∧ parseDocH true true uc src = .ok t ∧ html = render o.rcfg t ∧
      ((rHeadings t).map (·.2)).Nodup ∧
      ∀ p ∈ rHeadings t, ∃ v, p.2 = idAttr v ∧ v ≠ [] ∧ (∀ c ∈ v, IdByte c = true) ∧ startTag p.1 v <:+: html := by
  obtain ⟨st, hv⟩ := hM src
  obtain ⟨hs, hb⟩ := block_phase_h_of_monitor true src st hv
  exact GM.Props.ConvertE2EAll.c15_end_to_end_of_block_phase uc o src hs st hb

/-- per source: whenever the monitored driver returns on `src`, all of the above holds for `src` (no global hypothesis) -/
theorem c15_end_to_end_of_monitor_run (uc : List (Nat × (Bool × Bool))) (o : ROpts) (src : Bytes) (st : Blocks.St)
    (hv : runV (paragraphTransformers true) src = .ok st) :
    ∃ html t, convertH true uc o src = .ok html ∧ parseDocH true true uc src = .ok t ∧ html = render o.rcfg t ∧
      ((rHeadings t).map (·.2)).Nodup ∧
      ∀ p ∈ rHeadings t, ∃ v, p.2 = idAttr v ∧ v ≠ [] ∧ (∀ c ∈ v, IdByte c = true) ∧ startTag p.1 v <:+: html := by
  obtain ⟨hs, hb⟩ := block_phase_h_of_monitor true src st hv
  exact GM.Props.ConvertE2EAll.c15_end_to_end_of_block_phase uc o src hs st hb

/-! ### tests on literals (not theorems): the monitored driver returns on documents with ATX / setext headings in containers -/

-- `# a⏎# a⏎a⏎=⏎`
example : (runV (paragraphTransformers true) [35, 32, 97, 10, 35, 32, 97, 10, 97, 10, 61, 10]).toOption.isSome = true := by
  decide +kernel
-- `> #⏎- a⏎  ==⏎`
example : (runV (paragraphTransformers true) [62, 32, 35, 10, 45, 32, 97, 10, 32, 32, 61, 61, 10]).toOption.isSome = true := by
  decide +kernel

/-- **the block phase with AutoHeadingID is total**: the strict form of `converth_block_phase_projects` — it returns exactly
    when (always) `convertCore`'s block phase returns, in the same store -/
theorem block_phase_h_total (src : Bytes) : ∃ hs st, blockPhaseH true true src = .ok (hs, st) ∧ blockPhase true src = .ok st := by
  obtain ⟨st, hv, _⟩ := monitored_block_phase_total src
  obtain ⟨hs, hb⟩ := block_phase_h_of_monitor true src st hv
  have := GM.Props.C15E2E.converth_block_phase_projects true src
  rw [hb] at this
  exact ⟨hs, st, hb, this⟩

/-- e2e's missing fact: a panic of the block phase with the option is a panic of `convertCore`'s block phase (vacuously: there is none) -/
theorem block_phase_h_error_is_core_error (src : Bytes) (e : Panic) (h : blockPhaseH true true src = .error e) :
    blockPhase true src = .error e := by
  obtain ⟨hs, st, hb, _⟩ := block_phase_h_total src
  rw [hb] at h; cases h

/-- **`converth_total`** — C01 for the AutoHeadingID configuration: for EVERY byte string, Unicode-class assignment and
    renderer option set, `convertH true` (the model of `goldmark.New(WithParserOptions(WithAutoHeadingID()), …).Convert`, tied
    byte for byte by component `converth`) answers HTML: no Go run-time panic, no fuel exhaustion, no monitor, no guard. -/
theorem converth_total (uc : List (Nat × (Bool × Bool))) (o : ROpts) (src : Bytes) :
    ∃ html, convertH true uc o src = .ok html :=
  converth_total_of_monitor monitored_block_phase_total' uc o src

/-- **`c15_end_to_end_total`** — C15 END TO END, TOTAL: for EVERY byte string `convertH true` answers HTML `html`; `html` is the
    rendering of the parsed tree; for the Heading nodes the renderer visits, in document order, the attribute lists are exactly
    `id = v`, pairwise DISTINCT; every `v` is NON-EMPTY and consists of `a-z 0-9 -`; the start tag `<hN id="v">` is a contiguous
    part of `html`. -/
theorem c15_end_to_end_total (uc : List (Nat × (Bool × Bool))) (o : ROpts) (src : Bytes) :
    ∃ html t, convertH true uc o src = .ok html ∧ parseDocH true true uc src = .ok t ∧ html = render o.rcfg t ∧
      ((rHeadings t).map (·.2)).Nodup ∧
      ∀ p ∈ rHeadings t, ∃ v, p.2 = idAttr v ∧ v ≠ [] ∧ (∀ c ∈ v, IdByte c = true) ∧ startTag p.1 v <:+: html :=
  c15_end_to_end_total_of_monitor monitored_block_phase_total' uc o src

end GM.Props.C15Total
