/-
  GM.Props.Convert — theorems about the composition `GM.Convert.convertCore` (lean/GM/Model/Convert.lean): the model of
  `goldmark.New(goldmark.WithRendererOptions(…)).Convert` for the default CommonMark configuration — block phase WITH the
  link reference definition transformer (GM.Model.LinkRef, GM.Model.Blocks.DriverT), inline phase of every non-raw
  block, HTML renderer — tied to `goldmark.Convert` on whole documents by component `convert`
  (harness/cmd/gmharness/comp_convert.go). A shared package: C01 / C02 / C05 / C09 / C11 cite these.
  Helper lemmas: GM/Proof/BlocksT.lean, LinkRefTotal.lean, LinkRefPres.lean, LinkRefFacts.lean, ConvertTotal.lean.
-/
import GM.Proof.ConvertTotal
import GM.Proof.LinkRefFacts

namespace GM.Props.Convert
open GM GM.Text GM.Spec GM.Blocks GM.LinkRef GM.Convert GM.Proof.InlinesReader GM.Proof.LinkRefFacts

/-! ### C01: the whole pipeline never hangs -/

/-- **C01, whole pipeline — no loop of `Convert` runs for ever, for EVERY byte string, every renderer option set
    (Unsafe / XHTML / HardWraps) and every Unicode class assignment.** `convertCore uc o src` never ends in a
    fuel-exhaustion outcome (`blocks loop`, `inlines loop`): the line loops of parseBlocks, SkipBlankLines, the
    `goto retry` loop of openBlocks (incl. the retry behind a transformed paragraph), the transformer's `for` loop with
    SkipSpaces / FindClosure of the block reader, the `retry:` loop of parseBlock with every inline parser and
    ProcessDelimiters, and the renderer's walk (structural). The composition checks two hypotheses at run time and
    answers a distinct outcome instead of assuming them: the lines a paragraph hands to the transformer are well-formed
    (`WFSegs`: non-empty, inside the source, increasing, paddings ≥ 0, no ForceNewline; virtual padding allowed) —
    outcome `blocks pre`; the lines a block hands to the inline phase are `WF0` (well-formed and padding 0) — outcome
    `linesNotWF0`. The tie reports how often they fire: never. -/
theorem convert_never_loops (uc : List (Nat × (Bool × Bool))) (o : ROpts) (src : Bytes) (e : Err)
    (h : convertCore uc o src = .error e) : e.isLoop = false :=
  GM.Proof.ConvertTotal.convertCore_noLoop uc o src h

/-- test on a literal, evaluated by the kernel: `[a]: /u⏎⏎[A]⏎` converts to `<p><a href="/u">A</a></p>⏎` (all options off) -/
example : (convertCore [] {} [91, 97, 93, 58, 32, 47, 117, 10, 10, 91, 65, 93, 10]).toOption =
    some [60, 112, 62, 60, 97, 32, 104, 114, 101, 102, 61, 34, 47, 117, 34, 62, 65, 60, 47, 97, 62, 60, 47, 112, 62, 10] := by
  decide +kernel

/-- the outcome of `convertCore` is HTML, or an error that is not fuel exhaustion (a Go run-time panic of a phase, a
    contract monitor / run-time hypothesis check, a broken modelling invariant of the inline model) -/
theorem convert_outcome (uc : List (Nat × (Bool × Bool))) (o : ROpts) (src : Bytes) :
    (∃ html, convertCore uc o src = .ok html) ∨ (∃ e, convertCore uc o src = .error e ∧ e.isLoop = false) := by
  cases h : convertCore uc o src with
  | ok b => exact .inl ⟨b, rfl⟩
  | error e => exact .inr ⟨e, rfl, convert_never_loops uc o src e h⟩

/-- **the block phase with paragraph transformers terminates**: for every list of paragraph transformers that
    themselves never exhaust fuel and do not touch the main reader (`PTsOK`: they keep every invariant that only
    speaks about the reader), `parseBlocks` with `transformParagraph` called where parser.go calls it (closeBlocks, the
    RequireParagraph path of openBlocks with `goto retry`) never exhausts the fuel of any of its loops. -/
theorem block_phase_with_transformers_terminates (pts : List PT) (hp : PTsOK pts) (src : Bytes) :
    runT pts src ≠ .error .loop :=
  runT_noLoop hp src

/-- the hypothesis is satisfiable: no transformers (the configuration of component `blocks`), and the default list -/
example : PTsOK [] := ptsOK_nil
example : PTsOK (paragraphTransformers true) := GM.Proof.LinkRefPres.paragraphTransformers_ok

/-- the block phase of the default configuration (link reference transformer behind its run-time check) -/
theorem block_phase_terminates (src : Bytes) : blockPhase true src ≠ .error .loop :=
  GM.Proof.LinkRefPres.blockPhase_noLoop src

/-- the inline phase of one block behind its run-time check answers children or `linesNotWF0` — no Go panic, no
    loop, no `pre` of the inline model (GM.Props.Inlines.parseBlock_total under the checked hypothesis) -/
theorem inline_phase_guarded (env : GM.Inl.Env) (src : Bytes) (n : GM.Blocks.Node) :
    (∃ kids, inlinePhase true env src n = .ok kids) ∨ inlinePhase true env src n = .error .linesNotWF0 :=
  GM.Proof.ConvertTotal.inlinePhase_guarded env src n

/-! ### the link reference definition transformer (parser/link_ref.go) -/

/-- **termination of the transformer's scan**: on a paragraph whose lines are well-formed (`WFSegs`; ANY paddings —
    continuation lines behind a partly consumed tab inside a container carry virtual padding when the transformer runs)
    or that has no lines, the `for` loop of Transform with all its SkipSpaces / FindClosure calls never exhausts fuel —
    for every source, every reference map. -/
theorem transform_never_loops (src : Bytes) (lines : List Segment) (h : lines = [] ∨ WFSegs src lines) (refs : RefMap) :
    transformScan src lines refs ≠ .error .loop :=
  GM.Proof.LinkRefPad.transformScan_noLoop_pad h refs

/-- `WFSegs` with a padded continuation line is satisfiable (test on a literal): `> [a]:\n>\t/u`, lines `[a]:` and `/u` with padding 2 -/
example : WFSegs [62, 32, 91, 97, 93, 58, 10, 62, 9, 47, 117] [{ start := 2, stop := 7 }, { start := 9, stop := 11, padding := 2 }] :=
  GM.Proof.LinkRefPad.wfSegsB_sound (by decide)

/-- `WF0` is satisfiable (test on a literal): the one-line paragraph `[a]: /u` -/
example : WF0 [91, 97, 93, 58, 32, 47, 117] [{ start := 0, stop := 7 }] :=
  GM.Proof.LinkRefTotal.wf0B_sound (by decide)

/-- **parseLinkReferenceDefinition is total** on a block reader that stands for a padding-free cursor over well-formed
    lines (`RS`: what NewBlockReader gives for `WF0` lines and what every call leaves): no Go panic — `line[pos]`
    is the first byte behind the skipped white space, every `Advance` stays inside the peeked line, every `Value` is
    in range —, no fuel exhaustion of SkipSpaces / FindClosure; the reader stands for such a cursor again, not further
    back; and a recognised definition (`start > -1`) has moved it forward by at least one byte (its `[`). -/
theorem definition_scanner_total {src : Bytes} {segs : List Segment} (W : WF0 src segs) {r : BlockReader} {c : BCur}
    (h : RS src segs r c) (refs : RefMap) :
    ∃ x r' refs' c', parseLinkReferenceDefinition r refs = .ok (x, r', refs') ∧ RS src segs r' c' ∧ c.p ≤ c'.p ∧
      (x.1 > -1 → c.p < c'.p ∧ c.p < src.length) :=
  GM.Proof.LinkRefTotal.parseLinkReferenceDefinition_total W.1 W.2 h refs

/-- the hypothesis `RS` is satisfiable: the reader NewBlockReader builds over `WF0` lines stands for the initial cursor -/
example {src : Bytes} {segs : List Segment} (W : WF0 src segs) :
    ∃ r, BlockReader.new src segs = .ok r ∧ RS src segs r (BCur.init segs) := by
  have F := GM.Proof.Reader.segFacts W.1
  obtain ⟨r, e, a⟩ := GM.Proof.Reader.blockReader_init F
  exact ⟨r, e, a, segOf_pad F W.2 0 (Int.le_refl _) F.kpos⟩

/-- **the scan of Transform is total** on a paragraph with `WF0` lines (or none): block reader construction, the `for`
    loop with every definition it recognises, the progress monitor of the model (never fires) — an answer
    `(removed line ranges, new reference map)`, for every source and every reference map. What is left of `Transform`
    (the second loop and the tree surgery, `transformFinish`) can still answer `slice` / `pre` / `nil` in the model. -/
theorem transform_scan_total (src : Bytes) (lines : List Segment) (h : lines = [] ∨ WF0 src lines) (refs : RefMap) :
    ∃ res, transformScan src lines refs = .ok res :=
  GM.Proof.LinkRefTotal.transformScan_total h refs

/-- **first definition wins** (pc.AddReference, parser.go:352-357): whatever a paragraph defines, every key the map
    already has keeps its destination and title; the scan only ever extends the map. -/
theorem first_definition_wins {src : Bytes} {lines : List Segment} {refs refs' : RefMap} {rm : List (Int × Int)}
    (h : transformScan src lines refs = .ok (rm, refs')) (k : Bytes) (v : Bytes × Option Bytes)
    (hk : refs.lookup k = some v) : refs'.lookup k = some v :=
  transformScan_extends h k v hk

/-- **the map a paragraph leaves is the old map after AddReference of a list of definitions, in order** — i.e.
    `ds.foldl GM.Refs.addRef refs`, the form in which GM.Props.C09 (`refs_first_wins`, `refs_move_invariant`: a block of
    definitions whose normalised labels occur nowhere else can be moved without changing any lookup) and C19
    (`lookup_label_variant`) speak about the map: those theorems are statements about the map THIS model builds. -/
theorem scan_builds_map_by_add_reference {src : Bytes} {lines : List Segment} {refs refs' : RefMap} {rm : List (Int × Int)}
    (h : transformScan src lines refs = .ok (rm, refs')) :
    ∃ ds : List (Bytes × (Bytes × Option Bytes)), refs' = ds.foldl GM.Refs.addRef refs :=
  transformScan_adds h

/-- a definition whose normalised label is already a key changes nothing -/
theorem duplicate_definition_ignored (m : RefMap) (l d : Bytes) (t : Option Bytes)
    (h : (m.lookup (toLinkReference l)).isSome) : addReference m l d t = m :=
  addReference_dup m l d t h

/-- a definition with a new normalised label is what that label resolves to from then on -/
theorem new_definition_resolves (m : RefMap) (l d : Bytes) (t : Option Bytes)
    (h : m.lookup (toLinkReference l) = none) :
    (addReference m l d t).lookup (toLinkReference l) = some (d, t) :=
  addReference_new m l d t h

/-- hypotheses satisfiable (tests on literals) -/
example : (([] : RefMap).lookup (toLinkReference [97])) = none := rfl
example : ((addReference [] [65] [47, 117] none).lookup (toLinkReference [97])).isSome := by decide +kernel

/-- **C11 mechanism — a paragraph transformer returns without touching a paragraph it does not recognise.**
    When the first call of parseLinkReferenceDefinition declines at `line[pos] != '['` (or earlier), the scan of
    Transform answers: nothing to remove, reference map unchanged; and with nothing to remove the second loop leaves
    the lines as they are. -/
theorem unrecognised_paragraph_untouched {src : Bytes} {lines : List Segment} {refs : RefMap} {b r' : BlockReader}
    (hn : BlockReader.new src lines = .ok b) (hd : defHead b = .ok (none, r')) :
    transformScan src lines refs = .ok ([], refs) ∧ removeLoop [] 0 lines = .ok lines :=
  ⟨transformScan_declined hn hd, removeLoop_nil lines⟩

/-- … at the level of the block-phase state: `Transform` on such a paragraph (it has lines, the scan declines) ends in
    EXACTLY the state it started from — node store, parse context (reference map included), reader. -/
theorem unrecognised_paragraph_state_untouched (node : Nat) (s : GM.Blocks.St)
    (hne : (s.nodes.getD node default).lines ≠ [])
    (hscan : transformScan s.r.source (s.nodes.getD node default).lines s.pc.refs = .ok ([], s.pc.refs)) :
    transform node s = .ok ((), s) :=
  transform_declined_state node s hne hscan

/-- … in terms of bytes: a paragraph with `WF0` lines whose first byte is neither white space nor `[` (the paragraph
    parser trims the first line, so the first byte of a paragraph is never white space) -/
theorem paragraph_not_started_by_bracket_untouched {src : Bytes} {lines : List Segment} (W : WF0 src lines)
    (refs : RefMap) {b0 : UInt8} {rest : Bytes}
    (hv : BCur.view src lines (BCur.init lines) = some (b0 :: rest)) (hsp : isSpace b0 = false) (hbr : b0 ≠ 91) :
    transformScan src lines refs = .ok ([], refs) :=
  transformScan_not_bracket W refs hv hsp hbr

/-- hypotheses satisfiable (test on a literal): the paragraph `ab` -/
example : transformScan [97, 98] [{ start := 0, stop := 2 }] [] = .ok ([], []) :=
  paragraph_not_started_by_bracket_untouched (b0 := 97) (rest := [98])
    (GM.Proof.LinkRefTotal.wf0B_sound (by decide)) [] (by decide) (by decide) (by decide)

/-- **the transformer only removes lines from the FRONT of the paragraph** — unconditional, of the model: whatever
    ranges the scan hands over, when the second stage of Transform (`finishLines`: contract monitor (3) + the
    Sliced / SetSliced / AppendAll loop with its running offset) answers a line list, that list is the paragraph's lines
    without an initial segment: the first `lastEnd` lines are gone, all others are kept, in order. The monitor (the ranges
    are adjacent from line 0 on and end inside the paragraph) answers `pre` otherwise; since /repo 0539a73 (the reader
    continues at the START of the line behind a definition) it never fires on any document of the tie — before that
    commit it fires on findings R4 / R5, where goldmark removed lines 0 and 2 of a paragraph and kept line 1. -/
theorem transformer_removes_front {rs : List (Int × Int)} {lines ls : List Segment} (h : finishLines rs lines = .ok ls) :
    ls = lines.drop (lastEnd 0 rs).toNat :=
  finishLines_front h

/-- the hypothesis is satisfiable (test on a literal, kernel-evaluated) -/
example : (finishLines [(0, 1), (1, 2)] [{ start := 0, stop := 3 }, { start := 3, stop := 5 }, { start := 5, stop := 9 }]).toOption.map
    (·.map fun s => (s.start, s.stop)) = some [(5, 9)] := by decide +kernel

/-- the arithmetic half of `transformer_removes_front`, without the monitor: for removed ranges that
    are adjacent from line 0 on (`(0,e₁), (e₁,e₂), …`: each definition starts on the line where the previous one ended) the
    second loop of Transform (Sliced / SetSliced / AppendAll with the running offset) drops exactly the first `lastEnd`
    lines, keeps the others in order. (Before /repo 0539a73 the scan could answer NON-adjacent ranges — for
    `[foo]:⏎/url⏎"title" [b]: /x` the ranges (0,1), (2,3), after which this loop removed lines 0 and 2 and kept line 1:
    findings R4 / R5 of notes/status_convert.md; the kernel-evaluated witness that stood here no longer exists.) -/
theorem transformer_removes_front_partial (rs : List (Int × Int)) (lines : List Segment) (ha : Adjacent 0 rs)
    (hl : lastEnd 0 rs ≤ lines.length) : removeLoop rs 0 lines = .ok (lines.drop (lastEnd 0 rs).toNat) := by
  have := removeLoop_front rs 0 lines ha (by omega)
  simpa using this

/-- hypotheses satisfiable -/
example : Adjacent 0 [(0, 1), (1, 3)] ∧ lastEnd 0 [(0, 1), (1, 3)] = 3 :=
  ⟨⟨rfl, by decide, rfl, by decide, trivial⟩, rfl⟩

/-- regression tests on literals, evaluated by the kernel (the inputs of findings R4 / R5 after the repair): the scan of
    `[foo]:⏎/url⏎"title" [b]: /x` answers the single range (0,2) and registers `foo` WITHOUT a title; `[b]` is not defined -/
def witnessSrc : Bytes :=
  [91, 102, 111, 111, 93, 58, 10, 47, 117, 114, 108, 10, 34, 116, 105, 116, 108, 101, 34, 32, 91, 98, 93, 58, 32, 47, 120, 10]
def witnessLines : List Segment := [{ start := 0, stop := 7 }, { start := 7, stop := 12 }, { start := 12, stop := 28 }]

example : (transformScan witnessSrc witnessLines []).toOption.map (·.1) = some [(0, 2)] := by decide +kernel
example : (transformScan witnessSrc witnessLines []).toOption.map (fun x => x.2.map fun d => (d.1, d.2.1, d.2.2.isSome)) =
    some [([102, 111, 111], [47, 117, 114, 108], false)] := by decide +kernel

/-- **a title is only ever registered when the rest of its line is blank**: whatever the title stage answers, the map
    is unchanged, or the definition was registered WITHOUT a title (and then ends behind the destination's line), or it was
    registered with the title and nothing but white space follows the closing delimiter on its line. (The other exits of
    parseLinkReferenceDefinition register `nil` titles by construction: `defNoTitle_result`, the no-opener exit.) -/
theorem title_needs_blank_rest_of_line (r : BlockReader) (refs : RefMap) (sl el : Int) (ep : Segment) (nl : Bool)
    (label dest : Bytes) (sg : List Segment) {x : Int × Int} {r' : BlockReader} {refs' : RefMap}
    (h : defTitled r refs sl el ep nl label dest sg = .ok (x, r', refs')) :
    refs' = refs ∨ refs' = addReference refs label dest none ∨
      (RestBlank r ∧ ∃ t, closureValue r sg = .ok t ∧ refs' = addReference refs label dest t) :=
  defTitled_title_needs_blank_rest r refs sl el ep nl label dest sg h

/-- a definition that ends behind its destination's line (title opener without closer, or a "title" followed by text):
    no title, range end `endLine + 1`, and the reader continues at the START of the next line
    (`SetPosition(endLine, endPos); AdvanceLine()`), so paragraph text on the would-be title line ends the scan -/
theorem definition_without_title_ends_after_destination_line (r : BlockReader) (refs : RefMap) (sl el : Int) (ep : Segment)
    (label dest : Bytes) {x : Int × Int} {r' : BlockReader} {refs' : RefMap}
    (h : defNoTitle r refs sl el ep label dest = .ok (x, r', refs')) :
    x = (sl, el + 1) ∧ refs' = addReference refs label dest none ∧
      ∃ r1, r.setPosition el ep = .ok r1 ∧ r1.advanceLine = .ok r' :=
  defNoTitle_result r refs sl el ep label dest h

/-- **the scan stops at the first call that is not a definition**: when parseLinkReferenceDefinition declines, the `for`
    loop of Transform returns at once with the ranges and the map it has (nothing behind that point is looked at) -/
theorem scan_stops_at_first_non_definition (fuel : Nat) (rd rd' : BlockReader) (refs refs' : RefMap)
    (removes : List (Int × Int)) (s e : Int)
    (h : parseLinkReferenceDefinition rd refs = .ok ((s, e), rd', refs')) (hs : ¬ s > -1) :
    transformLoop (fuel + 1) rd refs removes = .ok (removes, refs') :=
  transformLoop_stops fuel rd rd' refs refs' removes s e h hs

/-! ### stated, not proved -/

/-- what remains for the full C01 statement on the model: `convertCore` always answers HTML. Proved: never `loop`
    (above); the inline phase behind its check never panics. Missing: (1) `GM.Props.Blocks.NoPanic`-style invariants
    of the block driver (stack / tree invariants; the candidate panic sites are listed in notes/status_blocks.md) now
    also through `transformParagraph`; (2) the three contract monitors never fire (`blocks pre`); (3) the block phase
    only produces `WF0` lines for inline-bearing blocks (`linesNotWF0` unreachable) — C05(c) of the block phase;
    (4) `Segment.Value` of every line / info / closure segment is in range; (5) `renderPanics` is none on parser
    output (heading level ≤ 6, code spans hold text — the latter is GM.Props.Inlines.codespan_holds_text). -/
def NoPanic : Prop := ∀ uc o src, ∃ html, convertUnguarded uc o src = .ok html

/-- the run-time checks are only observers: whenever `convertCore` answers HTML, `convertUnguarded` answers the same.
    (By construction the two differ only in the two `if guard && …` tests; not mechanised.) -/
def GuardsAreObservers : Prop := ∀ uc o src html, convertCore uc o src = .ok html → convertUnguarded uc o src = .ok html

/-- contract monitor (3) never fires: on a paragraph with well-formed padding-free lines none of which is blank (what the
    paragraph parser produces) the ranges the scan answers are adjacent from line 0 on and end inside the paragraph.
    NOT proved (needs: behind SkipSpaces the reader is on the line where the previous definition ended — a landing lemma
    for SkipSpaces over a blank rest of a line —, `line < number of lines` through Advance / SkipSpaces / FindClosure, and
    the exit-by-exit bookkeeping of `endLine`); true of the code only since /repo 0539a73. The tie evaluates the monitor on
    every paragraph of every document: it never fires. -/
def ScanRangesAdjacent : Prop :=
  ∀ (src : Bytes) (lines : List Segment) (refs : RefMap) rm refs', WF0 src lines →
    (∀ s ∈ lines, isBlank (sub src s.start.toNat s.stop.toNat) = false) →
    transformScan src lines refs = .ok (rm, refs') → Adjacent 0 rm ∧ lastEnd 0 rm ≤ lines.length

/-- C09, second half, on the model: a block of definitions with pairwise distinct normalised labels, none defined in
    `d`, terminated by a blank line, can be moved from the top of a document to its end. NOT proved (needs: the block
    phase of `defs ++ d` is the block phase of `d` shifted by `defs.length` plus the map of `defs` — a simulation
    argument over GM.Blocks like `QuotePrefixSimulation`; and GM.Props.C09.refs_move_invariant for the map).
    Searched on the real code by the oracle `definitions-not-position-independent` of component `convert`. -/
def DefinitionsMove : Prop :=
  ∀ uc o (defs d : Bytes), (∀ b ∈ d, b ≠ 13) →
    (∃ st, blockPhase false defs = .ok st ∧ (treeOf st.nodes st.nodes.length 0).str = "Document(1|||)") →
    convertUnguarded uc o (defs ++ d) = convertUnguarded uc o (d ++ [10, 10] ++ defs)

end GM.Props.Convert
