/-
  Property C05 — every parsed AST is a well-formed tree with all positions inside the source.

  C05 has three clauses: (a) the link fields (Parent, siblings, First/LastChild, ChildCount) agree with the
  actual child sequence and no node appears twice; (b) only public kinds, in legal places; (c) every
  recorded position is inside the source, block lines increase, inline text segments are in document order.
  The formal statement of all three is the decidable predicate `GM.Spec.AstWF.wfAst` on a dump of the tree.

  What is PROVED here, and how it is tied to the parser:

  (a) For EVERY sequence of calls of the seven ast.Node mutators that stays within the proviso of C13
      (`PreAll`: no node inserted into its own subtree or relative to itself, no nil where Go dereferences),
      started from freshly allocated nodes, the resulting pointer heap is exactly the plain forest of child
      lists and every accessor returns what that forest says (`parser_traces_refine`). The parser builds its
      tree ONLY through these calls, and this is not assumed but checked per parse: the `verif` hook
      ast.VerifTrace logs every top-level mutator call of a real Parse; component `asttrace` replays the
      log on the heap model with the proviso DECIDED before every call (`GM.AstTrace.runChecked`) and
      compares the model's final heap with the real final tree. `checked_replay_ok`,
      `checked_replay_violated`, `checked_replay_never_stuck` say that the replay's answer is exact:
      `ok` iff the trace is within the proviso, and then the final heap is the forest.
  (c) Pieces: the inline driver loop leaves its text segments inside the block's lines and in increasing
      order (`inline_text_segments_monotone`, re-export of C05a), and every segment a reader / block
      reader hands out by Position/PeekLine lies inside the source (`reader_positions_in_range`,
      `blockReader_positions_in_range`, re-exports of C18).

  What is NOT proved (monitored by search: `wfAst`, evaluated by the Lean driver AND an independent Go
  checker on every tree of component `wfast`):
    * that the block parsers and inline parsers put only public kinds in legal places (clause (b)),
      e.g. that every Delimiter / link-label bookkeeping node is gone when a block is finished;
    * that block parsers store only reader-derived segments as a block's lines, in increasing order, and
      that the built-in inline parsers (emphasis / link post-processing, MergeOrReplaceTextSegment) keep the
      text segments ordered when they re-cut Text nodes (clause (c) beyond the loop and the readers);
    * that the recorded trace is complete: it is, if no code outside package ast writes link fields
      (Gen.Facts: nothing outside `ast` calls SetParent/SetNextSibling/SetPreviousSibling) — and a write
      that bypassed the mutators would show up as a difference between the replayed heap and the real tree.
  Block- and inline-phase models are being built by other packages.

  Helper lemmas: GM/Proof/AstTrace.lean (+ the C13 development GM/Proof/Ast*.lean).
-/
import GM.Props.C13
import GM.Props.C05a
import GM.Props.C18
import GM.Proof.AstTrace
import GM.Props.Inlines
import GM.Props.Blocks
import GM.Props.Wf0
import GM.Props.C05E2E
import GM.Props.ConvertE2ENT
import GM.Props.ConvertE2ENP

namespace GM.Props.C05

section links
open GM.Spec GM.Spec.Forest GM.AstHeap GM.AstTrace GM.Proof.AstHeap

/-! ## (a) links and counts: any mutator-call trace within the proviso yields a consistent tree -/

/-- `parser_traces_refine`. Take ANY list of mutator calls over `n` allocated nodes that is within the
    proviso (`PreAll`), replayed from fresh nodes with any fuel above `n`. Then the replay neither panics
    nor loops, and in the final heap, with `f` the list-of-children forest the documented meaning of the
    calls gives:
    ChildCount is the length of the child list, HasChildren its non-emptiness, FirstChild / LastChild its
    two ends; Parent(c) = p exactly when c is in p's list; NextSibling / PreviousSibling of a child are its
    neighbours in that list (so walking forward from FirstChild or backward from LastChild spells the same
    list); no node is in two lists or twice in one list; and the forest has no cycle.
    This is clause (a) of C05 for every tree built through the API within the proviso. -/
theorem parser_traces_refine {n fuel : Nat} (hn : n < fuel) (ops : List Op)
    (hpre : PreAll Forest.empty ops) (hin : ∀ op ∈ ops, OpIn n op) :
    ∃ h', run fuel Heap.empty ops = .ok h' ∧
      (∀ p, childCount h' p = ((specRun Forest.empty ops) p).length ∧
            hasChildren h' p = !((specRun Forest.empty ops) p).isEmpty ∧
            firstChild h' p = ((specRun Forest.empty ops) p).head? ∧
            lastChild h' p = ((specRun Forest.empty ops) p).getLast?) ∧
      (∀ c p, parentNode h' c = some p ↔ c ∈ (specRun Forest.empty ops) p) ∧
      (∀ c p, c ∈ (specRun Forest.empty ops) p →
            nextSibling h' c = nextIn ((specRun Forest.empty ops) p) c ∧
            previousSibling h' c = prevIn ((specRun Forest.empty ops) p) c) ∧
      (∀ c p q, c ∈ (specRun Forest.empty ops) p → c ∈ (specRun Forest.empty ops) q → p = q) ∧
      (∀ p, ((specRun Forest.empty ops) p).Nodup) ∧
      Acyclic (specRun Forest.empty ops) := by
  obtain ⟨h', he, A⟩ := C13.run_refines_fresh hn ops hpre hin
  refine ⟨h', he, ?_, ?_, ?_, ?_, ?_, C13.run_acyclic hn ops hpre hin⟩
  · exact fun p => ⟨C13.childCount_eq A p, C13.hasChildren_eq A p, C13.firstChild_eq A p, C13.lastChild_eq A p⟩
  · exact fun c p => C13.parent_eq A c p
  · exact fun c p hc => ⟨C13.nextSibling_eq A hc, C13.previousSibling_eq A hc⟩
  · exact fun c p q hp hq => (C13.child_lists_disjoint A hp hq).1
  · exact fun p => A.nodup p

/-- `preB_sound`. On a heap that represents a forest, the decidable check the replay makes before a call
    (walk up the Parent chain from the target parent looking for the inserted node; compare the reference
    node with the inserted node; reject nil) accepts only calls within the proviso `Pre`. -/
theorem preB_sound {h : Heap} {f : Forest} (A : Abs h f) {fuel : Nat} {op : Op}
    (hok : preB fuel h op = true) : Pre f op :=
  Proof.AstTrace.preB_sound A hok

/-- … and it rejects only calls outside the proviso: a `pre-violated` answer is never a false alarm. -/
theorem preCheck_violated_exact {h : Heap} {f : Forest} (A : Abs h f) {fuel : Nat} {op : Op}
    (hv : preCheck fuel h op = .violated) : ¬ Pre f op :=
  Proof.AstTrace.preCheck_violated A hv

/-- `fuel_suffices` for the check: on an acyclic forest over `n` allocated nodes the walk up the Parent
    chain ends within `n + 1` steps, so with fuel above `n` the check always decides. -/
theorem preCheck_fuel_suffices {h : Heap} {f : Forest} (A : Abs h f) (hA : Acyclic f) {n : Nat}
    (B : Bounded n f) {fuel : Nat} (hn : n < fuel) (op : Op) : preCheck fuel h op ≠ .fuel :=
  Proof.AstTrace.preCheck_ne_fuel A hA B hn op

/-- The driver's re-tabulation of the heap (done every 32 calls, for speed only) is the identity. -/
theorem compact_is_identity (n : Nat) (h : Heap) : compact n h = h :=
  Proof.AstTrace.compact_eq n h

/-- `checked_replay_ok`. When the checked replay of a trace (what the driver does for component
    `asttrace`: from the empty heap, fuel `2N+2`, all ids below `N`) answers `ok h'`, then the trace is
    within the proviso, `h'` is the heap of the plain model run, and it represents the spec forest — so all
    the observer equalities of `parser_traces_refine` hold of the very heap whose dump is compared with the
    real tree. -/
theorem checked_replay_ok {n fuel : Nat} (hn : n < fuel) (ops : List Op) (hin : ∀ op ∈ ops, OpIn n op)
    {h' : Heap} (hr : runChecked n fuel 0 Heap.empty ops = .ok h') :
    PreAll Forest.empty ops ∧ run fuel Heap.empty ops = .ok h' ∧ Abs h' (specRun Forest.empty ops) := by
  have := Proof.AstTrace.runChecked_meaning hn ops 0 abs_empty (bounded_empty n) acyclic_empty hin
  rw [hr] at this; exact this

/-- `checked_replay_violated`. When it answers `pre-violated@k`, the trace really is outside the proviso:
    the parser used the API in a way C13 does not cover. -/
theorem checked_replay_violated {n fuel : Nat} (hn : n < fuel) (ops : List Op) (hin : ∀ op ∈ ops, OpIn n op)
    {k : Nat} (hr : runChecked n fuel 0 Heap.empty ops = .preViolated k) : ¬ PreAll Forest.empty ops := by
  have := Proof.AstTrace.runChecked_meaning hn ops 0 abs_empty (bounded_empty n) acyclic_empty hin
  rw [hr] at this; exact this

/-- `checked_replay_never_stuck`. It gives no other answer: the check never runs out of fuel and, behind a
    passed check, the model never panics or loops. -/
theorem checked_replay_never_stuck {n fuel : Nat} (hn : n < fuel) (ops : List Op) (hin : ∀ op ∈ ops, OpIn n op) :
    (∀ k, runChecked n fuel 0 Heap.empty ops ≠ .preFuel k) ∧
    (∀ k e, runChecked n fuel 0 Heap.empty ops ≠ .fault k e) := by
  have := Proof.AstTrace.runChecked_meaning hn ops 0 abs_empty (bounded_empty n) acyclic_empty hin
  constructor
  · intro k hr; rw [hr] at this; exact this
  · intro k e hr; rw [hr] at this; exact this

/-- Summary: the replay accepts a trace exactly when the trace is within the proviso. -/
theorem checked_replay_accepts_iff {n fuel : Nat} (hn : n < fuel) (ops : List Op) (hin : ∀ op ∈ ops, OpIn n op) :
    (runChecked n fuel 0 Heap.empty ops).isOk = true ↔ PreAll Forest.empty ops :=
  Proof.AstTrace.runChecked_isOk_iff hn ops hin

end links

/-! ## (c) positions: the proved pieces, under C05 names -/

section inlineLoop
open GM GM.InlineLoop GM.Proof.InlineLoop

/-- Clause (c), "the text segments of a block's inline content appear in document order within that
    block's lines", for the inline driver loop `(*parser).parseBlock` over ANY inline parsers: every Text
    child the loop leaves is a range `start ≤ stop` inside one line of the block, and each stops at or
    before the start of the next. (Re-export of `GM.Props.C05a.segments_monotone`.) -/
theorem inline_text_segments_monotone (P : Params) (b : Block) (hWF : WF b) :
    (∀ x ∈ texts (run P b).st.kids, x.1 ≤ x.2 ∧ ∃ s ∈ b.lines, s.start ≤ x.1 ∧ x.2 ≤ s.stop) ∧
    (texts (run P b).st.kids).Pairwise (fun x y => x.2 ≤ y.1) :=
  C05a.segments_monotone P b hWF

/-- The inline driver loop terminates (no panic, no fuel exhaustion) when every parser that returns a
    node has consumed input. (Re-export of `GM.Props.C05a.loop_terminates`.) -/
theorem inline_loop_terminates (P : Params) (b : Block) (hWF : WF b) (hC : Contract P.parsers) :
    ∃ st, run P b = .done st :=
  C05a.loop_terminates P b hWF hC

end inlineLoop

section readers
open GM GM.Text GM.Spec GM.Proof.Reader

/-- Clause (c), "0 ≤ Start ≤ Stop ≤ len(source)", for every segment the source reader returns from
    Position / PeekLine after any call sequence inside its preconditions — the segments block parsers
    store as a block's lines are obtained this way. (Re-export of `GM.Props.C18.reader_pos_in_range`.) -/
theorem reader_positions_in_range (src : Bytes) (ops : List Op) {outs : List Out} {c' : RCur} {r' : Reader}
    (hs : runSteps (RCur.step src) RCur.init ops = .ok (outs, c'))
    (hr : runSteps Reader.step (Reader.new src) ops = .ok (outs, r')) :
    0 ≤ r'.position.2.start ∧ r'.position.2.start ≤ r'.position.2.stop ∧
      r'.position.2.stop ≤ src.length :=
  C18.reader_pos_in_range src ops hs hr

/-- The same for the block reader the inline phase reads a block's lines through: in every state that
    stands for a cursor over well-formed line segments, Position lies inside the source.
    (Re-export of `GM.Props.C18.blockReader_pos_in_range`.) -/
theorem blockReader_positions_in_range {src : Bytes} {segs : List Segment} (hw : WFSegs src segs)
    {r : BlockReader} {c : BCur} (h : BAbs src segs r c) :
    0 ≤ r.position.2.start ∧ r.position.2.start ≤ r.position.2.stop ∧ r.position.2.stop ≤ src.length :=
  C18.blockReader_pos_in_range hw h

end readers

/-! ## non-vacuity / tests on literals -/

section tests
open GM.Spec GM.Spec.Forest GM.AstHeap GM.AstTrace GM.Proof.AstHeap

/-- the REAL trace of Parse("- Foo\n--\n") with all extensions (9 nodes; 0 = Document, the Setext
    fallback splices with InsertAfter + RemoveChild), as recorded by the hook -/
def setextTrace : List Op :=
  [.append 0 (some 1), .append 1 (some 2), .append 2 (some 3), .append 4 (some 5), .append 6 (some 5),
   .append 7 (some 6), .insertAfter 2 (some 3) (some 7), .remove 2 (some 3), .append 5 (some 8)]

/-- test: the ids are among the 9 allocated ones -/
theorem setextTrace_in : ∀ op ∈ setextTrace, OpIn 9 op := by
  intro op hop
  simp only [setextTrace, List.mem_cons, List.not_mem_nil, or_false] at hop
  rcases hop with h | h | h | h | h | h | h | h | h <;> subst h <;> simp [OpIn]

/-- test: the checked replay accepts it (kernel evaluation) … -/
theorem setextTrace_accepted : (runChecked 9 20 0 Heap.empty setextTrace).isOk = true := by
  decide +kernel

/-- … hence `PreAll` is satisfiable by a real parser trace: the hypotheses of `parser_traces_refine` are
    not vacuous -/
example : PreAll Forest.empty setextTrace :=
  (checked_replay_accepts_iff (by decide) setextTrace setextTrace_in).1 setextTrace_accepted

/-- test: the final model heap, through the accessors: Document → List → ListItem → the new node 7 → … -/
example :
    (match runChecked 9 20 0 Heap.empty setextTrace with
     | .ok h => (childCount h 2, firstChild h 2, lastChild h 2, parentNode h 7, parentNode h 3, childCount h 5)
     | _ => (0, none, none, none, none, 0)) = (1, some 7, some 7, some 2, none, 1) := by
  decide +kernel

/-- test: a transformer-style call that inserts a node below itself is rejected at that call -/
example :
    (match runChecked 3 8 0 Heap.empty [.append 0 (some 1), .append 1 (some 2), .append 2 (some 0)] with
     | .preViolated k => some k
     | _ => none) = some 2 := by
  decide +kernel

/-- test: the spec forest of the real trace at the list item (node 2) is the single new child 7 -/
example : specRun Forest.empty setextTrace 2 = [7] := by decide

end tests

/-! ### clause (b) for the inline phase — kinds in legal places (GM.Model.Inlines*, tied by the `inlines` correspondence) -/

/-- After ProcessDelimiters and the link parser's CloseBlock no Delimiter or link-label bookkeeping node survives
    anywhere in the inline tree of a block, for every source, segment list, reference map and Unicode-class assignment. -/
theorem no_bookkeeping_node_survives : type_of% @GM.Props.Inlines.no_delimiter_survives := @GM.Props.Inlines.no_delimiter_survives
/-- Every Emphasis node produced by the inline phase has level 1 or 2. -/
theorem emphasis_levels_1_2 : type_of% @GM.Props.Inlines.emphasis_levels := @GM.Props.Inlines.emphasis_levels
/-- Every CodeSpan produced by the inline phase holds only Text nodes. -/
theorem code_spans_hold_text : type_of% @GM.Props.Inlines.codespan_holds_text := @GM.Props.Inlines.codespan_holds_text
/-- No Link has a Link below it (through Emphasis and Image descriptions too). -/
theorem links_never_nested : type_of% @GM.Props.Inlines.no_link_in_link := @GM.Props.Inlines.no_link_in_link

/-- Clause (c) for inline content, for EVERY source and padding-free well-formed line list: all segments recorded in the
    inline tree that parseBlock returns (Text nodes, code-span text, autolink values, raw HTML segments) lie inside
    the source and follow each other in document order without overlap. -/
theorem inline_segments_in_range_and_ordered : type_of% @GM.Props.Inlines.text_segments_in_range_and_ordered := @GM.Props.Inlines.text_segments_in_range_and_ordered

/-! ### the block phase (GM.Model.Blocks, tied by the `blocks` correspondence) -/

/-- (c) for block lines, range clause, for EVERY byte string: every line segment of every block the block phase
    builds satisfies `0 ≤ start ≤ stop ≤ len(source)` and `padding ≥ 0`. (The order clause "a block's lines increase"
    is `GM.Props.Blocks.LinesInRange`, stated, evaluated on every `blocks` case, not yet proved.) -/
theorem block_lines_in_range : type_of% @GM.Props.Blocks.lines_in_range := @GM.Props.Blocks.lines_in_range
/-- No block parser ever moves the reader's line end backwards (an ingredient of "a block's lines are increasing"). -/
theorem block_parsers_keep_line_end : type_of% @GM.Props.Blocks.open_keeps_stop := @GM.Props.Blocks.open_keeps_stop
/-- Only blockquote, list and list item can have children: the seven leaf block parsers always answer NoChildren. -/
theorem only_containers_have_children : type_of% @GM.Props.Blocks.only_containers_have_children := @GM.Props.Blocks.only_containers_have_children

/-- (re-export of `GM.Props.Wf0.inline_lines_ordered`) **C05(c), order clause, every source.** When the block phase returns, every block of the store that is not raw —
    `!IsRaw()`: Document, Paragraph, TextBlock, ThematicBreak, Blockquote, Heading, List, ListItem; in particular every
    block whose lines the inline phase reads — has increasing line segments: the first starts at or behind 0, each next
    one at or behind the previous `Stop`. (Reachable from the Document or not: replaced paragraphs are included.) -/
theorem block_lines_ordered : type_of% @GM.Props.Wf0.inline_lines_ordered := @GM.Props.Wf0.inline_lines_ordered

/-- (re-export of `GM.Props.Wf0.inline_lines_in_range_and_ordered`) **C05(c) for non-raw blocks, both clauses, as the Boolean the driver evaluates** (`GM.Blocks.linesOK`, op
    `blocks lines`): every line inside the source, padding ≥ 0, and a line never starts before the previous line's stop. -/
theorem block_lines_in_range_and_ordered : type_of% @GM.Props.Wf0.inline_lines_in_range_and_ordered := @GM.Props.Wf0.inline_lines_in_range_and_ordered

/-- (re-export of `GM.Props.Wf0.inline_lines_wellformed`) **The lines of every non-raw block that has lines are WELL FORMED, every source**: `WFSegs src n.lines`
    (GM.Spec.Cursor) — a non-empty list of non-empty segments inside the source that increase, padding ≥ 0, no
    ForceNewline. This is the predicate `GM.LinkRef.guardedTransform` checks (`wfSegsB`) and, up to `padding = 0`, the
    `WF0` the inline-phase theorems assume. -/
theorem block_lines_wellformed : type_of% @GM.Props.Wf0.inline_lines_wellformed := @GM.Props.Wf0.inline_lines_wellformed

/-- (re-export of `GM.Props.Wf0.lines_ordered_reduction`) **what `LinesInRange` still needs**: the range clause is proved for all blocks and the order clause for the non-raw
    ones, so `GM.Props.Blocks.LinesInRange src` is equivalent to the order clause for the three raw kinds alone. -/
theorem block_lines_order_remaining : type_of% @GM.Props.Wf0.lines_ordered_reduction := @GM.Props.Wf0.lines_ordered_reduction

/-- (re-export of `GM.Props.C05E2E.parser_output_wellformed_partial`) `parser_output_wellformed_partial` (C05 over `GM.Convert`). For EVERY byte string `src` and Unicode class
    assignment: when the parse phases answer the tree `a`, its position dump passes `wfAst` — clause (a) by
    construction; clause (b) root / heading levels / kinds / inline places / code spans / emphasis levels / links
    proved; clause (c) proved for ALL inline segments (range, order, padding, inside the block's lines) and for info /
    closure segments — GIVEN, for the store `st` the block phase returns, the FOUR named hypotheses `StoreHypsCore src st`:
        `lines` (LinesInRange — the shape of `GM.Blocks.NodesOK`), `ord` (LinesOrdered — the shape of
        `GM.Blocks.OrdFrom 0`), `noLines` (Document and List nodes have no lines), `listShape` (a child is a ListItem
        exactly when its parent is a List; one direction is `KidsOK.kids`).
    No hypothesis about the inline phase remains. -/
theorem parser_output_wellformed_partial : type_of% @GM.Props.C05E2E.parser_output_wellformed_partial := @GM.Props.C05E2E.parser_output_wellformed_partial

/-- (re-export of `GM.Props.C05E2E.clause_a_by_construction`) `clause_a_by_construction`. For ANY dump `t` built as nested lists, after numbering (`relabel`): no id occurs twice
    and every node's forward walk, backward walk, ChildCount, HasChildren and its children's Parent() agree with the
    nesting — so `wfAst` answers "well formed" as soon as the identity-free clauses (`semWf`: kinds, places, levels,
    segments) hold everywhere. -/
theorem clause_a_by_construction : type_of% @GM.Props.C05E2E.clause_a_by_construction := @GM.Props.C05E2E.clause_a_by_construction

/-- (re-export of `GM.Props.C05E2E.root_is_document`) `root_is_document`: node 0 of every store the block phase returns — the root of the tree — is the Document
    (a frame invariant: no step of the block phase writes a node's kind; carried through `runT` by `Keeps`) -/
theorem root_is_document : type_of% @GM.Props.C05E2E.root_is_document := @GM.Props.C05E2E.root_is_document

/-- (re-export of `GM.Props.C05E2E.inline_nodes_legal`) `inline_nodes_legal`. The inline children `parseBlock` answers, dumped below a block (or inline node) that is
    neither the Document nor a List: only the public kinds Text / CodeSpan / Emphasis / Link / Image / AutoLink /
    RawHTML (no Delimiter, no link-label bookkeeping node), inline nodes only below blocks and inline nodes, a CodeSpan
    holds only Text, emphasis levels 1..2, no Link inside a Link at any depth, and — given their range — every Text /
    RawHTML segment passes the range clause. From the shape theorem of the inline phase, for every source / lines /
    reference map. -/
theorem inline_nodes_legal : type_of% @GM.Props.C05E2E.inline_nodes_legal := @GM.Props.C05E2E.inline_nodes_legal

/-- (re-export of `GM.Props.C05E2E.block_node_clauses`) `block_node_clauses`: all identity-free clauses of one block node of the dump from the per-node facts `BlockP`
    (heading level, lines / info / closure in range, lines increasing, Document and List without lines), the facts
    `KidsP` about its inline children and the ListItem ⇔ List relation to its parent -/
theorem block_node_clauses : type_of% @GM.Props.C05E2E.block_node_clauses := @GM.Props.C05E2E.block_node_clauses

/-- (re-export of `GM.Props.C05E2E.inline_segments_end_inside_block`) `inline_segments_end_inside_block`: the segments the inline phase records for a block, in tree order, are in
    range, ordered, and end at or before the end of the block's LAST line (new; GM.Props.Inlines bounds them by
    `len(source)`) -/
theorem inline_segments_end_inside_block : type_of% @GM.Props.C05E2E.inline_segments_end_inside_block := @GM.Props.C05E2E.inline_segments_end_inside_block

/-- (re-export of `GM.Props.C05E2E.inline_segments_unpadded`) `inline_segments_unpadded`: the segments the inline phase records have padding 0 (round 2: PROVED, was a named
    hypothesis) — so with their range (`GM.Props.Inlines.text_segments_in_range_and_ordered`) they pass `segOK` -/
theorem inline_segments_unpadded : type_of% @GM.Props.C05E2E.inline_segments_unpadded := @GM.Props.C05E2E.inline_segments_unpadded

/-- (re-export of `GM.Props.C05E2E.inline_segments_inside_block_lines`) `inline_segments_inside_block_lines` (clause (c), "inline segments lie inside the block's lines, in order" — round
    2: PROVED, was searched only). For EVERY source, `WF0` line list, reference map, Unicode class assignment: the
    segments recorded in the tree `parseBlock` answers, in tree order, start at or behind the start of the block's FIRST
    line, end at or before the end of its LAST line, none is inverted, each starts at or behind the end of the one
    before. (GM.Proof.E2ELoLoop / E2ELoLink: the loop invariant and the contracts of the five inline parsers re-run with
    the lower bound of the segment chain generalised from 0 to the first line's start.) -/
theorem inline_segments_inside_block_lines : type_of% @GM.Props.C05E2E.inline_segments_inside_block_lines := @GM.Props.C05E2E.inline_segments_inside_block_lines

/-- (re-export of `GM.Props.C05E2E.info_closure_in_range`) `info_closure_in_range` (clause (c) for the two segments of a block that are neither lines nor inline content —
    round 2: PROVED for every source): FencedCodeBlock.Info and HTMLBlock.ClosureLine lie inside the source -/
theorem info_closure_in_range : type_of% @GM.Props.C05E2E.info_closure_in_range := @GM.Props.C05E2E.info_closure_in_range

/-- (re-export of `GM.Props.Wf0.lines_in_range_and_ordered`) **C05(c) with the order clause, every source** (`GM.Props.Blocks.LinesInRange src` is a theorem): when the block
    phase returns, the line segments of EVERY node of the store lie inside the source (0 ≤ start ≤ stop ≤ len,
    padding ≥ 0) and increase (each starts at or behind the previous stop). -/
theorem lines_in_range_and_ordered : type_of% @GM.Props.Wf0.lines_in_range_and_ordered := @GM.Props.Wf0.lines_in_range_and_ordered

/-- (re-export of `GM.Props.Wf0.raw_lines_ordered`) **C05(c), order clause for the three raw kinds, every source.** The line segments of every CodeBlock,
    FencedCodeBlock and HTMLBlock of the final store increase: each line is appended on its own source line, at or
    behind the line start — `preserveLeadingTabInCodeBlock`, which moves a segment start one byte back onto a tab, never
    leaves the line, because a virtual padding only exists behind a tab of the current line (`PadL`). -/
theorem raw_block_lines_ordered : type_of% @GM.Props.Wf0.raw_lines_ordered := @GM.Props.Wf0.raw_lines_ordered

/-- (re-export of `GM.Props.Wf0.all_lines_ordered`) the same, spelled out per node -/
theorem all_block_lines_ordered : type_of% @GM.Props.Wf0.all_lines_ordered := @GM.Props.Wf0.all_lines_ordered

/-- (re-export of `GM.Props.Wf0.container_nodes_no_lines`) **containers carry no lines, every source**: in the final store, Document, Blockquote, List, ListItem and
    ThematicBreak nodes have an empty line list (`Lines().Len() == 0`): no block parser ever appends to them. -/
theorem container_nodes_no_lines : type_of% @GM.Props.Wf0.container_nodes_no_lines := @GM.Props.Wf0.container_nodes_no_lines

/-- (re-export of `GM.Props.Wf0.list_shape`) **`list_shape`, every source**: in the final store of the block phase a child node is a ListItem exactly when its
    parent is a List (children lists; `st.nodes.getD i default` is node `i`). "Children of a List are ListItems" is the
    list invariant of the no-panic proof; "a ListItem only ever hangs under a List" holds because the one call that
    attaches the node a parser has built (`parent.AppendChild`, parser.go:1003) attaches a FRESH node of the parser's
    kind, and listItemParser.Open answers a node only when `parent` is a List (list_item.go:25-28). -/
theorem list_shape : type_of% @GM.Props.Wf0.list_shape := @GM.Props.Wf0.list_shape

/-- (re-export of `GM.Props.Wf0.store_hyps_core_run`) **the four store facts the end-to-end proof of C05 (`wfAst`) takes as hypotheses (`GM.E2E.StoreHypsCore`: `lines`,
    `ord`, `noLines`, `listShape`), for the final store of `run`, every source** — stated here without importing the
    end-to-end files; `OrdFrom` is `GM.Blocks.OrdFrom` (the recursion of `GM.E2E.ordFrom`). -/
theorem store_hyps_core_run : type_of% @GM.Props.Wf0.store_hyps_core_run := @GM.Props.Wf0.store_hyps_core_run

/-- (re-export of `GM.Props.ConvertE2ENT.parser_output_wellformed_without_transformers`) **`parser_output_wellformed_without_transformers`** — C05 END TO END, unconditional, for the parser without paragraph
    transformers: for EVERY byte string and Unicode-class assignment the parse phases answer a tree, and its position dump
    (the format of the harness' dumper) passes `Spec.wfAst` with `len(source)`: clause (a) sibling / parent links and
    counts, no node twice; (b) the root is the Document, children of Lists are ListItems and ListItems only occur there,
    inline nodes only below blocks that take them, Heading levels 1..6, Emphasis levels 1..2; (c) every segment inside the
    source, a block's lines in order, inline segments in order inside their block's lines. -/
theorem parser_output_wellformed_without_transformers : type_of% @GM.Props.ConvertE2ENT.parser_output_wellformed_without_transformers := @GM.Props.ConvertE2ENT.parser_output_wellformed_without_transformers

/-- (re-export of `GM.Props.ConvertE2ENT.parser_output_wellformed_bracket_free`) **`parser_output_wellformed_bracket_free`** — C05 END TO END, unconditional, for the DEFAULT pipeline on every source
    without `[`: whenever the parse phases answer a tree, its position dump passes `Spec.wfAst` — all four store hypotheses
    are theorems, because the store is the store of the transformer-free block phase (`block_phase_bracket_free`) -/
theorem parser_output_wellformed_bracket_free : type_of% @GM.Props.ConvertE2ENT.parser_output_wellformed_bracket_free := @GM.Props.ConvertE2ENT.parser_output_wellformed_bracket_free

/-- (re-export of `GM.Props.ConvertE2ENT.parse_ast_exists_without_transformers`) `parse_ast_exists_without_transformers`: the parser without transformers always answers a tree (with segments) -/
theorem parse_ast_exists_without_transformers : type_of% @GM.Props.ConvertE2ENT.parse_ast_exists_without_transformers := @GM.Props.ConvertE2ENT.parse_ast_exists_without_transformers

/-- (re-export of `GM.Props.ConvertE2ENT.store_hyps_of_plain_driver`) `store_hyps_of_plain_driver`: ALL FOUR store hypotheses of `parser_output_wellformed_partial` are theorems for the
    transformer-free block phase, every source — `lines` (`GM.Props.Blocks.lines_in_range`), `ord` (wf0 `all_lines_ordered`, the
    raw kinds included), `noLines` (wf0 `container_nodes_no_lines`), `listShape` (the children of a List are ListItems:
    `KidsOK` of the final store; a ListItem is only ever a child of a List: GM.Proof.E2EList). -/
theorem store_hyps_of_plain_driver : type_of% @GM.Props.ConvertE2ENT.store_hyps_of_plain_driver := @GM.Props.ConvertE2ENT.store_hyps_of_plain_driver

/-- (re-export of `GM.Props.ConvertE2ENT.block_phase_items_under_lists`) **`block_phase_items_under_lists`** — for EVERY source: in the store the block phase WITH the link-reference transformer
    returns (guarded or not), a ListItem is only ever a child of a List, and every child index is a node of the store.
    (An invariant that is NOT blind to child lists: the two edge-adding writes of ast.go — `AppendChild`, `InsertBefore` —
    are obligations; the four places that add an edge know that the new child is a fresh node of another kind, or that
    `listItemParser.Open` has just checked `parent.(*ast.List)`.) -/
theorem block_phase_items_under_lists : type_of% @GM.Props.ConvertE2ENT.block_phase_items_under_lists := @GM.Props.ConvertE2ENT.block_phase_items_under_lists

/-- (re-export of `GM.Props.ConvertE2ENT.list_shape_of_kids_ok`) `list_shape_of_kids_ok`: with `KidsOK` (tnopanic `block_phase_total`) the store hypothesis `listShape` of the default
    pipeline is a theorem -/
theorem list_shape_of_kids_ok : type_of% @GM.Props.ConvertE2ENT.list_shape_of_kids_ok := @GM.Props.ConvertE2ENT.list_shape_of_kids_ok

/-- (re-export of `GM.Props.ConvertE2ENT.parser_output_wellformed_of_block_phase_facts`) `parser_output_wellformed_of_block_phase_facts` — C05 END TO END for the default pipeline from facts about its block
    phase in the shapes the block-phase packages state them: `NodesOK` and `KidsOK` (tnopanic `block_phase_total`), the
    order of the lines of every block (tnopanic `block_phase_lines_wellformed` has the non-raw kinds) and "Document / List
    have no lines" — wf0 has the last two for `run` (`all_lines_ordered`, `container_nodes_no_lines`), NOT yet for the
    driver with the transformer. The other half of the list shape is `block_phase_items_under_lists`. -/
theorem parser_output_wellformed_of_block_phase_facts : type_of% @GM.Props.ConvertE2ENT.parser_output_wellformed_of_block_phase_facts := @GM.Props.ConvertE2ENT.parser_output_wellformed_of_block_phase_facts

/-- (re-export of `GM.Props.ConvertE2ENT.parser_output_wellformed_of_store`) `parser_output_wellformed_of_store`: `parser_output_wellformed_partial` for ANY list of paragraph transformers that
    keep the three frame invariants (`PTsGood`; the empty list and the default list do) -/
theorem parser_output_wellformed_of_store : type_of% @GM.Props.ConvertE2ENT.parser_output_wellformed_of_store := @GM.Props.ConvertE2ENT.parser_output_wellformed_of_store

/-- (re-export of `GM.Props.ConvertE2ENP.parser_output_wellformed_partial_raw`) **C05 END TO END for the default pipeline**, given ONE fact nobody has yet for the driver with the transformer: the order
    of the lines of CodeBlock / FencedCodeBlock / HTMLBlock (wf0 has it for `run`; unconditional on sources without `[`:
    `GM.Props.ConvertE2ENT.parser_output_wellformed_bracket_free`) -/
theorem parser_output_wellformed_partial_raw : type_of% @GM.Props.ConvertE2ENP.parser_output_wellformed_partial_raw := @GM.Props.ConvertE2ENP.parser_output_wellformed_partial_raw

/-- (re-export of `GM.Props.ConvertE2ENP.parser_output_wellformed`) **C05 END TO END for the default pipeline, every source, no hypothesis**: whenever the parse phases answer a tree (they always
    do: `parse_ast_total`), its position dump passes `Spec.wfAst` with `len(source)` -/
theorem parser_output_wellformed : type_of% @GM.Props.ConvertE2ENP.parser_output_wellformed := @GM.Props.ConvertE2ENP.parser_output_wellformed

/-- (re-export of `GM.Props.ConvertE2ENP.parse_ast_total`) the parse phases of the default pipeline always answer a tree with its segments -/
theorem parse_ast_total : type_of% @GM.Props.ConvertE2ENP.parse_ast_total := @GM.Props.ConvertE2ENP.parse_ast_total

/-- (re-export of `GM.Props.ConvertE2ENP.parser_output_wellformed_total`) … so: for every source there is a tree and its dump is well formed -/
theorem parser_output_wellformed_total : type_of% @GM.Props.ConvertE2ENP.parser_output_wellformed_total := @GM.Props.ConvertE2ENP.parser_output_wellformed_total

end GM.Props.C05
