/-
  Package cmfrag, integration: the hypothesis `BlockPhaseBracketFree` of the quoted stages (10, 13-quoted, 14) is discharged from
  package e2e (`block_phase_bracket_free`: on a source without `[` the block phase with the link-reference transformer equals the
  plain driver's, or is an error) and package tnopanic (`block_phase_total`: never an error).
-/
import GM.Props.C02Frag
import GM.Props.ConvertE2E
import GM.Props.ConvertNP

namespace GM.Props.C02FragInteg
open GM

/-- on a source without `[` the block phase of the default pipeline IS the transformer-free driver's run -/
theorem block_phase_bracket_free_holds : GM.Props.C02Frag.BlockPhaseBracketFree := by
  intro src hb
  rcases GM.Props.ConvertE2E.block_phase_bracket_free true src hb with h | ⟨e, h⟩
  · exact h
  · obtain ⟨s, hs, _⟩ := GM.Props.ConvertNP.block_phase_total src
    rw [hs] at h; cases h

/-- **Conformance inside one block quote** (stage 10): for every stage-6 fragment document without `-`, `*`, `+`, digits, `[`, written with
    `> ` in front of every line, the composed model answers the prescribed HTML of the quoted document — no hypothesis left. -/
theorem fragment10_conforms : type_of% (@GM.Props.C02Frag.fragment10_conforms block_phase_bracket_free_holds) :=
  GM.Props.C02Frag.fragment10_conforms block_phase_bracket_free_holds

/-- the same without the line feed of the last line -/
theorem fragment10_conforms_no_final_newline : type_of% (@GM.Props.C02Frag.fragment10_conforms_no_final_newline block_phase_bracket_free_holds) :=
  GM.Props.C02Frag.fragment10_conforms_no_final_newline block_phase_bracket_free_holds

/-- **Conformance inside `k+1` nested block quotes**, every `k` (stage 14) -/
theorem fragment14_conforms : type_of% (@GM.Props.C02Frag.fragment14_conforms block_phase_bracket_free_holds) :=
  GM.Props.C02Frag.fragment14_conforms block_phase_bracket_free_holds

/-- **The union fragment inside `k+1` nested block quotes** (stage 13, quoted) -/
theorem fragment13_conforms_quoted : type_of% (@GM.Props.C02Frag.fragment13_conforms_quoted block_phase_bracket_free_holds) :=
  GM.Props.C02Frag.fragment13_conforms_quoted block_phase_bracket_free_holds

/-- **Nested block quotes, wider class** (stage 22: digits, `*`, `+`, `-` inside; no line ending in `-` / `=`) -/
theorem fragment22_conforms : type_of% (@GM.Props.C02Frag.fragment22_conforms block_phase_bracket_free_holds) :=
  GM.Props.C02Frag.fragment22_conforms block_phase_bracket_free_holds

/-- **The union fragment with `*` emphasis inside nested block quotes** (stage 22) -/
theorem fragment22_conforms_union : type_of% (@GM.Props.C02Frag.fragment22_conforms_union block_phase_bracket_free_holds) :=
  GM.Props.C02Frag.fragment22_conforms_union block_phase_bracket_free_holds

/-- **The full union (stage 21) inside nested block quotes** (stage 23) -/
theorem fragment23_conforms : type_of% (@GM.Props.C02Frag.fragment23_conforms block_phase_bracket_free_holds) :=
  GM.Props.C02Frag.fragment23_conforms block_phase_bracket_free_holds

end GM.Props.C02FragInteg
