/-
  GM.Props.Inlines — property theorems about the inline phase of one block (C01 / C05(b) for inline content).
  Model: GM/Model/Inlines.lean, InlinesParsers.lean, InlinesLoop.lean (`parseBlock` = (*parser).parseBlock with the
  default inline parsers, ProcessDelimiters(nil, pc), linkParser.CloseBlock), tied to the real parser by the
  harness component `inlines`. Helper lemmas: GM/Proof/Inlines.lean.

  Every theorem speaks about EVERY source, EVERY list of line segments, EVERY reference map and EVERY assignment
  of Unicode classes (`Env`): the hypothesis `parseBlock … = .ok kids` only says that the phase finished (the
  alternative outcomes are a Go panic, `loop` and `pre`, see notes/status_inlines.md).
-/
import GM.Proof.Inlines
import GM.Proof.InlinesLoopTotal

namespace GM.Props.Inlines
open GM GM.Text GM.Spec GM.Inl GM.Proof.Inlines GM.Proof.InlinesReader GM.Proof.InlinesTotal

/-- `no_delimiter_survives` (C05(b), "no leftover delimiter or bracket bookkeeping nodes"). Whatever the source,
    lines, references: after ProcessDelimiters(nil, pc) and CloseBlock no Delimiter node and no LinkLabelState
    node is left anywhere in the block's inline tree — not at top level, not inside an Emphasis, Link, Image
    or CodeSpan. -/
theorem no_delimiter_survives (env : Env) (src : Bytes) (segs : List Segment) (kids : List Node)
    (h : parseBlock env src segs = .ok kids) : hasBookkeepingL kids = false :=
  wfL_noBook kids (parseBlock_wf h)

/-- `emphasis_levels` (C05(b), "emphasis levels 1-2"). Every Emphasis node of the block's inline tree, at any
    depth, has level 1 or 2. -/
theorem emphasis_levels (env : Env) (src : Bytes) (segs : List Segment) (kids : List Node)
    (h : parseBlock env src segs = .ok kids) : emphasisLevelsOKL kids = true :=
  wfL_levels kids (parseBlock_wf h)

/-- `codespan_holds_text` (C05(b), "code spans hold only text"). Every CodeSpan node of the block's inline
    tree, at any depth, has only Text children. -/
theorem codespan_holds_text (env : Env) (src : Bytes) (segs : List Segment) (kids : List Node)
    (h : parseBlock env src segs = .ok kids) : codeSpansHoldTextL kids = true :=
  wfL_codeSpans kids (parseBlock_wf h)

/-- `no_link_in_link` (C05(b), "links never nested in links"). No Link node of the block's inline tree has
    another Link below it at any depth — not directly, not through Emphasis, not through an Image's
    description (`linkParser.containsLink` looks through all of them, and ProcessDelimiters cannot move a node
    across the opening bracket). -/
theorem no_link_in_link (env : Env) (src : Bytes) (segs : List Segment) (kids : List Node)
    (h : parseBlock env src segs = .ok kids) : linkInLinkL kids = false :=
  wfL_noLinkInLink kids (parseBlock_wf h)

/-- `processDelimiters_terminates_no_panic` (C01 for ProcessDelimiters). For every child list and every
    `bottom`, ProcessDelimiters terminates (the model function is total; its closer loop is a well-founded
    recursion: a closer is dropped or loses a character per round) and has exactly two outcomes: a child list,
    or `pre` — the modelling invariant "every listed delimiter is a child of `parent` and has `Length ≥ 1`"
    was handed in broken. There is no Go panic and no non-termination in it. -/
theorem processDelimiters_terminates_no_panic (bottom : Bottom) (kids : List Node) :
    (∃ r, processDelimiters bottom kids = .ok r) ∨ processDelimiters bottom kids = .error .pre :=
  processDelimiters_total bottom kids

/-- `processDelimiters_succeeds` (C01 for ProcessDelimiters, no `pre`). On every child list whose delimiters all
    still have characters (`Length ≥ 1` — what ScanDelimiter creates, and what a match leaves: a used-up
    delimiter is taken off at once) ProcessDelimiters returns a child list, for every `bottom`; and that list's
    delimiters again all have characters. -/
theorem processDelimiters_succeeds (bottom : Bottom) (kids : List Node) (h : posL kids) :
    ∃ res, processDelimiters bottom kids = .ok res ∧ posL res :=
  processDelimiters_ok bottom kids h

/-- `processDelimiters_nil_clears`: ProcessDelimiters(nil, pc) on well-shaped children (open delimiters only at
    the top level) leaves no delimiter anywhere and keeps the shape. -/
theorem processDelimiters_nil_clears (kids res : List Node) (hk : topL kids = true)
    (h : processDelimiters .nil kids = .ok res) : wfL true res = true :=
  processDelimiters_nil_wfL h hk


/-! ### termination and panic-freedom of the whole inline phase (C01)

`WF0 src segs`: the block's lines are well-formed (`WFSegs` of C18: non-empty list; every line non-empty, inside
the source, increasing, no ForceNewline) and carry no virtual padding — what the block parsers hand over for
paragraphs, headings and the other inline-bearing blocks (the harness checks it on every block it compares). -/

/-- `parseBlock_fuel_suffices_nobracket` (C01, inline phase). For EVERY source without `[` and `]`, every
    well-formed line list, reference map and Unicode class assignment the inline phase of the block returns an
    inline tree: no Go panic (index, slice, nil, assertion, `Segment.Between` on different lines, …), none of
    the loops (`retry:` loop, code-span / raw-HTML line loops, the rune stream of `Reader.Match`) runs out of
    its fuel, no modelling invariant is broken. Code spans, emphasis with ProcessDelimiters, autolinks, raw
    HTML, hard and soft breaks are all in scope; the link parser only sees `!` and declines. -/
theorem parseBlock_fuel_suffices_nobracket (env : Env) (src : Bytes) (segs : List Segment) (h : WF0 src segs)
    (hnb : ∀ x ∈ src, x ≠ 91 ∧ x ≠ 93) : ∃ kids, parseBlock env src segs = .ok kids :=
  parseBlock_total_nobracket h.1 h.2 env hnb

/-- `parseBlock_fuel_suffices_of_link_contract` (C01, inline phase, all sources). The same for EVERY source,
    given that the link parser keeps the contract every other parser is proved to keep (`PContract`: consulted at
    one of its trigger bytes with the reader standing for a cursor, the recorded segments in order up to the
    cursor and the context invariant `X`, it returns; the reader still stands for a cursor that did not move back;
    a returned node means at least one byte was consumed and its segments lie between the old and the new
    offset; `X` holds again). `X` is any invariant of (children, next id, linkBottom stack) that the loop's own
    steps preserve and that implies `Length ≥ 1` for open delimiters. What is NOT proved is this contract for
    `linkParser.Parse` on sources with brackets (notes/status_inlines.md). -/
theorem parseBlock_fuel_suffices_of_link_contract (X : Ctx) (hbase : X.LK [] 0 [])
    (hpos : ∀ k n b, X.LK k n b → posL k) (env : Env) (src : Bytes) (segs : List Segment) (h : WF0 src segs)
    (hlink : PContract X src segs (trigOf .link) (Ip.link.parse env)) :
    ∃ kids, parseBlock env src segs = .ok kids :=
  parseBlock_total_of X hbase hpos h.1 h.2 env hlink

/-- `retry_loop_terminates`: the `for { retry: … }` loop of parseBlock with ANY parsers that keep `PContract`
    never exhausts a fuel larger than the number of bytes in front of the reader, and keeps the invariant
    "the reader stands for a cursor, the recorded segments are in range and in order up to it". -/
theorem retry_loop_terminates (X : Ctx) (env : Env) (src : Bytes) (segs : List Segment) (h : WF0 src segs)
    (hC : ∀ ip, PContract X src segs (trigOf ip) (ip.parse env)) (fuel : Nat) (esc : Bool) (st : St) (c : BCur)
    (hI : LInv X src segs st c) (hf : (BCur.remaining segs c).toNat < fuel) :
    ∃ st' c', lineLoop env fuel esc st = .ok st' ∧ LInv X src segs st' c' :=
  lineLoop_total X (GM.Proof.Reader.segFacts h.1) h.2 env hC fuel esc st c hI hf

/-- `segments_in_range_and_ordered_at_loop_end` (C05(c) for inline content, partial). For every source without
    `[`/`]` and well-formed lines: when the `retry:` loop of parseBlock has ended — i.e. before
    ProcessDelimiters(nil) and CloseBlock rewrite delimiter and bracket nodes into Text / Emphasis — the segments
    recorded in the children (Text, the raw Text of code spans, autolink values, raw-HTML segments, the segments of
    the still open delimiters and labels), read in tree order, satisfy `0 ≤ s₁.start ≤ s₁.stop ≤ s₂.start ≤ … ≤
    len(source)`: each lies inside the source, none is inverted, each starts at or after the end of the one
    before. (`segsOfL` = the segments in tree order; `chain lo hi` = that inequality chain.)
    Not proved: that ProcessDelimiters + CloseBlock keep the chain (they only shrink a delimiter's segment from
    its end, merge adjacent texts, drop used-up delimiters and wrap runs of siblings; it needs the extra
    delimiter invariant `Segment = [Start, Start+Length)`), and the same with brackets (link contract). -/
theorem segments_in_range_and_ordered_at_loop_end (env : Env) (src : Bytes) (segs : List Segment) (h : WF0 src segs)
    (hnb : ∀ x ∈ src, x ≠ 91 ∧ x ≠ 93) (r0 : BlockReader) (st' : St) (h0 : BlockReader.new src segs = .ok r0)
    (hl : lineLoop env (blockFuel src segs) false { rd := r0 } = .ok st') :
    chain 0 src.length (segsOfL st'.kids) :=
  lineLoop_segments Ctx.trivial True.intro h.1 h.2 env (all_contracts_nobracket Ctx.trivial h.1 h.2 env hnb) h0 hl

/-- the hypotheses are satisfiable (test on a literal): "a*b*" as one line -/
example : WF0 [97, 42, 98, 42] [{ start := 0, stop := 4 }] := by
  refine ⟨⟨by simp, ?_⟩, ?_⟩
  · simp [WFSegsFrom]
  · intro s hs; simp at hs; subst hs; rfl

/-! #### the hypotheses are satisfiable (tests on literals) -/

/-- "a": the phase finishes -/
example : (parseBlock {} [97] [{ start := 0, stop := 1 }]).toBool = true := by decide +kernel

def exOpen : Delim :=
  { seg := { start := 0, stop := 1 }, canOpen := true, canClose := false, length := 1, origLength := 1, char := 42 }
def exClose : Delim :=
  { seg := { start := 2, stop := 3 }, canOpen := false, canClose := true, length := 1, origLength := 1, char := 42 }

/-- the children of "*a*" before ProcessDelimiters are well-shaped -/
example : topL [.delim 0 exOpen, textOf { start := 1, stop := 2 }, .delim 1 exClose] = true := by decide +kernel

/-- the delimiters of "*a*" have characters -/
example : posL [.delim 0 exOpen, textOf { start := 1, stop := 2 }, .delim 1 exClose] := by
  intro id d hm
  simp [textOf] at hm
  rcases hm with ⟨_, rfl⟩ | ⟨_, rfl⟩ <;> decide

/-- "*a*": one round of the closer loop matches the two delimiters into an Emphasis of level 1 -/
example : closerStep .nil [.delim 0 exOpen, textOf { start := 1, stop := 2 }] 1 exClose [] =
    .done [.emphasis 1 [textOf { start := 1, stop := 2 }]] := by rfl

end GM.Props.Inlines
