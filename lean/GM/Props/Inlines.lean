/-
  GM.Props.Inlines — property theorems about the inline phase of one block (C01 / C05(b) for inline content).
  Model: GM/Model/Inlines.lean, InlinesParsers.lean, InlinesLoop.lean (`parseBlock` = (*parser).parseBlock with the
  default inline parsers, ProcessDelimiters(nil, pc), linkParser.CloseBlock), tied to the real parser by the
  harness component `inlines`. Helper lemmas: GM/Proof/Inlines.lean.

  Every theorem speaks about EVERY source, EVERY list of line segments, EVERY reference map and EVERY assignment
  of Unicode classes (`Env`): the hypothesis `parseBlock … = .ok kids` only says that the phase finished (the
  alternative outcomes are a Go panic, `loop` and `pre`, see notes/status_inlines.md).
-/
import GM.Proof.Inlines

namespace GM.Props.Inlines
open GM GM.Text GM.Inl GM.Proof.Inlines

/-- `no_delimiter_survives` (C05(b), "no leftover delimiter or bracket bookkeeping nodes"). Whatever the source,
    lines, references: after ProcessDelimiters(nil, pc) and CloseBlock no Delimiter node and no LinkLabelState
    node is left anywhere in the block's inline tree — not at top level, not inside an Emphasis, Link, Image
    or CodeSpan. -/
theorem no_delimiter_survives (env : Env) (src : Bytes) (segs : List Segment) (kids : List Node)
    (h : parseBlock env src segs = .ok kids) : hasBookkeepingL kids = false :=
  wfL_noBook kids (parseBlock_wf h)

/-- `emphasis_levels` (C05(b), "emphasis levels 1-2"). Every Emphasis node of the block's inline tree, at any
    depth, has level 1 or 2. -/
theorem emphasis_levels (env : Env) (src : Bytes) (segs : List Segment) (kids : List Node)
    (h : parseBlock env src segs = .ok kids) : emphasisLevelsOKL kids = true :=
  wfL_levels kids (parseBlock_wf h)

/-- `codespan_holds_text` (C05(b), "code spans hold only text"). Every CodeSpan node of the block's inline
    tree, at any depth, has only Text children. -/
theorem codespan_holds_text (env : Env) (src : Bytes) (segs : List Segment) (kids : List Node)
    (h : parseBlock env src segs = .ok kids) : codeSpansHoldTextL kids = true :=
  wfL_codeSpans kids (parseBlock_wf h)

/-- `no_link_in_link` (C05(b), "links never nested in links"). No Link node of the block's inline tree has
    another Link below it at any depth — not directly, not through Emphasis, not through an Image's
    description (`linkParser.containsLink` looks through all of them, and ProcessDelimiters cannot move a node
    across the opening bracket). -/
theorem no_link_in_link (env : Env) (src : Bytes) (segs : List Segment) (kids : List Node)
    (h : parseBlock env src segs = .ok kids) : linkInLinkL kids = false :=
  wfL_noLinkInLink kids (parseBlock_wf h)

/-- `processDelimiters_terminates_no_panic` (C01 for ProcessDelimiters). For every child list and every
    `bottom`, ProcessDelimiters terminates (the model function is total; its closer loop is a well-founded
    recursion: a closer is dropped or loses a character per round) and has exactly two outcomes: a child list,
    or `pre` — the modelling invariant "every listed delimiter is a child of `parent` and has `Length ≥ 1`"
    was handed in broken. There is no Go panic and no non-termination in it. -/
theorem processDelimiters_terminates_no_panic (bottom : Bottom) (kids : List Node) :
    (∃ r, processDelimiters bottom kids = .ok r) ∨ processDelimiters bottom kids = .error .pre :=
  processDelimiters_total bottom kids

/-- `processDelimiters_succeeds` (C01 for ProcessDelimiters, no `pre`). On every child list whose delimiters all
    still have characters (`Length ≥ 1` — what ScanDelimiter creates, and what a match leaves: a used-up
    delimiter is taken off at once) ProcessDelimiters returns a child list, for every `bottom`; and that list's
    delimiters again all have characters. -/
theorem processDelimiters_succeeds (bottom : Bottom) (kids : List Node) (h : posL kids) :
    ∃ res, processDelimiters bottom kids = .ok res ∧ posL res :=
  processDelimiters_ok bottom kids h

/-- `processDelimiters_nil_clears`: ProcessDelimiters(nil, pc) on well-shaped children (open delimiters only at
    the top level) leaves no delimiter anywhere and keeps the shape. -/
theorem processDelimiters_nil_clears (kids res : List Node) (hk : topL kids = true)
    (h : processDelimiters .nil kids = .ok res) : wfL true res = true :=
  processDelimiters_nil_wfL h hk

/-! #### the hypotheses are satisfiable (tests on literals) -/

/-- "a": the phase finishes -/
example : (parseBlock {} [97] [{ start := 0, stop := 1 }]).toBool = true := by decide +kernel

def exOpen : Delim :=
  { seg := { start := 0, stop := 1 }, canOpen := true, canClose := false, length := 1, origLength := 1, char := 42 }
def exClose : Delim :=
  { seg := { start := 2, stop := 3 }, canOpen := false, canClose := true, length := 1, origLength := 1, char := 42 }

/-- the children of "*a*" before ProcessDelimiters are well-shaped -/
example : topL [.delim 0 exOpen, textOf { start := 1, stop := 2 }, .delim 1 exClose] = true := by decide +kernel

/-- the delimiters of "*a*" have characters -/
example : posL [.delim 0 exOpen, textOf { start := 1, stop := 2 }, .delim 1 exClose] := by
  intro id d hm
  simp [textOf] at hm
  rcases hm with ⟨_, rfl⟩ | ⟨_, rfl⟩ <;> decide

/-- "*a*": one round of the closer loop matches the two delimiters into an Emphasis of level 1 -/
example : closerStep .nil [.delim 0 exOpen, textOf { start := 1, stop := 2 }] 1 exClose [] =
    .done [.emphasis 1 [textOf { start := 1, stop := 2 }]] := by rfl

end GM.Props.Inlines
