/-
  GM.Props.Inlines — property theorems about the inline phase of one block (C01 / C05(b) for inline content).
  Model: GM/Model/Inlines.lean, InlinesParsers.lean, InlinesLoop.lean (`parseBlock` = (*parser).parseBlock with the
  default inline parsers, ProcessDelimiters(nil, pc), linkParser.CloseBlock), tied to the real parser by the
  harness component `inlines`. Helper lemmas: GM/Proof/Inlines.lean.

  Every theorem speaks about EVERY source, EVERY list of line segments, EVERY reference map and EVERY assignment
  of Unicode classes (`Env`): the hypothesis `parseBlock … = .ok kids` only says that the phase finished (the
  alternative outcomes are a Go panic, `loop` and `pre`, see notes/status_inlines.md).
-/
import GM.Proof.Inlines
import GM.Proof.InlinesLoopTotal
import GM.Proof.InlinesLink

namespace GM.Props.Inlines
open GM GM.Text GM.Spec GM.Inl GM.Proof.Inlines GM.Proof.InlinesReader GM.Proof.InlinesTotal GM.Proof.InlinesLink

/-- `no_delimiter_survives` (C05(b), "no leftover delimiter or bracket bookkeeping nodes"). Whatever the source,
    lines, references: after ProcessDelimiters(nil, pc) and CloseBlock no Delimiter node and no LinkLabelState
    node is left anywhere in the block's inline tree — not at top level, not inside an Emphasis, Link, Image
    or CodeSpan. -/
theorem no_delimiter_survives (env : Env) (src : Bytes) (segs : List Segment) (kids : List Node)
    (h : parseBlock env src segs = .ok kids) : hasBookkeepingL kids = false :=
  wfL_noBook kids (parseBlock_wf h)

/-- `emphasis_levels` (C05(b), "emphasis levels 1-2"). Every Emphasis node of the block's inline tree, at any
    depth, has level 1 or 2. -/
theorem emphasis_levels (env : Env) (src : Bytes) (segs : List Segment) (kids : List Node)
    (h : parseBlock env src segs = .ok kids) : emphasisLevelsOKL kids = true :=
  wfL_levels kids (parseBlock_wf h)

/-- `codespan_holds_text` (C05(b), "code spans hold only text"). Every CodeSpan node of the block's inline
    tree, at any depth, has only Text children. -/
theorem codespan_holds_text (env : Env) (src : Bytes) (segs : List Segment) (kids : List Node)
    (h : parseBlock env src segs = .ok kids) : codeSpansHoldTextL kids = true :=
  wfL_codeSpans kids (parseBlock_wf h)

/-- `no_link_in_link` (C05(b), "links never nested in links"). No Link node of the block's inline tree has
    another Link below it at any depth — not directly, not through Emphasis, not through an Image's
    description (`linkParser.containsLink` looks through all of them, and ProcessDelimiters cannot move a node
    across the opening bracket). -/
theorem no_link_in_link (env : Env) (src : Bytes) (segs : List Segment) (kids : List Node)
    (h : parseBlock env src segs = .ok kids) : linkInLinkL kids = false :=
  wfL_noLinkInLink kids (parseBlock_wf h)

/-- `processDelimiters_terminates_no_panic` (C01 for ProcessDelimiters). For every child list and every
    `bottom`, ProcessDelimiters terminates (the model function is total; its closer loop is a well-founded
    recursion: a closer is dropped or loses a character per round) and has exactly two outcomes: a child list,
    or `pre` — the modelling invariant "every listed delimiter is a child of `parent` and has `Length ≥ 1`"
    was handed in broken. There is no Go panic and no non-termination in it. -/
theorem processDelimiters_terminates_no_panic (bottom : Bottom) (kids : List Node) :
    (∃ r, processDelimiters bottom kids = .ok r) ∨ processDelimiters bottom kids = .error .pre :=
  processDelimiters_total bottom kids

/-- `processDelimiters_succeeds` (C01 for ProcessDelimiters, no `pre`). On every child list whose delimiters all
    still have characters (`Length ≥ 1` — what ScanDelimiter creates, and what a match leaves: a used-up
    delimiter is taken off at once) ProcessDelimiters returns a child list, for every `bottom`; and that list's
    delimiters again all have characters. -/
theorem processDelimiters_succeeds (bottom : Bottom) (kids : List Node) (h : posL kids) :
    ∃ res, processDelimiters bottom kids = .ok res ∧ posL res :=
  processDelimiters_ok bottom kids h

/-- `processDelimiters_nil_clears`: ProcessDelimiters(nil, pc) on well-shaped children (open delimiters only at
    the top level) leaves no delimiter anywhere and keeps the shape. -/
theorem processDelimiters_nil_clears (kids res : List Node) (hk : topL kids = true)
    (h : processDelimiters .nil kids = .ok res) : wfL true res = true :=
  processDelimiters_nil_wfL h hk


/-! ### termination and panic-freedom of the whole inline phase (C01)

`WF0 src segs`: the block's lines are well-formed (`WFSegs` of C18: non-empty list; every line non-empty, inside
the source, increasing, no ForceNewline) and carry no virtual padding — what the block parsers hand over for
paragraphs, headings and the other inline-bearing blocks (the harness checks it on every block it compares). -/

/-- `parseBlock_fuel_suffices_nobracket` (C01, inline phase). For EVERY source without `[` and `]`, every
    well-formed line list, reference map and Unicode class assignment the inline phase of the block returns an
    inline tree: no Go panic (index, slice, nil, assertion, `Segment.Between` on different lines, …), none of
    the loops (`retry:` loop, code-span / raw-HTML line loops, the rune stream of `Reader.Match`) runs out of
    its fuel, no modelling invariant is broken. Code spans, emphasis with ProcessDelimiters, autolinks, raw
    HTML, hard and soft breaks are all in scope; the link parser only sees `!` and declines. -/
theorem parseBlock_fuel_suffices_nobracket (env : Env) (src : Bytes) (segs : List Segment) (h : WF0 src segs)
    (hnb : ∀ x ∈ src, x ≠ 91 ∧ x ≠ 93) : ∃ kids, parseBlock env src segs = .ok kids :=
  parseBlock_total_nobracket h.1 h.2 env hnb

/-- `parseBlock_fuel_suffices_of_link_contract` (C01, inline phase, all sources). The same for EVERY source,
    given that the link parser keeps the contract every other parser is proved to keep (`PContract`: consulted at
    one of its trigger bytes with the reader standing for a cursor, the recorded segments in order up to the
    cursor and the context invariant `X`, it returns; the reader still stands for a cursor that did not move back;
    a returned node means at least one byte was consumed and its segments lie between the old and the new
    offset; `X` holds again). `X` is any invariant of (children, next id, linkBottom stack) that the loop's own
    steps preserve and that implies `Length ≥ 1` for open delimiters. The contract itself is
    `link_parser_keeps_contract` below; together they give `parseBlock_total`. -/
theorem parseBlock_fuel_suffices_of_link_contract (X : Ctx) (hbase : X.LK [] 0 [])
    (hpos : ∀ k n b, X.LK k n b → posL k) (env : Env) (src : Bytes) (segs : List Segment) (h : WF0 src segs)
    (hlink : PContract X src segs (trigOf .link) (Ip.link.parse env)) :
    ∃ kids, parseBlock env src segs = .ok kids :=
  parseBlock_total_of X hbase hpos h.1 h.2 env hlink

/-- `retry_loop_terminates`: the `for { retry: … }` loop of parseBlock with ANY parsers that keep `PContract`
    never exhausts a fuel larger than the number of bytes in front of the reader, and keeps the invariant
    "the reader stands for a cursor, the recorded segments are in range and in order up to it". -/
theorem retry_loop_terminates (X : Ctx) (env : Env) (src : Bytes) (segs : List Segment) (h : WF0 src segs)
    (hC : ∀ ip, PContract X src segs (trigOf ip) (ip.parse env)) (fuel : Nat) (esc : Bool) (st : St) (c : BCur)
    (hI : LInv X src segs st c) (hf : (BCur.remaining segs c).toNat < fuel) :
    ∃ st' c', lineLoop env fuel esc st = .ok st' ∧ LInv X src segs st' c' :=
  lineLoop_total X (GM.Proof.Reader.segFacts h.1) h.2 env hC fuel esc st c hI hf

/-- `segments_in_range_and_ordered_at_loop_end` (C05(c) for inline content, partial). For every source without
    `[`/`]` and well-formed lines: when the `retry:` loop of parseBlock has ended — i.e. before
    ProcessDelimiters(nil) and CloseBlock rewrite delimiter and bracket nodes into Text / Emphasis — the segments
    recorded in the children (Text, the raw Text of code spans, autolink values, raw-HTML segments, the segments of
    the still open delimiters and labels), read in tree order, satisfy `0 ≤ s₁.start ≤ s₁.stop ≤ s₂.start ≤ … ≤
    len(source)`: each lies inside the source, none is inverted, each starts at or after the end of the one
    before. (`segsOfL` = the segments in tree order; `chain lo hi` = that inequality chain.)
    (Superseded by `text_segments_in_range_and_ordered`, which speaks about the tree parseBlock RETURNS, for
    every source.) -/
theorem segments_in_range_and_ordered_at_loop_end (env : Env) (src : Bytes) (segs : List Segment) (h : WF0 src segs)
    (hnb : ∀ x ∈ src, x ≠ 91 ∧ x ≠ 93) (r0 : BlockReader) (st' : St) (h0 : BlockReader.new src segs = .ok r0)
    (hl : lineLoop env (blockFuel src segs) false { rd := r0 } = .ok st') :
    chain 0 src.length (segsOfL st'.kids) :=
  lineLoop_segments Ctx.trivial True.intro h.1 h.2 env (all_contracts_nobracket Ctx.trivial h.1 h.2 env hnb) h0 hl

/-! ### every source: the link parser's contract, totality, segment order (third round)

`linkCtx lo` (`lo` = the start of the block's first line) is the context invariant of the link parser
(`GM.Proof.InlinesLink.LK`): every open delimiter has `Length ≥ 1` and `Segment = [Start, Start + Length)`; the ids
of the top-level delimiters increase strictly and lie below the id counter; LinkLabelState nodes occur only among
the children of `parent`, never below an Emphasis / Link / Image; a label's segment starts at or behind `lo`; the
`linkBottom` stack has exactly one entry per label, the entry of a label being the last delimiter in front of it,
or the typed nil `*Delimiter` when there is none. -/

/-- `link_parser_keeps_contract` (C01, `linkParser.Parse`). For EVERY source, line list (`WF0`), reference map:
    consulted by the loop at a `!`, `[` or `]` in a state that satisfies the loop invariant (reader stands for a
    cursor, recorded segments in order up to it, `linkCtx`), `linkParser.Parse` returns — no Go panic in
    `[`/`![` opener, `]` closer, inline `(dest "title")` (SkipSpaces, parseLinkDestination, parseLinkTitle with
    FindClosure and multi-line `Value`), full / collapsed / shortcut reference (FindClosure, `Value` of the label
    text across lines), every failure path; none of SkipSpaces / FindClosure runs out of fuel; none of the three
    modelling guards of `processLinkLabel` fires (the label is still a child of `parent` after
    ProcessDelimiters(bottom), no open label and no listed delimiter lies behind it: ProcessDelimiters(bottom)
    provably leaves everything up to and including the label alone) — the reader stands for a cursor that did
    not move back, a returned node consumed at least one byte, the recorded segments are still in order and
    `linkCtx` holds again. -/
theorem link_parser_keeps_contract (env : Env) (src : Bytes) (segs : List Segment) (h : WF0 src segs) :
    PContract (linkCtx (BCur.segOf segs 0).start) src segs (trigOf .link) (Ip.link.parse env) :=
  link_contract h.1 h.2 env

/-- `processDelimiters_prefix_local`: ProcessDelimiters(bottom) with a non-nil `bottom` cannot touch a prefix `P`
    of the children whose last node is neither a Text nor a delimiter (an open link label) and in which every
    right-to-left walk stops at `bottom` before meeting another delimiter (`bottom` is the last delimiter of `P`,
    or `P` has none and `bottom` is the typed nil) — provided no delimiter id occurs on both sides:
    the result is `P` followed by what ProcessDelimiters(bottom) makes of the rest alone. -/
theorem processDelimiters_prefix_local (b : Bottom) (hb : b ≠ .nil) (P y : List Node)
    (hc : GM.Proof.InlinesDelims.Closed b P.reverse)
    (hd : ∀ id d d', Node.delim id d ∈ P → Node.delim id d' ∈ y → False) :
    processDelimiters b (P ++ y) = (processDelimiters b y).map (P ++ ·) :=
  GM.Proof.InlinesDelims.processDelimiters_prefix hb hc y hd

/-- `parseBlock_total` (C01, inline phase, unconditional). For EVERY source, every well-formed padding-free line
    list, every reference map and every assignment of Unicode classes the inline phase of a block returns an
    inline tree: no Go panic (index, slice, nil, type assertion, `Segment.Between`, `make` with a negative
    capacity in `BlockReader.Value`), every loop ends (`retry:` loop, code-span / raw-HTML line loops, the rune
    stream of `Reader.Match`, SkipSpaces, FindClosure, the closer loop of ProcessDelimiters), and no modelling
    invariant (`pre`) is broken — the model's answers `loop` and `pre` are unreachable. -/
theorem parseBlock_total (env : Env) (src : Bytes) (segs : List Segment) (h : WF0 src segs) :
    ∃ kids, parseBlock env src segs = .ok kids :=
  GM.Proof.InlinesLink.parseBlock_total h.1 h.2 env

/-- `text_segments_in_range_and_ordered` (C05(c) for inline content). For EVERY source and well-formed
    padding-free line list: the segments recorded in the inline tree that parseBlock returns — Text nodes (also
    those made from cleared delimiters and unmatched brackets), the raw Text of code spans, autolink values,
    raw-HTML segments — read in tree order (through Emphasis, Link, Image, CodeSpan) satisfy
    `0 ≤ s₁.start ≤ s₁.stop ≤ s₂.start ≤ s₂.stop ≤ … ≤ len(source)`: each lies inside the source, none is
    inverted, each starts at or behind the end of the one before (`segsOfL` = the segments in tree order,
    `chain lo hi` = that chain of inequalities). -/
theorem text_segments_in_range_and_ordered (env : Env) (src : Bytes) (segs : List Segment) (h : WF0 src segs)
    (kids : List Node) (hk : parseBlock env src segs = .ok kids) : chain 0 src.length (segsOfL kids) :=
  parseBlock_segments h.1 h.2 env hk

/-- `processDelimiters_keeps_segment_order`: for every `bottom`, on children whose delimiters have `Length ≥ 1`
    and `Segment = [Start, Start + Length)`, ProcessDelimiters keeps the recorded segments in range and in order
    (ConsumeCharacters shrinks a delimiter from its end, a used-up delimiter is dropped, a cleared one becomes a
    Text of its segment or extends the adjacent Text in front, matched runs are wrapped). -/
theorem processDelimiters_keeps_segment_order (b : Bottom) (lo hi : Int) (kids res : List Node)
    (h : processDelimiters b kids = .ok res) (hp : posL kids)
    (hD : ∀ id d, Node.delim id d ∈ kids → d.seg.stop = d.seg.start + d.length)
    (hc : chain lo hi (segsOfL kids)) : chain lo hi (segsOfL res) :=
  GM.Proof.InlinesDelims.processDelimiters_chain h hp (fun _ hn id d e => hD id d (e ▸ hn)) hc

/-- `blockReader_helpers_fuel_suffices` (C01 / C18, block reader): for every well-formed line list — ANY line
    paddings — and every block reader state `r` that stands for a well-formed cursor `c` (`BAbs`, the refinement
    relation of C18), `SkipSpaces` and `FindClosure` (any opener / closer / options) are defined whenever their
    fuel exceeds the number of bytes of the line views in front of the cursor: neither loop runs out of fuel, no
    interface call they make panics, and the reader afterwards again stands for a cursor. (The block-reader
    counterpart of C18's `reader_helpers_defined`.) -/
theorem blockReader_helpers_fuel_suffices (src : Bytes) (segs : List Segment) (hw : WFSegs src segs)
    (r : BlockReader) (c : BCur) (h : GM.Proof.Reader.BAbs src segs r c) (fuel : Nat)
    (hf : (BCur.remaining segs c).toNat < fuel) :
    (∃ x r' c', skipSpaces blockOps fuel 0 r = .ok (x, r') ∧ GM.Proof.Reader.BAbs src segs r' c') ∧
    (∀ o cl opts, ∃ x r' c', findClosure blockOps fuel o cl opts r = .ok (x, r') ∧
      GM.Proof.Reader.BAbs src segs r' c') :=
  ⟨GM.Proof.BlockReaderFuel.blockReader_skipSpaces_defined (GM.Proof.Reader.segFacts hw) h fuel hf,
   fun o cl opts => GM.Proof.BlockReaderFuel.blockReader_findClosure_defined (GM.Proof.Reader.segFacts hw) h o cl opts
     fuel hf⟩

/-- the hypotheses are satisfiable (test on a literal): "[a](b)" as one line has `WF0` lines -/
example : WF0 [91, 97, 93, 40, 98, 41] [{ start := 0, stop := 6 }] := by
  refine ⟨⟨by simp, ?_⟩, ?_⟩
  · simp [WFSegsFrom]
  · intro s hs; simp at hs; subst hs; rfl

/-- "[a](b)": the phase finishes (test on a literal) -/
example : (parseBlock {} [91, 97, 93, 40, 98, 41] [{ start := 0, stop := 6 }]).toBool = true := by decide +kernel

/-- the base case of the context invariant: an empty child list with an empty `linkBottom` stack -/
example : (linkCtx 0).LK [] 0 [] := LK_base 0

/-- the hypothesis `Closed` of `processDelimiters_prefix_local` is satisfiable (test on a literal): the prefix `[`
    (one open label, no delimiter in front of it) with the typed-nil bottom -/
example : GM.Proof.InlinesDelims.Closed .tnil [Node.label 0 { start := 0, stop := 1 } false].reverse :=
  ⟨⟨_, [], rfl, rfl, rfl⟩, trivial⟩

/-- the hypotheses are satisfiable (test on a literal): "a*b*" as one line -/
example : WF0 [97, 42, 98, 42] [{ start := 0, stop := 4 }] := by
  refine ⟨⟨by simp, ?_⟩, ?_⟩
  · simp [WFSegsFrom]
  · intro s hs; simp at hs; subst hs; rfl

/-! #### the hypotheses are satisfiable (tests on literals) -/

/-- "a": the phase finishes -/
example : (parseBlock {} [97] [{ start := 0, stop := 1 }]).toBool = true := by decide +kernel

def exOpen : Delim :=
  { seg := { start := 0, stop := 1 }, canOpen := true, canClose := false, length := 1, origLength := 1, char := 42 }
def exClose : Delim :=
  { seg := { start := 2, stop := 3 }, canOpen := false, canClose := true, length := 1, origLength := 1, char := 42 }

/-- the children of "*a*" before ProcessDelimiters are well-shaped -/
example : topL [.delim 0 exOpen, textOf { start := 1, stop := 2 }, .delim 1 exClose] = true := by decide +kernel

/-- the delimiters of "*a*" have characters -/
example : posL [.delim 0 exOpen, textOf { start := 1, stop := 2 }, .delim 1 exClose] := by
  intro id d hm
  simp [textOf] at hm
  rcases hm with ⟨_, rfl⟩ | ⟨_, rfl⟩ <;> decide

/-- "*a*": one round of the closer loop matches the two delimiters into an Emphasis of level 1 -/
example : closerStep .nil [.delim 0 exOpen, textOf { start := 1, stop := 2 }] 1 exClose [] =
    .done [.emphasis 1 [textOf { start := 1, stop := 2 }]] := by rfl

end GM.Props.Inlines
