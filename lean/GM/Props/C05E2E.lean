/-
  GM.Props.C05E2E — C05 END TO END for the default CommonMark configuration: the Lean predicate `GM.Spec.wfAst` (the formal
  statement of C05 that the harness evaluates on the position dump of every parsed tree, GM/Spec/AstWF.lean) for the tree
  the composed model `GM.Convert` parses, for EVERY byte string.

  The tree. `GM.Convert.parseDoc` hands the renderer a `GM.Node` whose segments are already resolved to bytes, so C05 is
  stated about `GM.E2E.parseAst`: the same composition (block phase with the link-reference transformer, `treeOf`, inline
  phase per block behind the `WF0` check) with the SEGMENTS kept (`parse_ast_exists`: whenever `parseDoc` answers, so does
  `parseAst`). `GM.E2E.dumpAst` turns it into the dumper's format `Spec.PNode`: kind string, node type, Text / RawHTML
  segments, a block's `Lines()`, FencedCodeBlock info and HTMLBlock closure as `xsegs`, Heading / Emphasis level — the
  fields `harness/cmd/gmharness/dump.go: posDumper.node` prints — and numbers the nodes in preorder (`relabel`; the Go dumper
  numbers a node's children before descending: another injective numbering, `wfAst` only compares ids for equality).

  Clause (a) (sibling links both ways, ChildCount, parent links, no node twice) holds BY CONSTRUCTION of a dump made from
  nested lists (`clause_a_by_construction`) — that goldmark's intrusive lists agree with the nested-list view is C13 / C05
  `parser_traces_refine`. Clauses (b) and (c): proved pieces + the NAMED hypotheses of `parser_output_wellformed_partial`.
-/
import GM.Proof.E2EStoreDone

namespace GM.Props.C05E2E
open GM GM.Text GM.Convert GM.Spec GM.E2E GM.Proof.Inlines GM.Proof.InlinesTotal GM.Proof.InlinesReader

/-- `parse_ast_exists`: whenever the parse phases answer the renderer's tree, they answer the tree with its segments -/
theorem parse_ast_exists (guard : Bool) (uc : List (Nat × (Bool × Bool))) (src : Bytes) (t : GM.Node)
    (h : parseDoc guard uc src = .ok t) : ∃ a, parseAst guard uc src = .ok a :=
  parseDoc_ok_parseAst h

/-! ### clause (a): a tree -/

/-- `clause_a_by_construction`. For ANY dump `t` built as nested lists, after numbering (`relabel`): no id occurs twice
    and every node's forward walk, backward walk, ChildCount, HasChildren and its children's Parent() agree with the
    nesting — so `wfAst` answers "well formed" as soon as the identity-free clauses (`semWf`: kinds, places, levels,
    segments) hold everywhere. -/
theorem clause_a_by_construction (len : Nat) (t : PNode) (h : semWf len none false t) :
    wfAst len (relabel 0 (-1) t) = none :=
  wfAst_relabel len t h

/-- the ids of a numbered dump are `next, next+1, …` in preorder: pairwise distinct -/
theorem dump_ids_distinct (next : Nat) (par : Int) (t : PNode) :
    allIds (relabel next par t) = List.range' next (psize t) :=
  allIds_relabel next par t

/-! ### clause (b): only public node kinds in legal places -/

/-- `root_is_document`: node 0 of every store the block phase returns — the root of the tree — is the Document
    (a frame invariant: no step of the block phase writes a node's kind; carried through `runT` by `Keeps`) -/
theorem root_is_document (guard : Bool) (src : Bytes) (st : GM.Blocks.St) (h : blockPhase guard src = .ok st) :
    ∃ d rest, st.nodes = d :: rest ∧ d.kind = .document :=
  blockPhase_rootDoc guard src st h

/-- `heading_levels`: every Heading of the store has level 1..6 (= `GM.Props.ConvertE2E.block_store_heading_levels`) -/
theorem heading_levels (guard : Bool) (src : Bytes) (st : GM.Blocks.St) (h : blockPhase guard src = .ok st) :
    ∀ n ∈ st.nodes, n.kind = .heading → 1 ≤ n.level ∧ n.level ≤ 6 :=
  blockPhase_headOK guard src st h

/-- `inline_nodes_legal`. The inline children `parseBlock` answers, dumped below a block (or inline node) that is
    neither the Document nor a List: only the public kinds Text / CodeSpan / Emphasis / Link / Image / AutoLink /
    RawHTML (no Delimiter, no link-label bookkeeping node), inline nodes only below blocks and inline nodes, a CodeSpan
    holds only Text, emphasis levels 1..2, no Link inside a Link at any depth, and — given their range — every Text /
    RawHTML segment passes the range clause. From the shape theorem of the inline phase, for every source / lines /
    reference map. -/
theorem inline_nodes_legal (env : GM.Inl.Env) (src : Bytes) (lines : List Segment) (kids : List GM.Inl.Node)
    (h : GM.Inl.parseBlock env src lines = .ok kids) (hr : ∀ s ∈ segsOfL kids, segInRange src s)
    (pk : String × NType) (hd : pk.2 ≠ .document) (hl : pk.1 ≠ "List") (hc : pk.1 ≠ "CodeSpan") :
    semWfL src.length pk false (shapeIs kids) :=
  shapeIs_sem src.length kids pk false (parseBlock_wf h) (fun s hs => segOK_of_inRange (hr s hs)) hd hl
    (fun e => absurd e hc) (fun e => by cases e)

/-- `block_node_clauses`: all identity-free clauses of one block node of the dump from the per-node facts `BlockP`
    (heading level, lines / info / closure in range, lines increasing, Document and List without lines), the facts
    `KidsP` about its inline children and the ListItem ⇔ List relation to its parent -/
theorem block_node_clauses (src : Bytes) (pk : Option GM.Blocks.Kind) (n : GM.Blocks.Node) (bs : List ATree)
    (kids : List GM.Inl.Node) (hb : BlockP src n) (hk : KidsP src n kids) (hr : ListRel pk n.kind) :
    SemNode src.length (pk.map fun k => (k.name, ntypeOf k)) false (blockInfo n) (shapeBs bs ++ shapeIs kids) :=
  semNode_block src pk n bs kids hb hk hr

/-! ### clause (c): positions -/

/-- `inline_segments_end_inside_block`: the segments the inline phase records for a block, in tree order, are in
    range, ordered, and end at or before the end of the block's LAST line (new; GM.Props.Inlines bounds them by
    `len(source)`) -/
theorem inline_segments_end_inside_block (env : GM.Inl.Env) (src : Bytes) (lines : List Segment) (h : WF0 src lines)
    (kids : List GM.Inl.Node) (hk : GM.Inl.parseBlock env src lines = .ok kids) :
    chain 0 (hiOf lines) (segsOfL kids) :=
  parseBlock_segments_hi h.1 h.2 env hk

/-! ### the composition -/

/-- `inline_segments_unpadded`: the segments the inline phase records have padding 0 (round 2: PROVED, was a named
    hypothesis) — so with their range (`GM.Props.Inlines.text_segments_in_range_and_ordered`) they pass `segOK` -/
theorem inline_segments_unpadded : InlineSegsUnpadded := inlineSegsUnpadded

/-- `inline_segments_inside_block_lines` (clause (c), "inline segments lie inside the block's lines, in order" — round
    2: PROVED, was searched only). For EVERY source, `WF0` line list, reference map, Unicode class assignment: the
    segments recorded in the tree `parseBlock` answers, in tree order, start at or behind the start of the block's FIRST
    line, end at or before the end of its LAST line, none is inverted, each starts at or behind the end of the one
    before. (GM.Proof.E2ELoLoop / E2ELoLink: the loop invariant and the contracts of the five inline parsers re-run with
    the lower bound of the segment chain generalised from 0 to the first line's start.) -/
theorem inline_segments_inside_block_lines (env : GM.Inl.Env) (src : Bytes) (lines : List Segment) (h : WF0 src lines)
    (kids : List GM.Inl.Node) (hk : GM.Inl.parseBlock env src lines = .ok kids) :
    chain (loOf lines) (hiOf lines) (segsOfL kids) := by
  rw [loOf_segOf, hiOf_lastStop]
  exact GM.Proof.InlinesLoLink.parseBlock_segments_lo h.1 h.2 env hk

/-- `info_closure_in_range` (clause (c) for the two segments of a block that are neither lines nor inline content —
    round 2: PROVED for every source): FencedCodeBlock.Info and HTMLBlock.ClosureLine lie inside the source -/
theorem info_closure_in_range (guard : Bool) (src : Bytes) (st : GM.Blocks.St) (h : blockPhase guard src = .ok st) :
    ∀ n ∈ st.nodes, XP src n :=
  blockPhase_xsegs guard src st h

/-- `parser_output_wellformed_partial` (C05 over `GM.Convert`). For EVERY byte string `src` and Unicode class
    assignment: when the parse phases answer the tree `a`, its position dump passes `wfAst` — clause (a) by
    construction; clause (b) root / heading levels / kinds / inline places / code spans / emphasis levels / links
    proved; clause (c) proved for ALL inline segments (range, order, padding, inside the block's lines) and for info /
    closure segments — GIVEN, for the store `st` the block phase returns, the FOUR named hypotheses `StoreHypsCore src st`:
        `lines` (LinesInRange — the shape of `GM.Blocks.NodesOK`), `ord` (LinesOrdered — the shape of
        `GM.Blocks.OrdFrom 0`), `noLines` (Document and List nodes have no lines), `listShape` (a child is a ListItem
        exactly when its parent is a List; one direction is `KidsOK.kids`).
    No hypothesis about the inline phase remains. -/
theorem parser_output_wellformed_partial (uc : List (Nat × (Bool × Bool))) (src : Bytes)
    (a : ATree) (h : parseAst true uc src = .ok a)
    (hS : ∀ st, blockPhase true src = .ok st → StoreHypsCore src st) : wfAst src.length (dumpAst a) = none :=
  parseAst_wfAst_core uc src a h hS

/-- the same from `AOK` of the annotated tree (what the named hypotheses and the proved pieces establish) -/
theorem wellformed_of_tree_facts (src : Bytes) (a : ATree) (h : AOK src none a) : wfAst src.length (dumpAst a) = none :=
  wfAst_dumpAst src a h

/-! ### non-vacuity and tests on literals -/

/-- `# a⏎`: the parse phases answer a tree with segments, and its dump passes `wfAst` (kernel-evaluated) -/
example : ((parseAst true [] (strBytes "# a\n")).toOption.map fun a => wfAst 4 (dumpAst a)) = some none := by
  decide +kernel

/-- a document with a list, a quote, a link, raw HTML and a fenced block -/
def sampleSrc : Bytes := strBytes "- a\n\n> [x](/u) <b>\n\n```go\nz\n```\n"
example : ((parseAst true [] sampleSrc).toOption.map fun a => wfAst sampleSrc.length (dumpAst a)) = some none := by
  decide +kernel

/-- the checker is not constantly `none` (test on a literal): a Heading of level 7 is rejected -/
example : wfAst 0 (dumpAst (.node { kind := .document } [.node { kind := .heading, level := 7 } [] []] [])) =
    some "heading-level" := by
  decide +kernel

/-- `StoreHypsCore` is satisfiable (test on a literal): the store of the empty document -/
example : StoreHypsCore [] (GM.Blocks.initSt []) where
  lines := fun n hn t ht => by
    simp only [GM.Blocks.initSt, List.mem_singleton] at hn; subst hn; cases ht
  ord := fun n hn => by
    simp only [GM.Blocks.initSt, List.mem_singleton] at hn; subst hn; trivial
  noLines := fun n hn _ => by
    simp only [GM.Blocks.initSt, List.mem_singleton] at hn; subst hn; rfl
  listShape := fun i c hc => by
    cases i with
    | zero => simp [GM.Blocks.initSt] at hc
    | succ k => simp [GM.Blocks.initSt, List.getD] at hc; cases hc

end GM.Props.C05E2E
