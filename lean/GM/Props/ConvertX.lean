/-
  GM.Props.ConvertX — theorems about GM.ConvertX.convertX (lean/GM/Model/ConvertX.lean), the composed model of
  `goldmark.New(goldmark.WithExtensions(…)).Convert` for the member sets of {Strikethrough, TaskList, Table}, tied to the real
  code on whole documents by component `convertx`. Every theorem quantifies over ALL byte strings / states. Where the full
  statement of the package's goal is not proved it is kept visible as a `def … : Prop` next to the strongest partial result,
  with what is missing. Helper lemmas: GM/Proof/ConvertX.lean.
-/
import GM.Proof.ConvertXRect
import GM.Proof.ConvertX
import GM.Proof.ConvertXRel
import GM.Proof.ConvertXTotal
import GM.Proof.ConvertXStrikeDoc
import GM.Proof.ConvertXTaskDoc
import GM.Proof.ConvertXMon
import GM.Proof.Table

namespace GM.Props.ConvertX
open GM GM.Text GM.Convert GM.ConvertX GM.Proof.ConvertX

/-! ### every member off -/

/-- `convertx_off_is_core`. With no member switched on the composed model IS the model of the default CommonMark pipeline:
    same HTML, same outcome, for every source, Unicode class assignment and renderer option set — guarded and unguarded. -/
theorem convertx_off_is_core (uc : List (Nat × (Bool × Bool))) (o : ROpts) (src : Bytes) :
    convertX {} uc o src = convertCore uc o src ∧ convertXUnguarded {} uc o src = convertUnguarded uc o src :=
  ⟨convertXWith_off true uc o src, convertXWith_off false uc o src⟩

/-! ### no fuel exhaustion -/

/-- the full statement: `convertX` never ends in `blocks loop` / `inlines loop`, for any member set. PROVED (round 2):
    `convertx_never_loops` below, `conservative…`-style name `convertx_never_loops_all`. The blocker named in round 1 — the loop
    invariant of the totality proof wants every appended node `wf`, and `wf` demands emphasis levels 1–2, which the
    representations of Strikethrough / TaskCheckBox inside GM.Inl.Node violate on purpose — is circumvented by reading the
    invariant off the NORMALISED children (`Ctx.normed`: all levels relabelled into {1, 2}); the inline model is blind to levels
    (GM.Proof.ConvertXRelv). -/
def ConvertXNeverLoops : Prop :=
  ∀ (c : XCfg) uc o src (e : Err), convertX c uc o src = .error e → e.isLoop = false

/-- `convertx_never_loops` — for EVERY member set, every source, renderer option set and Unicode class assignment: `convertX`
    answers HTML or an error that is not fuel exhaustion (`blocks loop` / `inlines loop`). The inline phase: the totality proof
    of the default inline loop carried over to the open trigger table (GM.Proof.ConvertXTotal: `scanX_total`, `lineLoopX_total`),
    with the contracts of the strikethrough and the task-checkbox parser proved directly and the contract of the link parser
    over both delimiter processors obtained from GM.Proof.InlinesLink.link_contract through a relabelling of emphasis levels
    (GM.Proof.ConvertXRelv: the inline model is blind to levels; the generalised ProcessDelimiters / link parser are the default
    ones up to a relabelling that sends the representation of a Strikethrough made by `c` tildes to level `c`). -/
theorem convertx_never_loops (c : XCfg) (uc : List (Nat × (Bool × Bool))) (o : ROpts) (src : Bytes) (e : Err)
    (h : convertX c uc o src = .error e) : e.isLoop = false :=
  convertX_noLoop (GM.Proof.ConvertXTotal.inlineNoLoop_all c) uc o src h

/-- `ConvertXNeverLoops`, proved -/
theorem convertx_never_loops_all : ConvertXNeverLoops := fun c uc o src e h => convertx_never_loops c uc o src e h

/-- the inline loop of a block under ANY member set FINISHES behind the run-time check (no fuel exhaustion, no Go panic, no
    broken modelling invariant in the loop; what remains of parseBlock is the final ProcessDelimiters, which answers a child
    list or `pre`) -/
theorem inline_loop_x_total (c : XCfg) (inItem : Bool) (env : GM.Inl.Env) (src : Bytes) (segs : List Segment)
    (W : GM.Spec.WFSegs src segs) (Z : ∀ s ∈ segs, s.padding = 0) :
    ∃ rd st', BlockReader.new src segs = .ok rd ∧
      GM.Inl.lineLoopX env (inlineTbl c inItem) (GM.Inl.blockFuel src segs) false { rd := rd } = .ok st' :=
  GM.Proof.ConvertXTotal.lineLoopX_cfg_total c inItem W Z env

/-- the same for the member sets {} and {Table} (first delivery; subsumed by `convertx_never_loops`) -/
theorem convertx_never_loops_partial (c : XCfg) (hs : c.strikethrough = false) (ht : c.tasklist = false)
    (uc : List (Nat × (Bool × Bool))) (o : ROpts) (src : Bytes) (e : Err) (h : convertX c uc o src = .error e) :
    e.isLoop = false :=
  convertX_noLoop (inlineNoLoop_noInline c hs ht) uc o src h

/-- every member set: no fuel exhaustion, provided the inline phase of that member set never exhausts its fuel -/
theorem convertx_never_loops_of (c : XCfg) (H : InlineNoLoop c) (uc : List (Nat × (Bool × Bool))) (o : ROpts)
    (src : Bytes) (e : Err) (h : convertX c uc o src = .error e) : e.isLoop = false :=
  convertX_noLoop H uc o src h

/-- the block phase of EVERY member set terminates on every source: the table paragraph transformer is an admissible
    transformer of the block driver (reads the source, writes the node store: `PTOK`), so
    GM.Props.Convert.block_phase_with_transformers_terminates applies to [link references, table] -/
theorem block_phase_x_terminates (c : XCfg) (src : Bytes) : blockPhaseX c true src ≠ .error .loop :=
  blockPhaseX_noLoop c src

theorem table_transformer_admissible (src : Bytes) : GM.Blocks.PTOK (GM.TableX.transformPT src) := transformPT_ptok src

/-! ### C11 on the composed model -/

/-- the full statements (C11 at whole-document level, on the model): all three PROVED in round 2 — `conservative_tasklist`,
    `conservative_strikethrough`, `conservative_table` below -/
def ConservativeTasklist : Prop :=
  ∀ (c : XCfg) uc o src, (91 : UInt8) ∉ src →
    convertX { c with tasklist := true } uc o src = convertX { c with tasklist := false } uc o src
def ConservativeStrikethrough : Prop :=
  ∀ (c : XCfg) uc o src, (126 : UInt8) ∉ src →
    convertX { c with strikethrough := true } uc o src = convertX { c with strikethrough := false } uc o src
def ConservativeTable : Prop :=
  ∀ (c : XCfg) uc o src, (45 : UInt8) ∉ src →
    convertX { c with table := true } uc o src = convertX { c with table := false } uc o src

/-- `convertx_conservative_tasklist` — C11 AT WHOLE-DOCUMENT LEVEL on the model, for every member set without Strikethrough
    (Table on or off): a source without `[` converts to the same HTML — or the same error outcome — with and without
    TaskList, for every renderer option set and Unicode class assignment. Composed from `never_consulted_concrete`
    (GM.Props.C11: the checkbox parser is never consulted, so the inline children of every block are `parseBlock`'s), the shape
    theorem of the default inline phase (`parseBlock_wf`: emphasis levels 1 or 2, so the representation of a TaskCheckBox does
    not occur and decoding does not depend on the flag; kept through the table AST transformer) and "the renderer reads
    `Exts` only through `handled`" on a tree without TaskCheckBox nodes.
    Missing for `ConservativeTasklist`: the same with Strikethrough on (needs the loop invariant of the open-table loop with
    the strikethrough parser and the link parser over `processDelimitersG true`, see `ConvertXNeverLoops`). -/
theorem convertx_conservative_tasklist (c : XCfg) (hs : c.strikethrough = false) (uc : List (Nat × (Bool × Bool)))
    (o : ROpts) (src : Bytes) (hsrc : (91 : UInt8) ∉ src) :
    convertX { c with tasklist := true } uc o src = convertX { c with tasklist := false } uc o src :=
  convertX_task c hs uc o src hsrc

/-- `ConservativeTasklist`, proved: the same for EVERY member set (Strikethrough on, too): the checkbox parser is never
    consulted (`lineLoopX_eq2` on the open table with the contracts of GM.Proof.ConvertXTotal), and a member set without
    TaskList never builds the representation of a TaskCheckBox (`parseBlockG_fixS`: the inline phase of any member set simulates
    itself under a relabelling that fixes the levels its members build) -/
theorem convertx_conservative_tasklist_all (c : XCfg) (uc : List (Nat × (Bool × Bool))) (o : ROpts) (src : Bytes)
    (hsrc : (91 : UInt8) ∉ src) :
    convertX { c with tasklist := true } uc o src = convertX { c with tasklist := false } uc o src :=
  GM.Proof.ConvertXTaskDoc.convertX_task_all c uc o src hsrc

theorem conservative_tasklist : ConservativeTasklist :=
  fun c uc o src h => convertx_conservative_tasklist_all c uc o src h

/-- the same at phase level: the block phase is the same, and behind the run-time check the inline children of EVERY block
    (any line list) are the same -/
theorem convertx_conservative_tasklist_phases (c : XCfg) (hs : c.strikethrough = false) (src : Bytes)
    (hsrc : (91 : UInt8) ∉ src) :
    blockPhaseX { c with tasklist := true } true src = blockPhaseX { c with tasklist := false } true src ∧
    ∀ (env : GM.Inl.Env) (inItem : Bool) (lines : List Segment),
      inlineLines { c with tasklist := true } true env src inItem lines =
        inlineLines { c with tasklist := false } true env src inItem lines :=
  ⟨rfl, fun env inItem lines => inlineLines_task_unused c hs env src hsrc inItem lines⟩

/-- `convertx_conservative_strikethrough` — C11 AT WHOLE-DOCUMENT LEVEL on the model, for EVERY member set (TaskList / Table on or
    off): a source without `~` converts to the same HTML — or the same error outcome — with and without Strikethrough, for
    every renderer option set and Unicode class assignment. Composed from: (1) the strikethrough parser is never consulted
    (`lineLoopX_eq2`: the open-table loop does not look at a table entry whose byte does not occur in the source; the peeked
    lines are slices of the source by the loop invariant of the totality proof, GM.Proof.ConvertXTotal); (2) no `~` delimiter
    ever stands among `parent`'s children (`NT`, kept by every parser of the table), and on such children ProcessDelimiters and
    the link parser over both delimiter processors ARE the default ones (`processDelimitersG_NT`, `parseLinkG_eq`), so the
    loops over the two tables are equal step by step (`lineLoopX_sim` with the identity relabelling); (3) a member set without
    Strikethrough never builds the representation of a Strikethrough node (`parseBlockG_fix`: its inline phase simulates itself
    under the relabelling that moves the levels −3 / −4, so its result is a fixed point), hence decoding does not depend on the
    flag; (4) the renderer reads `Exts` only through `handled`, on a tree without Strikethrough nodes. -/
theorem convertx_conservative_strikethrough (c : XCfg) (uc : List (Nat × (Bool × Bool))) (o : ROpts) (src : Bytes)
    (hsrc : (126 : UInt8) ∉ src) :
    convertX { c with strikethrough := true } uc o src = convertX { c with strikethrough := false } uc o src :=
  GM.Proof.ConvertXStrikeDoc.convertX_strike c uc o src hsrc

/-- `ConservativeStrikethrough`, proved -/
theorem conservative_strikethrough : ConservativeStrikethrough :=
  fun c uc o src h => convertx_conservative_strikethrough c uc o src h

/-- the same at block level: behind the run-time check the inline children of EVERY block are the same -/
theorem convertx_conservative_strikethrough_phases (c : XCfg) (src : Bytes) (hsrc : (126 : UInt8) ∉ src)
    (env : GM.Inl.Env) (inItem : Bool) (lines : List Segment) :
    inlineLines { c with strikethrough := true } true env src inItem lines =
      inlineLines { c with strikethrough := false } true env src inItem lines :=
  GM.Proof.ConvertXStrikeDoc.inlineLines_strike c env src hsrc inItem lines

/-- the trigger table of a member set with the entry of `~` emptied -/
def tblWithoutTilde (c : XCfg) (inItem : Bool) (b : UInt8) : List GM.Inl.XIp :=
  if b == 126 then [] else inlineTbl c inItem b

/-- byte-loop level (first delivery; subsumed): on a line without `~` the byte loop never consults the strikethrough parser -/
theorem convertx_conservative_strikethrough_partial (c : XCfg) (env : GM.Inl.Env) (inItem : Bool) (line : Bytes)
    (hl : (126 : UInt8) ∉ line) (i : Nat) (s : GM.Inl.Scan) :
    GM.Inl.scanX env (inlineTbl c inItem) line i s = GM.Inl.scanX env (tblWithoutTilde c inItem) line i s :=
  scanX_congr env _ _ (by simp [tblWithoutTilde]) line i s (fun b hb => by
    have : b ≠ 126 := fun h => hl (h ▸ hb)
    simp [tblWithoutTilde, this])

/-- `convertx_conservative_table` — C11 AT WHOLE-DOCUMENT LEVEL on the model, for EVERY member set (Strikethrough / TaskList
    on or off), WITHOUT proviso: a source without '-' converts to the same HTML — or the same error outcome — with and without
    Table, for every renderer option set and Unicode class assignment. Composed from `table_needs_dash` (GM.Props.C11: the
    transformer returns the state unchanged), "the transformer's domain monitor cannot fire behind the guarded link-reference
    transformer" (GM.Proof.ConvertXMon.guarded_post: `guardedTransform` leaves the reader alone and leaves the paragraph a
    suffix — `transformer_removes_front` — of lines it has just checked on that reader's source), the monotonicity of the block
    driver `runT` in its transformer list (GM.Proof.ConvertXRel, through all thirteen driver functions: same node store,
    context, reader), "no node decodes as a table node on a source without '-'" (the witness of GM.Model.ExtTableX, so the tree,
    the escaped-pipe list and every block's inline phase are the same) and "the renderer reads `Exts` only through `handled`" on
    a tree without table kinds. -/
theorem convertx_conservative_table (c : XCfg) (uc : List (Nat × (Bool × Bool))) (o : ROpts) (src : Bytes)
    (h : (45 : UInt8) ∉ src) :
    convertX { c with table := true } uc o src = convertX { c with table := false } uc o src :=
  GM.Proof.ConvertXMon.convertX_table_guarded c uc o src h

/-- `ConservativeTable`, proved -/
theorem conservative_table : ConservativeTable := fun c uc o src h => convertx_conservative_table c uc o src h

/-- the unguarded composition keeps the proviso: equal, or the transformer's domain monitor answers `blocks pre` -/
theorem convertx_conservative_table_unguarded_blockphase (c : XCfg) (src : Bytes) (h : (45 : UInt8) ∉ src) :
    blockPhaseX { c with table := true } false src = blockPhaseX { c with table := false } false src ∨
    blockPhaseX { c with table := true } false src = .error .pre :=
  GM.Proof.ConvertXRel.blockPhaseX_table_no_dash c false src h

/-- the same for the block phase alone (guarded or not): exactly the state — node store, parse context with the reference
    map, reader — or the error of the block phase without Table, or `pre` -/
theorem convertx_conservative_table_blockphase (c : XCfg) (guard : Bool) (src : Bytes) (h : (45 : UInt8) ∉ src) :
    blockPhaseX { c with table := true } guard src = blockPhaseX { c with table := false } guard src ∨
    blockPhaseX { c with table := true } guard src = .error .pre :=
  GM.Proof.ConvertXRel.blockPhaseX_table_no_dash c guard src h

/-- the same at transformer level (any state of the block phase): the state is returned unchanged, or `pre` -/
theorem convertx_conservative_table_partial (src : Bytes) (h : (45 : UInt8) ∉ src) (node : Nat) (s : GM.Blocks.St) :
    GM.TableX.transformPT src node s = .ok ((), s) ∨ GM.TableX.transformPT src node s = .error .pre :=
  transformPT_no_dash src h node s

/-! ### C17 on the composed model -/

/-- the full statement: every Table node of the tree `convertX` hands to the renderer is rectangular (`rectB`: one header
    row first, ≥ 1 column, every row as many TableCells as the header). NOT proved; `tables_rectangular_of_store` reduces it to
    a statement about the node store the block phase ends in. Evaluated by the driver on every document with a table of the
    tie (`convertx rect`, a Lean-defined oracle on the output tree AND on the store: always `ok`). -/
def TablesRectangular : Prop :=
  ∀ (c : XCfg) uc src t, parseDocX c true uc src = .ok t → rectB t = true

/-- what is missing for `TablesRectangular`, exactly (`GM.Proof.ConvertXRect.StoreTablesRect`): the block tree `treeOf` reads
    out of the store the block phase (with the table paragraph transformer) ends in is rectangular in the store's encoding
    (`GM.ConvertX.rectT`: a node that decodes as a Table has no lines, its children decode as one TableHeader and TableRows,
    every row has as many children as the header, all of them decode as TableCells). `buildTable` writes exactly that
    (`convertx_tables_rectangular_partial` for the counts); what is not proved is the FRAME property of the block driver —
    the records of these nodes are never written again, and `treeOf`'s fuel exceeds the depth. -/
abbrev StoreTablesRect : Prop := GM.Proof.ConvertXRect.StoreTablesRect

/-- `tables_rectangular_of_store` (C17 on the composed OUTPUT tree, the tree half): for every member set, source and class
    assignment, if the store is rectangular then so is the tree the renderer receives. `docTreeX` keeps child counts
    (`docTreesX` is a map), gives every node the decoded kind (`blockKindX`), gives a Table / TableHeader / TableRow node no
    inline children, and inline subtrees contain no table kind; without the member no node has a table kind at all. -/
theorem tables_rectangular_of_store (H : StoreTablesRect) : TablesRectangular :=
  fun c uc src t h => GM.Proof.ConvertXRect.parseDocX_rect H c uc src t h

/-- the tree half for one tree: `rectT` of a block tree ⇒ `rectB` of what `docTreeX` makes of it -/
theorem doc_tree_keeps_rectangular (c : XCfg) (hc : c.table = true) (g : Bool) (env : GM.Inl.Env) (src : Bytes)
    (escs : List Int) (inItem : Bool) (t : GM.Blocks.Tree) (x : GM.Node) (hr : rectT src t = true)
    (h : docTreeX c g env src escs inItem t = .ok x) : rectB x = true :=
  GM.Proof.ConvertXRect.docTreeX_rect c hc g env src escs inItem t x hr h

/-- TESTS on literals (kernel-evaluated): `rectT` on hand-built block trees over the source `-` (the witness): a 2 x 2 table; a
    body row that is one cell short; no header; a Table node without children under a Document; a `thematicBreak` record
    whose witness fails (source `a`) is not a Table node at all -/
private def tN (tag : Nat) : GM.Blocks.Node := { kind := .thematicBreak, htmlType := tag, offset := 0 }
private def cellT : GM.Blocks.Tree := .node (tN GM.TableX.tagCell) []
example : rectT [45] (.node (tN GM.TableX.tagTable) [.node (tN GM.TableX.tagHeader) [cellT, cellT], .node (tN GM.TableX.tagRow) [cellT, cellT]]) = true := by decide +kernel
example : rectT [45] (.node (tN GM.TableX.tagTable) [.node (tN GM.TableX.tagHeader) [cellT, cellT], .node (tN GM.TableX.tagRow) [cellT]]) = false := by decide +kernel
example : rectT [45] (.node (tN GM.TableX.tagTable) [.node (tN GM.TableX.tagRow) [cellT], .node (tN GM.TableX.tagRow) [cellT]]) = false := by decide +kernel
example : rectT [45] (.node { kind := .document } [.node (tN GM.TableX.tagTable) []]) = false := by decide +kernel
example : rectT [97] (.node (tN GM.TableX.tagTable) []) = true := by decide +kernel

/-- `convertx_tables_rectangular`, transformer level: whatever paragraph the table transformer of the composed model is
    called on, the table it builds nodes for (`GM.Table.transform`'s, handed to `buildTable`) has ≥ 1 column, a header with
    exactly one cell per column and body rows with exactly one cell per column (GM.Props.C17.table_rectangular). -/
theorem convertx_tables_rectangular_partial (src : Bytes) (lines : List Segment) (t : GM.Table.Table)
    (h : (GM.Table.transform src (lines.map GM.TableX.toSeg)).table = some t) :
    t.aligns ≠ [] ∧ t.header.length = t.aligns.length ∧ ∀ r ∈ t.rows, r.length = t.aligns.length :=
  let w := GM.Proof.Table.transform_wellShaped src _ t h
  ⟨w.cols, w.header_len, w.row_len⟩

/-! ### generalisations are refinements on the default instantiation -/

/-- ScanDelimiter over the emphasis processor's IsDelimiter is the emphasis model's ScanDelimiter -/
theorem scan_delimiter_generalises (env : GM.Inl.Env) (line : Bytes) (before : Nat) :
    GM.Inl.scanDelimiterP GM.Inl.isEmphasisDelim env line before = GM.Inl.scanDelimiter env line before := rfl

/-- the open-table inline phase over the default table and ProcessDelimiters is `parseBlock`, unconditionally -/
theorem parse_block_generalises (env : GM.Inl.Env) (src : Bytes) (segs : List Segment) :
    parseBlockG env GM.Inl.baseTbl GM.Inl.processDelimiters src segs = GM.Inl.parseBlock env src segs :=
  parseBlockG_base env src segs

/-! ### non-vacuity (tests on literals; whole-document literals are evaluated by the compiled driver in the tie —
     `echo "convertx html 1 7e7e617e7e0a -" | gmdriver` — the kernel runs out of memory on them) -/

/-- TEST: the strikethrough parser accepts `~a~` at the head of a one-line block: a `~` delimiter of length 1 -/
example : ((GM.Text.BlockReader.new [126, 97, 126, 10] [{ start := 0, stop := 4 }]).toOption.bind fun rd =>
    (GM.Inl.parseStrike {} { rd := rd }).toOption.map fun r => r.1.isSome) = some true := by decide +kernel

/-- TEST: OnMatch of a `~` opener builds the representation of Strikethrough, of a `*` opener an Emphasis -/
example : GM.Inl.onMatch true { seg := ⟨0, 1, 0, false⟩, canOpen := true, canClose := false, length := 1, origLength := 1, char := 126 } 1 [] =
    GM.Inl.strikeNode 1 [] := rfl

/-- the hypotheses are satisfiable: sources without the trigger bytes, a state without '-' -/
example : (91 : UInt8) ∉ ([97, 10] : Bytes) := by decide
example : (126 : UInt8) ∉ ([97, 10] : Bytes) := by decide
example : (GM.Table.transform [97, 124, 98, 10, 45, 124, 45, 10]
    (([{ start := 0, stop := 4 }, { start := 4, stop := 8 }] : List Segment).map GM.TableX.toSeg)).table.isSome = true := by
  decide +kernel

end GM.Props.ConvertX
