/-
  GM.Props.ConvertX — theorems about GM.ConvertX.convertX (lean/GM/Model/ConvertX.lean), the composed model of
  `goldmark.New(goldmark.WithExtensions(…)).Convert` for the member sets of {Strikethrough, TaskList, Table}, tied to the real
  code on whole documents by component `convertx`. Every theorem quantifies over ALL byte strings / states. Where the full
  statement of the package's goal is not proved it is kept visible as a `def … : Prop` next to the strongest partial result,
  with what is missing. Helper lemmas: GM/Proof/ConvertX.lean.
-/
import GM.Proof.ConvertX
import GM.Proof.ConvertXRel
import GM.Proof.Table

namespace GM.Props.ConvertX
open GM GM.Text GM.Convert GM.ConvertX GM.Proof.ConvertX

/-! ### every member off -/

/-- `convertx_off_is_core`. With no member switched on the composed model IS the model of the default CommonMark pipeline:
    same HTML, same outcome, for every source, Unicode class assignment and renderer option set — guarded and unguarded. -/
theorem convertx_off_is_core (uc : List (Nat × (Bool × Bool))) (o : ROpts) (src : Bytes) :
    convertX {} uc o src = convertCore uc o src ∧ convertXUnguarded {} uc o src = convertUnguarded uc o src :=
  ⟨convertXWith_off true uc o src, convertXWith_off false uc o src⟩

/-! ### no fuel exhaustion -/

/-- the full statement: `convertX` never ends in `blocks loop` / `inlines loop`, for any member set. PROVED for the member
    sets without an inline member (`convertx_never_loops_partial`), and for EVERY member set as far as the block phase goes
    (`block_phase_x_terminates`) and relative to `InlineNoLoop c` (`convertx_never_loops_of`). Missing for Strikethrough /
    TaskList: `InlineNoLoop c` — the totality proof of the inline loop (GM.Proof.InlinesLoopTotal.scan_total / lineLoop_total,
    stated for the default parser list) carried over to the open table `lineLoopX`, plus the parser contracts `PContract` of
    `parseTask` (advances inside or to the end of its line), `parseStrike` (as `emphasis_contract`) and — for Strikethrough —
    of the link parser over `processDelimitersG true` (GM.Proof.InlinesLink, redone over the generalised OnMatch).
    BLOCKER: that proof's loop invariant (`Ctx.appendPlain`) wants every appended node `wf`, and `wf` demands emphasis levels
    1–2 — which the representations of Strikethrough / TaskCheckBox inside GM.Inl.Node (levels 0, −1, −2) violate on purpose
    (`parseBlock_wf` is what shows the default parsers cannot produce them). It goes away with real constructors in
    GM.Inl.Node. In the tie no run of any member set ever answered `loop`. -/
def ConvertXNeverLoops : Prop :=
  ∀ (c : XCfg) uc o src (e : Err), convertX c uc o src = .error e → e.isLoop = false

/-- `convertx_never_loops` for the member sets {} and {Table}: HTML, or an error that is not fuel exhaustion. -/
theorem convertx_never_loops_partial (c : XCfg) (hs : c.strikethrough = false) (ht : c.tasklist = false)
    (uc : List (Nat × (Bool × Bool))) (o : ROpts) (src : Bytes) (e : Err) (h : convertX c uc o src = .error e) :
    e.isLoop = false :=
  convertX_noLoop (inlineNoLoop_noInline c hs ht) uc o src h

/-- every member set: no fuel exhaustion, provided the inline phase of that member set never exhausts its fuel -/
theorem convertx_never_loops_of (c : XCfg) (H : InlineNoLoop c) (uc : List (Nat × (Bool × Bool))) (o : ROpts)
    (src : Bytes) (e : Err) (h : convertX c uc o src = .error e) : e.isLoop = false :=
  convertX_noLoop H uc o src h

/-- the block phase of EVERY member set terminates on every source: the table paragraph transformer is an admissible
    transformer of the block driver (reads the source, writes the node store: `PTOK`), so
    GM.Props.Convert.block_phase_with_transformers_terminates applies to [link references, table] -/
theorem block_phase_x_terminates (c : XCfg) (src : Bytes) : blockPhaseX c true src ≠ .error .loop :=
  blockPhaseX_noLoop c src

theorem table_transformer_admissible (src : Bytes) : GM.Blocks.PTOK (GM.TableX.transformPT src) := transformPT_ptok src

/-! ### C11 on the composed model -/

/-- the full statements (C11 at whole-document level, on the model) -/
def ConservativeTasklist : Prop :=
  ∀ (c : XCfg) uc o src, (91 : UInt8) ∉ src →
    convertX { c with tasklist := true } uc o src = convertX { c with tasklist := false } uc o src
def ConservativeStrikethrough : Prop :=
  ∀ (c : XCfg) uc o src, (126 : UInt8) ∉ src →
    convertX { c with strikethrough := true } uc o src = convertX { c with strikethrough := false } uc o src
def ConservativeTable : Prop :=
  ∀ (c : XCfg) uc o src, (45 : UInt8) ∉ src →
    convertX { c with table := true } uc o src = convertX { c with table := false } uc o src

/-- `convertx_conservative_tasklist` — C11 AT WHOLE-DOCUMENT LEVEL on the model, for every member set without Strikethrough
    (Table on or off): a source without `[` converts to the same HTML — or the same error outcome — with and without
    TaskList, for every renderer option set and Unicode class assignment. Composed from `never_consulted_concrete`
    (GM.Props.C11: the checkbox parser is never consulted, so the inline children of every block are `parseBlock`'s), the shape
    theorem of the default inline phase (`parseBlock_wf`: emphasis levels 1 or 2, so the representation of a TaskCheckBox does
    not occur and decoding does not depend on the flag; kept through the table AST transformer) and "the renderer reads
    `Exts` only through `handled`" on a tree without TaskCheckBox nodes.
    Missing for `ConservativeTasklist`: the same with Strikethrough on (needs the loop invariant of the open-table loop with
    the strikethrough parser and the link parser over `processDelimitersG true`, see `ConvertXNeverLoops`). -/
theorem convertx_conservative_tasklist (c : XCfg) (hs : c.strikethrough = false) (uc : List (Nat × (Bool × Bool)))
    (o : ROpts) (src : Bytes) (hsrc : (91 : UInt8) ∉ src) :
    convertX { c with tasklist := true } uc o src = convertX { c with tasklist := false } uc o src :=
  convertX_task c hs uc o src hsrc

/-- the same at phase level: the block phase is the same, and behind the run-time check the inline children of EVERY block
    (any line list) are the same -/
theorem convertx_conservative_tasklist_phases (c : XCfg) (hs : c.strikethrough = false) (src : Bytes)
    (hsrc : (91 : UInt8) ∉ src) :
    blockPhaseX { c with tasklist := true } true src = blockPhaseX { c with tasklist := false } true src ∧
    ∀ (env : GM.Inl.Env) (inItem : Bool) (lines : List Segment),
      inlineLines { c with tasklist := true } true env src inItem lines =
        inlineLines { c with tasklist := false } true env src inItem lines :=
  ⟨rfl, fun env inItem lines => inlineLines_task_unused c hs env src hsrc inItem lines⟩

/-- the trigger table of a member set with the entry of `~` emptied -/
def tblWithoutTilde (c : XCfg) (inItem : Bool) (b : UInt8) : List GM.Inl.XIp :=
  if b == 126 then [] else inlineTbl c inItem b

/-- `convertx_conservative_strikethrough`, byte-loop level (any member set): on a line without `~` the byte loop of
    parseBlock never consults the strikethrough parser — the loop over the member set's table is the loop over the table
    with the entry of `~` emptied, from every state. Missing for `ConservativeStrikethrough`: (1) every peeked line is a
    slice of the source (the open-table loop invariant, see `ConvertXNeverLoops`); (2) `processDelimitersG true` is
    `processDelimiters` on children without a `~` delimiter and the link parser keeps that invariant; (3) no emphasis node
    of level 0 (the representation of Strikethrough) in the default model; (4) `render` and `Exts.strike`. -/
theorem convertx_conservative_strikethrough_partial (c : XCfg) (env : GM.Inl.Env) (inItem : Bool) (line : Bytes)
    (hl : (126 : UInt8) ∉ line) (i : Nat) (s : GM.Inl.Scan) :
    GM.Inl.scanX env (inlineTbl c inItem) line i s = GM.Inl.scanX env (tblWithoutTilde c inItem) line i s :=
  scanX_congr env _ _ (by simp [tblWithoutTilde]) line i s (fun b hb => by
    have : b ≠ 126 := fun h => hl (h ▸ hb)
    simp [tblWithoutTilde, this])

/-- `convertx_conservative_table` — C11 AT WHOLE-DOCUMENT LEVEL on the model, for EVERY member set (Strikethrough / TaskList
    on or off): a source without '-' converts to the same HTML — or the same error outcome — with and without Table, for
    every renderer option set and Unicode class assignment; the only other possibility is that the table transformer's domain
    monitor answers `blocks pre` (a paragraph line outside the source; never in the tie, and excluded for well-formed lines by
    the check `guardedTransform` makes on the same paragraph just before). Composed from `table_needs_dash` (GM.Props.C11: the
    transformer returns the state unchanged), the monotonicity of the block driver `runT` in its transformer list
    (GM.Proof.ConvertXRel: a relation closed under bind from every state, through all thirteen driver functions: same node
    store, context, reader), "no node decodes as a table node on a source without '-'" (the witness of GM.Model.ExtTableX, so
    the tree, the escaped-pipe list and every block's inline phase are the same) and "the renderer reads `Exts` only through
    `handled`" on a tree without table kinds. Missing for `ConservativeTable`: the monitor unreachable. -/
theorem convertx_conservative_table (c : XCfg) (uc : List (Nat × (Bool × Bool))) (o : ROpts) (src : Bytes)
    (h : (45 : UInt8) ∉ src) :
    convertX { c with table := true } uc o src = convertX { c with table := false } uc o src ∨
    convertX { c with table := true } uc o src = .error (.blocks .pre) :=
  GM.Proof.ConvertXRel.convertX_table c uc o src h

/-- the same for the block phase alone (guarded or not): exactly the state — node store, parse context with the reference
    map, reader — or the error of the block phase without Table, or `pre` -/
theorem convertx_conservative_table_blockphase (c : XCfg) (guard : Bool) (src : Bytes) (h : (45 : UInt8) ∉ src) :
    blockPhaseX { c with table := true } guard src = blockPhaseX { c with table := false } guard src ∨
    blockPhaseX { c with table := true } guard src = .error .pre :=
  GM.Proof.ConvertXRel.blockPhaseX_table_no_dash c guard src h

/-- the same at transformer level (any state of the block phase): the state is returned unchanged, or `pre` -/
theorem convertx_conservative_table_partial (src : Bytes) (h : (45 : UInt8) ∉ src) (node : Nat) (s : GM.Blocks.St) :
    GM.TableX.transformPT src node s = .ok ((), s) ∨ GM.TableX.transformPT src node s = .error .pre :=
  transformPT_no_dash src h node s

/-! ### C17 on the composed model -/

/-- the full statement: every Table node of the tree `convertX` hands to the renderer is rectangular (`rectB`: one header
    row first, ≥ 1 column, every row as many TableCells as the header). Evaluated by the driver on every document with a table
    of the tie (`convertx rect`, a Lean-defined oracle: always `ok`). Missing: `buildTable` writes the model table into the
    node store as it is (fresh ids, `appendChild` on fresh nodes) and the block driver never changes those nodes afterwards
    (their ids are not on the open-block stack), so `treeOf` reads back `t.children`; `docTreeX` keeps child counts. -/
def TablesRectangular : Prop :=
  ∀ (c : XCfg) uc src t, parseDocX c true uc src = .ok t → rectB t = true

/-- `convertx_tables_rectangular`, transformer level: whatever paragraph the table transformer of the composed model is
    called on, the table it builds nodes for (`GM.Table.transform`'s, handed to `buildTable`) has ≥ 1 column, a header with
    exactly one cell per column and body rows with exactly one cell per column (GM.Props.C17.table_rectangular). -/
theorem convertx_tables_rectangular_partial (src : Bytes) (lines : List Segment) (t : GM.Table.Table)
    (h : (GM.Table.transform src (lines.map GM.TableX.toSeg)).table = some t) :
    t.aligns ≠ [] ∧ t.header.length = t.aligns.length ∧ ∀ r ∈ t.rows, r.length = t.aligns.length :=
  let w := GM.Proof.Table.transform_wellShaped src _ t h
  ⟨w.cols, w.header_len, w.row_len⟩

/-! ### generalisations are refinements on the default instantiation -/

/-- ScanDelimiter over the emphasis processor's IsDelimiter is the emphasis model's ScanDelimiter -/
theorem scan_delimiter_generalises (env : GM.Inl.Env) (line : Bytes) (before : Nat) :
    GM.Inl.scanDelimiterP GM.Inl.isEmphasisDelim env line before = GM.Inl.scanDelimiter env line before := rfl

/-- the open-table inline phase over the default table and ProcessDelimiters is `parseBlock`, unconditionally -/
theorem parse_block_generalises (env : GM.Inl.Env) (src : Bytes) (segs : List Segment) :
    parseBlockG env GM.Inl.baseTbl GM.Inl.processDelimiters src segs = GM.Inl.parseBlock env src segs :=
  parseBlockG_base env src segs

/-! ### non-vacuity (tests on literals; whole-document literals are evaluated by the compiled driver in the tie —
     `echo "convertx html 1 7e7e617e7e0a -" | gmdriver` — the kernel runs out of memory on them) -/

/-- TEST: the strikethrough parser accepts `~a~` at the head of a one-line block: a `~` delimiter of length 1 -/
example : ((GM.Text.BlockReader.new [126, 97, 126, 10] [{ start := 0, stop := 4 }]).toOption.bind fun rd =>
    (GM.Inl.parseStrike {} { rd := rd }).toOption.map fun r => r.1.isSome) = some true := by decide +kernel

/-- TEST: OnMatch of a `~` opener builds the representation of Strikethrough, of a `*` opener an Emphasis -/
example : GM.Inl.onMatch true { seg := ⟨0, 1, 0, false⟩, canOpen := true, canClose := false, length := 1, origLength := 1, char := 126 } 1 [] =
    GM.Inl.strikeNode [] := rfl

/-- the hypotheses are satisfiable: sources without the trigger bytes, a state without '-' -/
example : (91 : UInt8) ∉ ([97, 10] : Bytes) := by decide
example : (126 : UInt8) ∉ ([97, 10] : Bytes) := by decide
example : (GM.Table.transform [97, 124, 98, 10, 45, 124, 45, 10]
    (([{ start := 0, stop := 4 }, { start := 4, stop := 8 }] : List Segment).map GM.TableX.toSeg)).table.isSome = true := by
  decide +kernel

end GM.Props.ConvertX
