/-
  GM.Props.ConvertE2E — END-TO-END theorems for the default CommonMark configuration: the renderer properties C03 / C04 /
  C10 and the renderer half of C01, stated over the composed model `GM.Convert.convertCore uc o src` (block phase with the
  link-reference transformer → inline phase per block → `docTree` → renderer model; tied to `goldmark.New(…).Convert` on
  whole documents by component `convert`) instead of over abstract trees that are assumed to satisfy `Spec.Inv`.

  Every theorem quantifies over EVERY byte string `src`, every Unicode class assignment `uc` and every renderer option
  set `o` (Unsafe / XHTML / HardWraps). Where a statement needs "the parse phases answered a tree" the hypothesis is
  `convertCore … = .ok html` (that the block phase never panics and hands `WF0` lines to the inline phase is the subject
  of other packages). Only property theorems and their non-vacuity examples live here; proofs: GM/Proof/E2E*.lean.
-/
import GM.Proof.E2EMain
import GM.Proof.E2EValue
import GM.Proof.E2EUrlTok
import GM.Proof.E2EInlineDone
import GM.Proof.E2EStoreDone
import GM.Proof.E2ERunEq
import GM.Proof.E2EBracket
import GM.Proof.E2ERel

namespace GM.Props.ConvertE2E
open GM GM.Text GM.Convert GM.Spec GM.E2E

/-! ### (1) `Spec.Inv` holds of parser output -/

/-- `block_store_heading_levels` (`BlockStoreOK`). For EVERY source: in the node store the block phase (with the
    link-reference paragraph transformer, guarded or not) returns, every Heading node — reachable from the Document or
    not — has `1 ≤ Level ≤ 6`. The level is fixed at creation (ATX: the length of the `#` run, declined above 6; setext:
    1 or 2) and no step of the block phase writes a node's kind or level afterwards. -/
theorem block_store_heading_levels (guard : Bool) (src : Bytes) (st : GM.Blocks.St)
    (h : blockPhase guard src = .ok st) :
    ∀ n ∈ st.nodes, n.kind = .heading → 1 ≤ n.level ∧ n.level ≤ 6 :=
  blockPhase_headOK guard src st h

/-- `block_store_ok_decidable`: the store predicate is decidable — the Boolean `headOKB` (evaluable on any dumped
    store) says the same, and it is `true` of every store the block phase returns -/
theorem block_store_ok_decidable (guard : Bool) (src : Bytes) (st : GM.Blocks.St) (h : blockPhase guard src = .ok st) :
    headOKB st = true :=
  (headOKB_iff st).2 (blockPhase_headOK guard src st h)

/-- the Boolean is not constantly true (test on a literal): a store with a level-7 Heading -/
example : headOKB { r := Reader.new [], nodes := [{ kind := .heading, level := 7 }], pc := {} } = false := by decide

/-- the same for the block driver with ANY list of paragraph transformers that keep the heading levels -/
theorem block_store_heading_levels_any_transformers (pts : List GM.Blocks.PT) (hp : PTsKeep HeadOK pts) (src : Bytes)
    (st : GM.Blocks.St) (h : GM.Blocks.runT pts src = .ok st) :
    ∀ n ∈ st.nodes, n.kind = .heading → 1 ≤ n.level ∧ n.level ≤ 6 :=
  runT_headOK hp src st h

/-- `store_inv_gives_tree_inv`: from `BlockStoreOK` of ANY block store to the invariant of the tree `docTree` builds from
    it (the inline clauses — CodeSpan children are Text, no bookkeeping node, no attributes, no String / table node —
    come from the shape theorem of the inline phase, `GM.Props.Inlines.codespan_holds_text` & co.). -/
theorem store_inv_gives_tree_inv (rc : RCfg) (guard : Bool) (env : GM.Inl.Env) (src : Bytes) (st : GM.Blocks.St)
    (hs : ∀ n ∈ st.nodes, n.kind = .heading → 1 ≤ n.level ∧ n.level ≤ 6) (fuel id : Nat) (t : GM.Node)
    (h : docTree guard env src (GM.Blocks.treeOf st.nodes fuel id) = .ok t) : Spec.nodeInv rc .any t = true :=
  docTree_inv_of_store rc guard env src st hs fuel id t h

/-- `parser_output_satisfies_inv` (what C03 monitors on generated documents, as a theorem). For EVERY source, Unicode
    class assignment and option set: the tree the parse phases hand to the renderer satisfies `Spec.Inv` — heading
    levels 1..6, CodeSpan children are Text, no attributes (hence no invalid / duplicate / clashing attribute name), no
    code-flagged String, no table node outside its place; the footnote strings of the renderer state are the inert
    defaults. -/
theorem parser_output_satisfies_inv (uc : List (Nat × (Bool × Bool))) (o : ROpts) (src : Bytes) (t : GM.Node)
    (h : parseDoc true uc src = .ok t) : Spec.Inv o.rcfg t = true :=
  parseDoc_inv (ROpts.opts o) {} true uc src t h

/-- the same for the composition with or without the two run-time checks, and for the renderer state of ANY global
    option set and extension set built by `mkRCfg` (the parsed tree has no extension node, so registering extension
    renderers does not matter) -/
theorem parser_output_satisfies_inv_any_cfg (guard : Bool) (uc : List (Nat × (Bool × Bool))) (o : Opts) (e : Exts)
    (src : Bytes) (t : GM.Node) (h : parseDoc guard uc src = .ok t) : Spec.Inv (mkRCfg o e) t = true :=
  parseDoc_inv o e guard uc src t h

/-! ### (2) + (3d) the renderer-side panic outcome is unreachable -/

/-- `convert_no_render_panic`. For EVERY source, Unicode class assignment and option set `convertCore` never ends in
    `Err.render k`: no node renderer function panics on parser output (`"0123456"[n.Level]` in renderHeading,
    `c.(*ast.Text)` in renderCodeSpan; the table-cell assertion needs the table extension). -/
theorem convert_no_render_panic (uc : List (Nat × (Bool × Bool))) (o : ROpts) (src : Bytes) (k : PanicKind) :
    convertCore uc o src ≠ .error (.render k) :=
  convertWith_not_render o true uc src k

/-- the same for the composition without the two run-time checks -/
theorem convert_unguarded_no_render_panic (uc : List (Nat × (Bool × Bool))) (o : ROpts) (src : Bytes) (k : PanicKind) :
    convertUnguarded uc o src ≠ .error (.render k) :=
  convertWith_not_render o false uc src k

/-! ### (2) the other renderer-side outcome, `Err.value p` (a `Segment.Value` panic while a node renderer resolves a segment)

The full statement is `NoRendererSidePanic` below. Proved here: the `render k` half unconditionally
(`convert_no_render_panic`), and the `value p` half REDUCED to two explicit facts about the parse phases
(`convert_no_value_panic_partial`); neither fact is proved in this package (the first is the range clause of C05(c) carried
through the driver with transformers plus the same for the info / closure segments, the second a padding invariant of
the inline phase whose range half is `GM.Props.Inlines.text_segments_in_range_and_ordered`). -/

/-- the full statement (NOT proved): no renderer-side error outcome at all -/
def NoRendererSidePanic : Prop :=
  ∀ (uc : List (Nat × (Bool × Bool))) (o : ROpts) (src : Bytes),
    (∀ k, convertCore uc o src ≠ .error (.render k)) ∧ (∀ p, convertCore uc o src ≠ .error (.value p))

/-- `convert_no_value_panic_partial`. Given (a) the segments the inline phase records never carry a negative padding
    (`InlineSegsUnpadded`, a statement about `GM.Inl.parseBlock` on `WF0` lines) and (b) in the store the block phase
    returns for `src` the lines of raw blocks, fenced info segments and HTML closure lines are inside the source with
    non-negative padding (`RawSegsInRange`): `convertCore` never ends in `Err.value p`, for every Unicode class
    assignment and option set. The RANGE of the inline segments is not a hypothesis: it follows from the `WF0` check
    `convertCore` makes and the segment theorem of the inline phase. -/
theorem convert_no_value_panic_partial (hI : InlineSegsUnpadded) (uc : List (Nat × (Bool × Bool))) (o : ROpts)
    (src : Bytes) (hB : ∀ st, blockPhase true src = .ok st → RawSegsInRange src st) (p : Panic) :
    convertCore uc o src ≠ .error (.value p) :=
  convertCore_noValue hI uc o src hB p

/-- `inline_children_resolve_partial`: behind the `WF0` check, every segment of the inline children of a block lies
    inside the source, so with (a) the children resolve to bytes (`inlineTrees` answers) -/
theorem inline_children_resolve_partial (hI : InlineSegsUnpadded) (env : GM.Inl.Env) (src : Bytes)
    (n : GM.Blocks.Node) (kids : List GM.Inl.Node) (h : inlinePhase true env src n = .ok kids) :
    ∃ ts, inlineTrees src kids = .ok ts :=
  inlinePhase_values hI h

/-- `block_kind_resolves`: a block node whose renderer-read segments are in range resolves to a renderer kind -/
theorem block_kind_resolves (src : Bytes) (n : GM.Blocks.Node) (h : RawSegsP src n) : ∃ k, blockKind src n = .ok k :=
  blockKind_total h

/-- `inline_segments_unpadded` (round 2: was the hypothesis `InlineSegsUnpadded`). For EVERY source, every `WF0` line
    list, reference map and Unicode class assignment: every segment recorded in the tree `parseBlock` answers — Text,
    code-span text, autolink value, raw-HTML segments — has padding 0. Proved by a logical relation through the block
    reader and the whole inline model (GM.Proof.E2EPad*): segment arithmetic never creates padding. -/
theorem inline_segments_unpadded : InlineSegsUnpadded := inlineSegsUnpadded

/-- `inline_children_resolve`: behind `convertCore`'s `WF0` check the inline children of EVERY block resolve to bytes —
    no `Segment.Value` panic of a node renderer comes from an inline node. Unconditional. -/
theorem inline_children_resolve (env : GM.Inl.Env) (src : Bytes) (n : GM.Blocks.Node) (kids : List GM.Inl.Node)
    (h : inlinePhase true env src n = .ok kids) : ∃ ts, inlineTrees src kids = .ok ts :=
  inlinePhase_values_total h

/-- `convert_no_value_panic_of_raw_segments`: `Err.value p` is unreachable given ONLY hypothesis (b) — in the store the
    block phase returns, the lines of raw blocks, fenced info segments and HTML closure lines are in range -/
theorem convert_no_value_panic_of_raw_segments (uc : List (Nat × (Bool × Bool))) (o : ROpts) (src : Bytes)
    (hB : ∀ st, blockPhase true src = .ok st → RawSegsInRange src st) (p : Panic) :
    convertCore uc o src ≠ .error (.value p) :=
  convertCore_noValue_of_raw uc o src hB p

/-- `convert_renderer_side_total_partial`: given (b), `convertCore` can only fail in the parse phases — with a
    `blocks …`, `linesNotWF0` or `inlines …` outcome; the renderer side (`value`, `render`) is total. -/
theorem convert_renderer_side_total_partial (uc : List (Nat × (Bool × Bool))) (o : ROpts) (src : Bytes)
    (hB : ∀ st, blockPhase true src = .ok st → RawSegsInRange src st) (e : Err) (h : convertCore uc o src = .error e) :
    (∃ p, e = .blocks p) ∨ e = .linesNotWF0 ∨ (∃ p, e = .inlines p) := by
  cases e with
  | blocks p => exact .inl ⟨p, rfl⟩
  | linesNotWF0 => exact .inr (.inl rfl)
  | inlines p => exact .inr (.inr ⟨p, rfl⟩)
  | value p => exact absurd h (convertCore_noValue_of_raw uc o src hB p)
  | render k => exact absurd h (convertWith_not_render o true uc src k)

/-- `block_store_info_closure_in_range` (round 2: was part of hypothesis (b)). For EVERY source: in the store the
    block phase returns (guarded or not), the info segment of every FencedCodeBlock and the closure line of every
    HTMLBlock (`HasClosure()`) satisfy `0 ≤ start ≤ stop ≤ len(source)`, `padding ≥ 0`. A frame invariant that looks
    at the reader: whenever the source reader hands out a line it is `Value` of the position it hands out, and both
    segments are computed from a position handed out TOGETHER WITH a line. -/
theorem block_store_info_closure_in_range (guard : Bool) (src : Bytes) (st : GM.Blocks.St)
    (h : blockPhase guard src = .ok st) : ∀ n ∈ st.nodes, XP src n :=
  blockPhase_xsegs guard src st h

/-- `convert_no_value_panic_of_raw_lines`: `Err.value p` is unreachable given ONLY that the LINES of the raw blocks
    (CodeBlock / FencedCodeBlock / HTMLBlock) of the store are in range — a consequence of `GM.Blocks.NodesOK src st`,
    the conclusion of the no-panic theorems of the block phase. -/
theorem convert_no_value_panic_of_raw_lines (uc : List (Nat × (Bool × Bool))) (o : ROpts) (src : Bytes)
    (hB : ∀ st, blockPhase true src = .ok st →
      ∀ n ∈ st.nodes, isRawKind n.kind = true → ∀ t ∈ n.lines, segInRange src t) (p : Panic) :
    convertCore uc o src ≠ .error (.value p) :=
  convertCore_noValue_of_lines uc o src hB p

/-- `convert_renderer_side_total_of_lines`: given that, `convertCore` only fails in the parse phases -/
theorem convert_renderer_side_total_of_lines (uc : List (Nat × (Bool × Bool))) (o : ROpts) (src : Bytes)
    (hB : ∀ st, blockPhase true src = .ok st →
      ∀ n ∈ st.nodes, isRawKind n.kind = true → ∀ t ∈ n.lines, segInRange src t)
    (e : Err) (h : convertCore uc o src = .error e) :
    (∃ p, e = .blocks p) ∨ e = .linesNotWF0 ∨ (∃ p, e = .inlines p) := by
  cases e with
  | blocks p => exact .inl ⟨p, rfl⟩
  | linesNotWF0 => exact .inr (.inl rfl)
  | inlines p => exact .inr (.inr ⟨p, rfl⟩)
  | value p => exact absurd h (convertCore_noValue_of_lines uc o src hB p)
  | render k => exact absurd h (convertWith_not_render o true uc src k)

/-- `raw_segments_from_lines_in_range`: hypothesis (b) splits into the range clause of C05(c) for the store (the shape of
    `GM.Props.Blocks.lines_in_range`, there proved for the driver WITHOUT transformers) plus the same for the two other
    segments a node renderer resolves — so a `lines_in_range` theorem for `blockPhase` discharges the first part. -/
theorem raw_segments_from_lines_in_range (src : Bytes) (st : GM.Blocks.St)
    (hl : ∀ n ∈ st.nodes, ∀ t ∈ n.lines, 0 ≤ t.start ∧ t.start ≤ t.stop ∧ t.stop ≤ src.length ∧ 0 ≤ t.padding)
    (hi : ∀ n ∈ st.nodes, n.kind = .fencedCodeBlock → ∀ s, n.info = some s → segInRange src s)
    (hc : ∀ n ∈ st.nodes, n.kind = .htmlBlock → n.closure.start ≥ 0 → segInRange src n.closure) :
    RawSegsInRange src st :=
  fun n hn => ⟨fun _ t ht => hl n hn t ht, hi n hn, hc n hn⟩

/-- hypothesis (b) is satisfiable (test on a literal): the store of the empty document -/
example : RawSegsInRange [] (GM.Blocks.initSt []) := by
  intro n hn
  simp only [GM.Blocks.initSt, List.mem_singleton] at hn
  subst hn
  exact ⟨fun h => (by cases h), fun h => (by cases h), fun h => (by cases h)⟩

/-! ### (3a) safe mode: well-formed, well-nested, inert output — C03 end to end -/

/-- `convert_safe_wellformed`. For EVERY source and Unicode class assignment, XHTML and HardWraps on or off: when
    `convertCore` answers HTML in safe mode (`Unsafe` off), the HTML is accepted by the strict tokenizer, is well nested,
    uses only the renderer's tags and per-tag allowed attribute names, has inert text and attribute values (no raw `<`
    in text, no raw `"` in values, every `&` starts a well-formed character reference, the only comment is the
    placeholder), writes void elements in the style of the output mode (`Spec.safeHtmlOK`, the conclusion of C03
    `safe_wf`) — and its token structure is well-formed XML (`Spec.xmlOK`, the conclusion of `safe_xhtml_xml`; with XHTML
    on all void elements are self-closed as part of `safeHtmlOK true`). -/
theorem convert_safe_wellformed (uc : List (Nat × (Bool × Bool))) (o : ROpts) (src : Bytes) (html : Bytes)
    (h : convertCore uc o src = .ok html) (hsafe : o.unsafe_ = false) :
    Spec.safeHtmlOK o.xhtml html = true ∧ Spec.xmlOK html = true :=
  safe_wellformed uc o src html h hsafe

/-- the same output as a word of the inductive grammar `WFHtml` (C03 `safe_wf_grammar`) -/
theorem convert_safe_grammar (uc : List (Nat × (Bool × Bool))) (o : ROpts) (src : Bytes) (html : Bytes)
    (h : convertCore uc o src = .ok html) (hsafe : o.unsafe_ = false) :
    GM.Proof.RenderWF.WFHtml o.xhtml html := by
  obtain ⟨t, ht, rfl⟩ := convertWith_ok h
  exact GM.Proof.RenderWF.render_wf (ROpts.opts o) {} t hsafe (parser_output_satisfies_inv uc o src t ht)

/-! ### (3b) safe mode: every href / src value is harmless — C04 end to end -/

/-- `convert_safe_urls_harmless`. For EVERY source, Unicode class assignment, XHTML / HardWraps setting: the HTML
    `convertCore` answers in safe mode is the concatenation of the emitted pieces of one piece list `ps`
    (`convert_options_orthogonal`), and EVERY destination-carrying piece `.url d` of `ps` — Link, Image and AutoLink
    nodes are the only sources of such pieces — stands at an attribute site: the output reads
    `… tag ++ value ++ '"' …` with `tag` = `<a href="` or `<img src="`, `value` = `m ++ urlOut false d` (`m` = the
    `mailto:` the renderer puts in front of an e-mail autolink, else empty), `value` contains no `"` (so it IS the
    attribute value a tokenizer reads), and `value` is not dangerous under `Spec.hrefDangerous` (decode character
    references, trim, strip tab/CR/LF, read the scheme): C04's `safe_href` / `safe_autolink` composed over whole documents. -/
theorem convert_safe_urls_harmless (uc : List (Nat × (Bool × Bool))) (o : ROpts) (src : Bytes) (html : Bytes)
    (h : convertCore uc o src = .ok html) (hsafe : o.unsafe_ = false) :
    ∃ ps : List Piece, html = ps.flatMap (emit o.xhtml o.hardWraps false) ∧
      ∀ pre d post, ps = pre ++ Piece.url d :: post →
        ∃ pre' tag m c post', pre = pre' ++ [Piece.lit (tag ++ m)] ∧ post = Piece.lit (34 :: c) :: post' ∧
          (tag = strBytes "<a href=\"" ∨ tag = strBytes "<img src=\"") ∧
          html = pre'.flatMap (emit o.xhtml o.hardWraps false) ++ tag ++ (m ++ urlOut false d) ++
                  34 :: (c ++ post'.flatMap (emit o.xhtml o.hardWraps false)) ∧
          (∀ b ∈ m ++ urlOut false d, b ≠ 34) ∧
          hrefDangerous lookupEntity (m ++ urlOut false d) = false :=
  safe_urls_harmless uc o src html h hsafe

/-- `convert_safe_urls_harmless_tokens` (C04 at TOKEN level). For EVERY source, Unicode class assignment, XHTML /
    HardWraps setting: the HTML `convertCore` answers in safe mode is accepted by the strict tokenizer and `Spec.urlsOK
    lookupEntity` holds of its tokens — every `href` / `src` value of every start tag, read the way a browser reads it
    (`Spec.hrefDangerous`: decode character references, trim, strip tab / CR / LF, read the scheme), is harmless. This is
    the predicate the run-time oracle `tok urls` evaluates, as a theorem about every document. -/
theorem convert_safe_urls_harmless_tokens (uc : List (Nat × (Bool × Bool))) (o : ROpts) (src : Bytes) (html : Bytes)
    (h : convertCore uc o src = .ok html) (hsafe : o.unsafe_ = false) :
    ∃ ts, tokenize html = some ts ∧ urlsOK lookupEntity ts = true :=
  safe_urls_harmless_tokens uc o src html h hsafe

/-- the renderer half of it for EVERY tree with `Spec.Inv`, every option / extension set (footnote `href="#…"` included):
    C04 at token level for the renderer model, not only for parser output -/
theorem render_safe_urls_harmless_tokens (o : Opts) (e : Exts) (t : GM.Node) (hsafe : o.unsafe_ = false)
    (hinv : Spec.Inv (mkRCfg o e) t = true) :
    ∃ ts, tokenize (render (mkRCfg o e) t) = some ts ∧ urlsOK lookupEntity ts = true :=
  render_urlsOK o e t hsafe hinv

/-- the token predicate is not constantly true (test on a literal): the pre-fix spelling is rejected -/
example : ((tokenize (strBytes "<a href=\"javascript:x\">y</a>")).map (urlsOK lookupEntity)) = some false := by
  decide +kernel

/-- the piece-list fact behind it holds for EVERY tree, extension set and alignment method (not only parser output):
    C04 quantifies over all byte strings a node can store -/
theorem url_pieces_at_attribute_sites (e : Exts) (a : Nat) (esc : Bool) (t : GM.Node) : UrlPiecesOK (ir e a esc t) :=
  ir_urlOK e a esc t

/-! ### (3c) the renderer options are orthogonal rewrites of ONE piece list — C10 end to end -/

/-- `convert_tree_independent_of_options`. By construction of `convertCore` the parse phases do not see the renderer
    options: either they answer one tree `t` and the outcome is `render` of THAT tree for every option set (no option
    set makes the renderer panic), or they answer one error and that is the outcome for every option set. -/
theorem convert_tree_independent_of_options (uc : List (Nat × (Bool × Bool))) (src : Bytes) :
    (∃ t, parseDoc true uc src = .ok t ∧ ∀ o : ROpts, convertCore uc o src = .ok (render o.rcfg t)) ∨
    (∃ e, parseDoc true uc src = .error e ∧ ∀ o : ROpts, convertCore uc o src = .error e) :=
  tree_independent_of_options uc src

/-- `convert_options_orthogonal` (C10 `render_factor` / `xhtml_only_voids_render` / `hardwraps_only_softbreaks` /
    `unsafe_only_raw_render` between `convertCore uc o src` and `convertCore uc o' src`). For EVERY source there is ONE
    piece list `ps`, computed without the three options, such that for every option set the HTML `convertCore` answers
    is (a) the concatenation of `emit o.xhtml o.hardWraps o.unsafe_` over `ps`; (b) — XHTML — the concatenation over the
    HardWraps-rewritten list of bytes that do not depend on XHTML, except that each void end is `>` / ` />`; (c) —
    HardWraps — the HardWraps-off emission with `<br` + void end in front of each soft break; (d) — Unsafe — the safe
    emission of every piece that is neither raw HTML nor a destination classified dangerous. Or the parse phases fail
    and every option set gets the same error. -/
theorem convert_options_orthogonal (uc : List (Nat × (Bool × Bool))) (src : Bytes) :
    (∃ ps : List Piece, ∀ o : ROpts, ∃ html, convertCore uc o src = .ok html ∧
        html = ps.flatMap (emit o.xhtml o.hardWraps o.unsafe_) ∧
        html = (ps.flatMap (hardWrap o.hardWraps)).flatMap
          (fun p => if p.isVoidEnd then voidEndBytes o.xhtml else emitBase false o.unsafe_ p) ∧
        html = ps.flatMap (fun p => (if p.isSoftBreak && o.hardWraps then strBytes "<br" ++ voidEndBytes o.xhtml else []) ++
                              emit o.xhtml false o.unsafe_ p) ∧
        html = ps.flatMap (fun p => if p.unsafeSensitive then emit o.xhtml o.hardWraps o.unsafe_ p
                                    else emit o.xhtml o.hardWraps false p)) ∨
    (∃ e, ∀ o : ROpts, convertCore uc o src = .error e) :=
  options_orthogonal uc src

/-- `convert_unsafe_only_changes_raw`: two conversions of the same source that differ only in `Unsafe` are emissions of
    the same piece list that agree on every piece that is neither raw HTML nor a dangerous destination. -/
theorem convert_unsafe_only_changes_raw (uc : List (Nat × (Bool × Bool))) (o : ROpts) (src : Bytes) (html html' : Bytes)
    (h : convertCore uc { o with unsafe_ := false } src = .ok html)
    (h' : convertCore uc { o with unsafe_ := true } src = .ok html') :
    ∃ ps : List Piece, html = ps.flatMap (emit o.xhtml o.hardWraps false) ∧
      html' = ps.flatMap (emit o.xhtml o.hardWraps true) ∧
      ∀ p ∈ ps, p.unsafeSensitive = false → emit o.xhtml o.hardWraps true p = emit o.xhtml o.hardWraps false p :=
  unsafe_only_changes_raw uc o src html html' h h'

/-! ### round 3: the driver without transformers, and the link-reference transformer on sources without `[`

(The theorems that need package `wf0` — end-to-end totality of the pipeline without paragraph transformers — are in
GM.Props.ConvertE2ENT, so that this file does not depend on it.) -/

/-- `driver_with_no_transformers_is_plain_driver`: `runT [] = run`, for EVERY source — the block driver WITH paragraph
    transformers (GM.Model.Blocks.DriverT, what `convertCore` runs) instantiated with the empty list IS the driver of
    GM.Model.Blocks.Driver (what GM.Props.Blocks / C01 / C05 / C08 / C09 / wf0 speak about), as final states and as error
    outcomes. Mechanised function by function (`tryParsersT`, the retry loop, the two line loops); the two differ by the dead
    `retryTransformed` branch and the `tdone` flag only. So every `run` theorem is a theorem about `runT []`. -/
theorem driver_with_no_transformers_is_plain_driver (src : Bytes) : GM.Blocks.runT [] src = GM.Blocks.run src :=
  GM.Blocks.runT_nil src

/-- `link_reference_scan_finds_nothing_without_bracket`: on a source without the byte `[` the first loop of
    `linkReferenceParagraphTransformer.Transform` (link_ref.go:20-31), run on ANY list of line segments and any reference
    map, removes nothing and registers nothing — whenever it answers at all. (Every line the block reader hands out
    consists of source bytes, padding spaces and a newline, so `line[pos] != '['`, link_ref.go:73.) -/
theorem link_reference_scan_finds_nothing_without_bracket (src : Bytes) (hb : NoBracket src) (lines : List Segment)
    (refs refs' : GM.LinkRef.RefMap) (rm : List (Int × Int))
    (h : GM.LinkRef.transformScan src lines refs = .ok (rm, refs')) : rm = [] ∧ refs' = refs :=
  transformScan_noBracket hb h

/-- `link_reference_transformer_silent_without_bracket`: from EVERY block-phase state over a source without `[`, on a
    node that HAS at least one line, the paragraph transformer of `blockPhase guard` returns the state UNCHANGED (reader,
    node store, reference map, open blocks) or ends in an error outcome. -/
theorem link_reference_transformer_silent_without_bracket (guard : Bool) (node : Nat) (s : GM.Blocks.St)
    (hb : NoBracket s.r.source) (hl : (s.nodes.getD node default).lines ≠ []) :
    ∀ pt ∈ paragraphTransformers guard, pt node s = .ok ((), s) ∨ ∃ e, pt node s = .error e :=
  paragraphTransformer_silent guard node s hb hl

/-- `link_reference_transformer_not_silent_on_lineless_paragraph` (the NEGATION of "the transformer declines on every
    state over a source without `[`", on a witness; reproduced on /repo by calling `Transform` on an attached
    `ast.NewParagraph()` without lines: the Document's child becomes a TextBlock). On `witnessSt` — empty source, a
    Document whose only child is a Paragraph WITHOUT lines — the guarded transformer succeeds and changes the tree: a
    fresh TextBlock takes the paragraph's place (link_ref.go:41-47), the paragraph is detached. Hence carrying `run`
    theorems over to `blockPhase` on such sources needs the driver invariant "a Paragraph handed to
    `transformParagraph` (parser.go:904-907, 985-997) has a line", not only the byte condition. -/
theorem link_reference_transformer_not_silent_on_lineless_paragraph :
    NoBracket witnessSt.r.source ∧
    ∃ s', GM.LinkRef.guardedTransform 1 witnessSt = .ok ((), s') ∧ s'.nodes.length = 3 ∧
      (s'.nodes.getD 0 default).children = [2] ∧ (s'.nodes.getD 2 default).kind = .textBlock ∧
      (s'.nodes.getD 1 default).parent = none ∧ s' ≠ witnessSt :=
  transform_not_silent_witness

/-- **`block_phase_bracket_free`** — for EVERY source without the byte `[` and both settings of the run-time check: the block phase
    of the default pipeline (driver WITH the link-reference transformer) answers exactly what the block phase WITHOUT paragraph
    transformers answers — the same final state (reader, node store, parse context, reference map) — or it ends in an error.
    (With `block_phase_total` of package tnopanic, which excludes the error, this is the equality
    `blockPhase true src = GM.Blocks.run src`.) Proof (GM.Proof.E2ERel): the two drivers are run side by side; the invariants
    that make the transformer silent at its two call sites are carried along — the source is fixed, every Paragraph has a line
    (`PNE`), the open-block stack is consistent (`J2`, so `RequireParagraph` closes the paragraph with `paragraphParser.Close`,
    which keeps a paragraph that has a line attached: `transformed` is false on both sides). -/
theorem block_phase_bracket_free (guard : Bool) (src : Bytes) (hb : NoBracket src) :
    blockPhase guard src = GM.Blocks.run src ∨ ∃ e, blockPhase guard src = .error e :=
  blockPhase_noBracket guard src hb

/-- **`open_block_stack_consistent_and_paragraphs_have_lines`** — for EVERY source: in the store the block phase WITHOUT
    transformers returns, every block of the open-block stack has a node of the kind its parser builds (`J2`) and every
    Paragraph node has at least one line (`PNE`). (Invariants that are not blind to the parse context / the lines: a fourth
    walk, GM.Proof.E2EPara.) -/
theorem open_block_stack_consistent_and_paragraphs_have_lines (src : Bytes) (st : GM.Blocks.St)
    (h : GM.Blocks.runT [] src = .ok st) :
    (∀ i, (st.nodes.getD i default).kind = .paragraph → (st.nodes.getD i default).lines ≠ []) ∧
    (∀ b ∈ st.pc.opened, b.node < st.nodes.length ∧ (st.nodes.getD b.node default).kind = GM.ConvertH.BP.kindOf b.bp) :=
  GM.E2E.PJ.runT_pj (fun _ _ _ hq => by cases hq) src st h

/-- `NoBracket` is decidable and not constantly true (tests on literals) -/
example : NoBracket (strBytes "# a\n> b\n") := by decide +kernel
example : ¬ NoBracket (strBytes "[a]: /u\n") := by decide +kernel

/-! ### non-vacuity (tests on literals, evaluated by the kernel) -/

/-- `# a⏎` converts (all options off) to `<h1>a</h1>⏎`: the hypotheses `convertCore … = .ok html`, `o.unsafe_ = false`
    are satisfiable -/
example : (convertCore [] {} (strBytes "# a\n")).toOption = some (strBytes "<h1>a</h1>\n") := by decide +kernel

/-- a document with raw HTML, a dangerous destination, a soft break and a void element, in safe XHTML mode -/
example : (convertCore [] { xhtml := true } (strBytes "a\n<b>[x](javascript:y)\n\n---\n")).toOption =
    some (strBytes "<p>a\n<!-- raw HTML omitted --><a href=\"\">x</a></p>\n<hr />\n") := by decide +kernel

/-- the same document with all three options on -/
example : (convertCore [] { xhtml := true, hardWraps := true, unsafe_ := true }
      (strBytes "a\n<b>[x](javascript:y)\n\n---\n")).toOption =
    some (strBytes "<p>a<br />\n<b><a href=\"javascript:y\">x</a></p>\n<hr />\n") := by decide +kernel

/-- a seven-`#` line is a paragraph, not a level-7 heading (the clause of `Inv` the ATX parser establishes) -/
example : (convertCore [] {} (strBytes "####### a\n")).toOption = some (strBytes "<p>####### a</p>\n") := by
  decide +kernel

/-- the URL theorem is not vacuous: the piece list of `[x](javascript:y)` has a URL piece, dangerous when written raw -/
example : (convertCore [] {} (strBytes "[x](javascript:y) <http://a> ![i](/s)\n")).toOption =
    some (strBytes "<p><a href=\"\">x</a> <a href=\"http://a\">http://a</a> <img src=\"/s\" alt=\"i\"></p>\n") := by
  decide +kernel

/-- `PTsKeep` is satisfiable: the default transformer list, and the empty list -/
example : PTsKeep HeadOK (paragraphTransformers true) := paragraphTransformers_keep true
example : PTsKeep HeadOK [] := fun _ h => by cases h

end GM.Props.ConvertE2E
