/-
  C15, end to end — "With automatic heading IDs enabled (and no explicit attribute syntax in play), every heading in every
  rendered document carries an id attribute, no id is empty, all ids in the document are pairwise distinct, and they depend
  only on that document."

  GM.Props.C15 proves uniqueness / non-emptiness / locality of the id GENERATOR (parser.go ids.Generate/Put) for every
  call sequence. This file puts the rest of the path inside the composed model of `goldmark.Convert`:
  `GM.ConvertH.convertH true` (lean/GM/Model/ConvertH.lean) is `GM.Convert.convertCore` with the parser option
  `parser.WithAutoHeadingID()`: Close of both heading parsers runs `generateAutoHeadingID` (atx_heading.go:179-208,
  setext_headings.go:110-119) on the heading's last line, the id table lives in the parse state (one per Parse), the Heading
  node gets the `id` attribute, renderHeading writes it through RenderAttributes with html.HeadingAttributeFilter. It is
  tied to the real `goldmark.New(WithParserOptions(WithAutoHeadingID()), …).Convert` by component `converth` (HTML byte for
  byte). All theorems are for EVERY byte string `src` (and every Unicode class assignment `uc`, renderer option set `o`).

  What is proved unconditionally: the option does not change the block phase (`converth_off_is_core`,
  `converth_block_phase_projects`), never loops (`converth_never_loops`); nothing but `generateAutoHeadingID` writes an
  attribute, and each attribute list is exactly one `id` = the value `Generate` returned for that node
  (`attributes_are_generated_ids`); those values are non-empty (`heading_ids_nonempty`), made of `a-z 0-9 -` (`heading_ids_alphabet`), different for different nodes
  (`heading_ids_distinct_by_node`), and are what GM.Ids.run — the function GM.Props.C15 speaks about — returns for the
  logged operations on a fresh table (`heading_ids_table_fed_in_close_order`); the renderer writes `<hN id="…">` for every
  Heading node it visits (`heading_start_tag_rendered`).

  The CLOSE DISCIPLINE of the block driver (GM.Proof.ConvertHWF*, for the driver with paragraph transformers and the option,
  every byte string): the node store is a well-formed tree at every step (`TreeWF`: child edges point to existing nodes
  whose parent pointer agrees, child lists duplicate-free); the only Heading nodes that ever get a parent are the ones
  `openBlocks` appends and pushes on the open-block stack (the tree surgery of paragraph / setext heading / list Close and of
  the link reference transformer inserts only Paragraph / TextBlock nodes it has just created); a Heading node on the stack was
  put there by a heading parser; every slot `closeBlocks` removes from the stack was handed to its parser's `Close` unless
  its node has no parent — and then it is in no child list; the stack is empty when `parseBlocks` returns
  (`headings_always_closed`, `headings_always_once`, `block_phase_close_discipline`). A Setext heading IS the node the setext
  parser's Open created and the driver pushed (Close moves the paragraph's lines into it and unlinks the paragraph), and the
  AutoHeadingID block runs in that very Close call. Hence `every_heading_has_id`, `heading_ids_pairwise_distinct`,
  `heading_ids_rendered`, `c15_end_to_end` hold WITHOUT hypotheses other than `convertH … = .ok html` / `parseDocH … = .ok t`.
-/
import GM.Proof.ConvertHWFMain

namespace GM.Props.C15E2E
open GM GM.Text GM.Convert GM.ConvertH

/-- the tree `convertH` renders is the one `parseDocH` returns (definitional) -/
theorem converth_renders_parsed_tree (autoId : Bool) (uc : List (Nat × (Bool × Bool))) (o : ROpts) (src : Bytes) :
    convertH autoId uc o src = (parseDocH autoId true uc src >>= renderDoc o) := rfl

/-- **Without the option the model is `convertCore`**: the copied block driver with the second state layer erased is the
    driver of GM.Convert, and the tree conversion with an empty attribute store is GM.Convert.docTree. -/
theorem converth_off_is_core (uc : List (Nat × (Bool × Bool))) (o : ROpts) (src : Bytes) :
    convertH false uc o src = convertCore uc o src := convertH_off uc o src

/-- **The option does not change the block phase.** When the block phase with AutoHeadingID returns, the block phase of
    `convertCore` returns the same node store / context; when it ends in a Go panic, so does `convertCore`'s with the
    same panic, or the panic is `Segment.Value`'s in generateAutoHeadingID (never fuel exhaustion). -/
theorem converth_block_phase_projects (guard : Bool) (src : Bytes) :
    match blockPhaseH true guard src with
    | .ok (_, st) => blockPhase guard src = .ok st
    | .error e => blockPhase guard src = .error e ∨ e ≠ Panic.loop := by
  have := runH_on (paragraphTransformers guard) src
  unfold blockPhaseH blockPhase
  cases h : runH true (paragraphTransformers guard) src with
  | error e => rw [h] at this; exact this
  | ok p => rw [h] at this; exact this.2

/-- **`convertH` never loops**: for every byte string, with or without the option, no fuelled loop of the model runs out
    (block phase: by projection to `convertCore`'s; `Generate`'s probing loop: GM.Props.C15.generate_terminates). -/
theorem converth_never_loops (autoId : Bool) (uc : List (Nat × (Bool × Bool))) (o : ROpts) (src : Bytes) (e : Err)
    (h : convertH autoId uc o src = .error e) : e.isLoop = false := convertH_noLoop autoId uc o src h

/-- **No attribute parser, no other attribute.** Whatever the source: every attribute list a node has after the block
    phase is exactly `[id = v]` where `v` is the value a `Generate` call made for THAT node returned; in particular the
    lookup `node.AttributeString("id")` at the start of the option's code in Close can only find an id an earlier Close
    of the same node generated. -/
theorem attributes_are_generated_ids (guard : Bool) (src : Bytes) (hs : HS) (st : Blocks.St)
    (h : blockPhaseH true guard src = .ok (hs, st)) (i : Nat) (as : List Attr.PAttr) (ha : nodeAttrs hs i = some as) :
    ∃ g ∈ hs.gens, g.node = i ∧ as = idAttrs g.id := by
  have hr := runH_on (paragraphTransformers guard) src
  unfold blockPhaseH at h
  rw [h] at hr
  obtain ⟨h1, _, _, _, g, hg, hn, hi⟩ := treeAttrs_entry hs hr.1 i as ha
  exact ⟨g, hg, hn, by rw [h1, hi]⟩

/-- **every Heading node of the final tree was handed to Close** (hypothesis (a) of the first delivery, now a theorem):
    for every byte string, when the block phase with the option returns, every Heading node of the final block tree has
    its attribute entry. -/
theorem headings_always_closed (src : Bytes) : headingsClosedOK true src = true := headingsClosedOK_all true src

/-- **no Heading node occurs twice in the final tree** (hypothesis (b), now a theorem) -/
theorem headings_always_once (src : Bytes) : headingsOnceOK true src = true := headingsOnceOK_all true src

/-- **the close discipline, projected to `convertCore`'s block phase**: whenever the block phase with the option
    returns, `convertCore`'s block phase returns the same store, the open-block stack is empty and the store is a
    well-formed tree -/
theorem block_phase_close_discipline (guard : Bool) (src : Bytes) (hs : HS) (st : Blocks.St)
    (h : blockPhaseH true guard src = .ok (hs, st)) :
    blockPhase guard src = .ok st ∧ st.pc.opened = [] ∧ TreeWF st := blockPhase_closed_of_H guard src hs st h

/-- **Every heading carries an id**: every Heading node of the tree `convertH true` renders carries exactly one
    attribute, `id`, with a byte-string value. Unconditional (every byte string). -/
theorem every_heading_has_id (uc : List (Nat × (Bool × Bool))) (src : Bytes) (t : GM.Node)
    (h : parseDocH true true uc src = .ok t) :
    ∀ a ∈ headingAttrs t, ∃ v, a = idAttr v := by
  have hc := headingsClosedOK_all true src
  obtain ⟨hs, st, hb, hh, ht⟩ := parseDocH_spec true uc src t h
  unfold headingsClosedOK at hc
  rw [hb] at hc
  obtain ⟨h1, _⟩ := closed_headings_spec hs hh _ hc
  intro a ha
  rw [ht, h1] at ha
  obtain ⟨v, _, rfl⟩ := List.mem_map.1 ha
  exact ⟨v, rfl⟩

/-- **No id is empty** (unconditional): whatever attributes a Heading node of the rendered tree has, they are exactly one
    `id` with a non-empty value. -/
theorem heading_ids_nonempty (uc : List (Nat × (Bool × Bool))) (src : Bytes) (t : GM.Node)
    (h : parseDocH true true uc src = .ok t) :
    ∀ a ∈ headingAttrs t, ∀ as, a = some as → ∃ v, a = idAttr v ∧ v ≠ [] := by
  obtain ⟨hs, st, hb, hh, ht⟩ := parseDocH_spec true uc src t h
  intro a ha as has
  rw [ht] at ha
  obtain ⟨i, _, rfl⟩ := List.mem_map.1 ha
  cases hn : nodeAttrs hs i with
  | none => simp [treeAttrs, hn] at has
  | some as' =>
    obtain ⟨_, h2, h3, _⟩ := treeAttrs_entry hs hh i as' hn
    exact ⟨_, h3, h2⟩

/-- **Ids are made of `a-z`, `0-9`, `-`** (unconditional): so util.EscapeHTML, which RenderAttributes applies, leaves them
    alone and the attribute value in the HTML is the id itself. -/
theorem heading_ids_alphabet (uc : List (Nat × (Bool × Bool))) (src : Bytes) (t : GM.Node)
    (h : parseDocH true true uc src = .ok t) :
    ∀ a ∈ headingAttrs t, ∀ v, a = idAttr v → (∀ c ∈ v, IdByte c = true) ∧ escapeHTML v = v := by
  obtain ⟨hs, st, hb, hh, ht⟩ := parseDocH_spec true uc src t h
  intro a ha v hav
  rw [ht] at ha
  obtain ⟨i, _, rfl⟩ := List.mem_map.1 ha
  cases hn : nodeAttrs hs i with
  | none => simp [treeAttrs, hn, idAttr] at hav
  | some as' =>
    obtain ⟨_, _, h3, _⟩ := treeAttrs_entry hs hh i as' hn
    have e : idOf hs i = v := by
      rw [h3] at hav
      simpa [idAttr] using hav
    have := idOf_idBytes hs hh i as' hn
    rw [e] at this
    exact ⟨this, escapeHTML_idBytes v this⟩

/-- **Different heading nodes never share an id** (unconditional, by node identity): after the block phase two different
    nodes never carry the same attribute list. -/
theorem heading_ids_distinct_by_node (guard : Bool) (src : Bytes) (hs : HS) (st : Blocks.St)
    (h : blockPhaseH true guard src = .ok (hs, st)) (i j : Nat) (hij : i ≠ j) (ai aj : List Attr.PAttr)
    (hi : nodeAttrs hs i = some ai) (hj : nodeAttrs hs j = some aj) : ai ≠ aj := by
  have hr := runH_on (paragraphTransformers guard) src
  unfold blockPhaseH at h
  rw [h] at hr
  exact attrs_distinct_by_node hs hr.1 i j ai aj hij hi hj

/-- **All ids of the document are pairwise distinct**: the Heading nodes of the rendered tree carry, in document order,
    `id = v` for a duplicate-free list of non-empty values `v`, one per heading, each of them returned by a `Generate`
    call of the block phase. Unconditional (every byte string). -/
theorem heading_ids_pairwise_distinct (uc : List (Nat × (Bool × Bool))) (src : Bytes) (t : GM.Node)
    (h : parseDocH true true uc src = .ok t) :
    ∃ ids : List Bytes, headingAttrs t = ids.map idAttr ∧ ids.Nodup ∧ ∀ v ∈ ids, v ≠ [] := by
  have hc := headingsClosedOK_all true src
  have ho := headingsOnceOK_all true src
  obtain ⟨hs, st, hb, hh, ht⟩ := parseDocH_spec true uc src t h
  unfold headingsClosedOK at hc
  unfold headingsOnceOK at ho
  rw [hb] at hc ho
  obtain ⟨h1, h4⟩ := closed_headings_spec hs hh _ hc
  exact ⟨_, by rw [ht, h1], once_headings_nodup hs hh _ hc ho, fun v hv => (h4 v hv).1⟩

/-- **The id table is fed by the heading parsers' Close calls, in order** (unconditional): replaying the operations the
    block phase made on its id table — one `Generate(text, KindHeading)` per `generateAutoHeadingID` call, with the
    heading's last-line text, in the order of the Close calls — on a fresh table with GM.Ids.run returns exactly the ids
    the nodes got. This is the function GM.Props.C15.ids_ops_distinct / ids_pairwise_distinct are about
    (uniqueness and non-emptiness here are GM.Proof.Ids.run_fresh, the lemma behind them). -/
theorem heading_ids_table_fed_in_close_order (guard : Bool) (src : Bytes) (hs : HS) (st : Blocks.St)
    (h : blockPhaseH true guard src = .ok (hs, st)) :
    Ids.run [] hs.ops = some (hs.gens.map (·.id)) ∧
    hs.ops.filterMap (fun op => match op with | .gen v _ => some v | .put _ => none) = hs.gens.map (·.text) ∧
    (hs.gens.map (·.id)).Nodup ∧ (∀ g ∈ hs.gens, g.id ≠ [] ∧ nodeAttrs hs g.node = some (idAttrs g.id)) := by
  have hr := runH_on (paragraphTransformers guard) src
  unfold blockPhaseH at h
  rw [h] at hr
  obtain ⟨h2, _, h4⟩ := GM.Proof.Ids.run_fresh _ _ _ hr.1.run
  refine ⟨hr.1.run, hr.1.opsGens, h2, fun g hg => ⟨h4 _ (List.mem_map.2 ⟨g, hg, rfl⟩), hr.1.genKept g hg⟩⟩

/-- the renderer writes the start tag with the node's attributes for every Heading node it visits (any tree) -/
theorem heading_start_tag_rendered (o : ROpts) (t : GM.Node) (p : Nat × Option (List GM.Attr)) (hp : p ∈ rHeadings t) :
    headingTag p.1 p.2 <:+: render o.rcfg t := render_heading_infix o.rcfg t p hp

/-- `<hN id="v">`, literally (` id="` = 32 105 100 61 34, `">` = 34 62) -/
def startTag (lv : Nat) (v : Bytes) : Bytes :=
  strBytes "<h" ++ [UInt8.ofNat (48 + lv)] ++ [32, 105, 100, 61, 34] ++ v ++ [34, 62]

/-- **The ids are in the HTML** (unconditional): when `convertH true` returns `html`,
    then for every Heading node the renderer visits (level `lv`) there is a non-empty `v` such that the node's attributes
    are `id = v` and the start tag `<hlv id="v">` — the id itself, nothing escaped — is a contiguous part of `html`. -/
theorem heading_ids_rendered (uc : List (Nat × (Bool × Bool))) (o : ROpts) (src : Bytes) (html : Bytes)
    (h : convertH true uc o src = .ok html) :
    ∃ t, parseDocH true true uc src = .ok t ∧
      ∀ p ∈ rHeadings t, ∃ v, v ≠ [] ∧ p.2 = idAttr v ∧ startTag p.1 v <:+: html := by
  unfold convertH convertHWith at h
  obtain ⟨t, ht, hr⟩ := ebind_ok h
  refine ⟨t, ht, fun p hp => ?_⟩
  have hmem := rHeadings_sub t p hp
  obtain ⟨v, hv⟩ := every_heading_has_id uc src t ht _ hmem
  obtain ⟨v', hv', hne⟩ := heading_ids_nonempty uc src t ht _ hmem _ hv
  have e : v' = v := by
    rw [hv] at hv'
    simpa [idAttr] using hv'.symm
  subst e
  have hesc := (heading_ids_alphabet uc src t ht _ hmem v' hv).2
  refine ⟨v', hne, hv, ?_⟩
  unfold renderDoc at hr
  split at hr
  · cases hr
  · cases hr
    have := heading_start_tag_rendered o t p hp
    rw [hv, headingTag_id] at this
    unfold idTag at this
    rw [hesc] at this
    exact this

/-- **The ids depend only on the document**: trivial for a pure model — `convertH true uc o` is a function of `src`, there
    is no state between conversions (the id table is created by `blockPhaseH` for each document: `HS` starts empty). The
    content is the tie: component `converth` converts every document twice on one shared goldmark instance. -/
theorem heading_ids_document_local (uc : List (Nat × (Bool × Bool))) (o : ROpts) (before after : List Bytes) (src : Bytes) :
    ((before ++ src :: after).map (convertH true uc o))[before.length]? = some (convertH true uc o src) := by
  simp

/-- **C15, end to end.** When `convertH true` — the model of `goldmark.New(WithParserOptions(WithAutoHeadingID()), …).Convert`,
    tied to it byte for byte — returns `html` for a byte string `src`: `html` is the rendering of the tree `t` the parser
    model returns, and for the Heading nodes the renderer visits, in document order (`rHeadings t`: level, attributes):
    * the attributes of each are exactly `id = v`, and the list of these attribute lists is DUPLICATE-FREE (all ids distinct);
    * every `v` is NON-EMPTY, consists of `a-z 0-9 -` (nothing for EscapeHTML to change);
    * the start tag the renderer writes for it, `<hN id="v">`, is a contiguous part of `html`.
    The ids are a function of `src` alone (`heading_ids_document_local`). -/
theorem c15_end_to_end (uc : List (Nat × (Bool × Bool))) (o : ROpts) (src : Bytes) (html : Bytes)
    (h : convertH true uc o src = .ok html) :
    ∃ t, parseDocH true true uc src = .ok t ∧ html = render o.rcfg t ∧
      ((rHeadings t).map (·.2)).Nodup ∧
      ∀ p ∈ rHeadings t, ∃ v, p.2 = idAttr v ∧ v ≠ [] ∧ (∀ c ∈ v, IdByte c = true) ∧ startTag p.1 v <:+: html := by
  obtain ⟨t, ht, hr⟩ := heading_ids_rendered uc o src html h
  obtain ⟨ids, hi, hn, _⟩ := heading_ids_pairwise_distinct uc src t ht
  refine ⟨t, ht, ?_, ?_, fun p hp => ?_⟩
  · unfold convertH convertHWith at h
    obtain ⟨t', ht', hr'⟩ := ebind_ok h
    rw [ht] at ht'
    cases ht'
    unfold renderDoc at hr'
    split at hr'
    · cases hr'
    · cases hr'; rfl
  · have hs := rHeadings_sublist t
    rw [hi] at hs
    exact List.Nodup.sublist hs (nodup_map_idAttr ids hn)
  · obtain ⟨v, hne, hv, htag⟩ := hr p hp
    exact ⟨v, hv, hne, (heading_ids_alphabet uc src t ht _ (rHeadings_sub t p hp) v hv).1, htag⟩

/-! ### tests on literals (not theorems), evaluated by the kernel -/

-- `# a⏎# a⏎a⏎=⏎`  ↦  `<h1 id="a">a</h1>⏎<h1 id="a-1">a</h1>⏎<h1 id="a-2">a</h1>⏎`
example : (convertH true [] {} [35, 32, 97, 10, 35, 32, 97, 10, 97, 10, 61, 10]).toOption =
    some (strBytes "<h1 id=\"a\">a</h1>\n<h1 id=\"a-1\">a</h1>\n<h1 id=\"a-2\">a</h1>\n") := by
  decide +kernel

-- the hypothesis `convertH … = .ok html` is satisfiable: the literal above, and `> #⏎` (an empty heading inside a quote)
example : (convertH true [] {} [62, 32, 35, 10]).toOption =
    some (strBytes "<blockquote>\n<h1 id=\"heading\"></h1>\n</blockquote>\n") := by decide +kernel

end GM.Props.C15E2E
